"""gen_files — regenerate lean/W2c2Verif/Gen/Files.lean from /repo/w2c2/{c.h,c.c,main.c,file.c,compat.c}.

Everything C20's model interprets is extracted here as DATA (nothing is hard-coded; an
unexpected shape raises ExtractFail, which the check treats as a broken tie):

  * W2C2_IMPL_FILENAME_LENGTH (c.h) and the size of the `filename` buffer of
    wasmCWriteImplementationFile;
  * the sprintf format of the implementation file name, parsed into format items, with the C
    types of its two arguments; the prefix characters passed by the two call sites;
  * the `datasegments` file name and the data-segment modes that create it;
  * the single-file condition and the file-count arithmetic (shape-checked, see `shapes`);
  * the header-name computation of wasmCWriteModule (strrchr character, appended suffix);
  * cleanImplementationFiles: glob pattern (tokenised) + flags and EVERY character test, as a
    list of `CleanStep`s (comparison operator and constant of the length test, index and
    boolean condition of the first-character test, start / comparison / end offset and the
    character condition of the digit loop) and the removing call;
  * the order of the file-relevant steps of main() (read module, read reference, chdir, clean,
    write) with their guards, the option string and the clean option letter, the -d mode names;
  * every file-system call site of the translator sources (fopen with its mode string, remove,
    chdir, glob, …) — a new site that the model does not know makes `sites_modelled` fail.
"""
import os
import re

import cfront
import csem as cs
from cfront import ExtractFail, Cpp, Parser, find_functions, lex, Tok
from cfront import Var, IntLit, Bin, Un, Index, Call, AssignE, Member, Cast, AddrOf

GEN_NAME = "Files"

PREDEF = {"HAS_GLOB": "1", "HAS_PTHREAD": "1", "HAS_UNISTD": "1", "HAS_GETOPT": "1",
          "HAS_LIBGEN": "1", "HAS_STRDUP": "1"}

# calls that touch the file system (anything here that appears in the translator must be modelled)
FS_CALLS = ["fopen", "freopen", "fdopen", "open", "openat", "creat", "remove", "unlink", "unlinkat", "rmdir",
            "rename", "renameat", "mkdir", "mkdirat", "chdir", "fchdir", "truncate", "ftruncate", "tmpfile",
            "mkstemp", "mktemp", "tmpnam", "system", "popen", "glob", "opendir", "symlink", "link", "chmod",
            "CreateFile", "DeleteFile", "FindFirstFile", "_chdir", "_unlink", "execv", "execvp", "execl", "fork"]

CMP = {"eq": "eq", "ne": "ne", "lt": "lt", "le": "le", "gt": "gt", "ge": "ge"}


# ----------------------------------------------------------------------------- helpers

def chr_value(text, where):
    body = text[1:-1]
    if len(body) == 1:
        return ord(body)
    esc = {"\\n": 10, "\\t": 9, "\\0": 0, "\\\\": 92, "\\'": 39, "\\\"": 34, "\\r": 13}
    if body in esc:
        return esc[body]
    raise ExtractFail(where, f"unsupported character literal {text}")


def c_string(text, where):
    """Value (bytes) of a C string literal token without prefix; simple escapes only."""
    if not (text.startswith('"') and text.endswith('"')):
        raise ExtractFail(where, f"not a string literal: {text}")
    body = text[1:-1]
    out = bytearray()
    i = 0
    while i < len(body):
        c = body[i]
        if c == "\\":
            n = body[i + 1]
            m = {"n": 10, "t": 9, "0": 0, "\\": 92, "'": 39, '"': 34, "r": 13}
            if n not in m:
                raise ExtractFail(where, f"unsupported escape in {text}")
            out.append(m[n])
            i += 2
        else:
            if ord(c) > 127:
                raise ExtractFail(where, f"non-ASCII string literal {text}")
            out.append(ord(c))
            i += 1
    return bytes(out)


def detok_chars(toks, where):
    """Replace character-literal tokens by integer tokens so that cfront's parser accepts them."""
    out = []
    for t in toks:
        if t.kind == "chr":
            out.append(Tok("num", str(chr_value(t.text, where)), t.line, t.space))
        else:
            out.append(t)
    return out


def parse_e(toks, where):
    p = Parser(detok_chars(toks, where), where, {"size_t": "u64", "glob_t": "u64", "bool": "u8", "FILE": "u64"})
    e = p.parse_expr()
    if p.pos != len(p.toks):
        p.fail("trailing tokens")
    return e


def text_of(toks):
    return cfront.toks_text(toks)


def norm(toks):
    return "".join(t.text for t in toks)


def functions_of(repo, fname, predef=None):
    path = os.path.join(repo, "w2c2", fname)
    cpp = Cpp(predef=dict(PREDEF if predef is None else predef), fname=fname)
    # the one statement-like macro the file-writing code uses (defined in w2c2_base.h)
    base = open(os.path.join(repo, "w2c2", "w2c2_base.h")).read()
    m = re.findall(r"^[ \t]*#[ \t]*define[ \t]+MUST\(_\)[^\n]*$", base, re.M)
    if len(m) != 1:
        raise ExtractFail("w2c2_base.h", "MUST(_) is not defined exactly once on one line")
    cpp.run(m[0] + "\n")
    cpp.run(open(path).read())
    funcs = find_functions(cpp.text_out, fname)
    for f in funcs.values():
        if any(t.text == "MUST" for t in f.body_toks):
            f.body_toks = cpp.expand(f.body_toks)
    return funcs, cpp


def matching(toks, i, open_t, close_t, where):
    d = 0
    k = i
    while k < len(toks):
        if toks[k].text == open_t:
            d += 1
        elif toks[k].text == close_t:
            d -= 1
            if d == 0:
                return k
        k += 1
    raise ExtractFail(where, f"unbalanced {open_t}")


def parse_stmts(toks, where):
    """Split a token list into statement trees:
       ('if', cond, then, else|None) ('for', init, cond, step, body) ('while', cond, body)
       ('do', body, cond) ('switch', cond, bodytoks) ('block', stmts) ('simple', toks)
       ('case', toks) — labels inside switch bodies are not split further here."""
    out = []
    i = 0
    n = len(toks)

    def stmt(i):
        t = toks[i]
        if t.text == "{":
            e = matching(toks, i, "{", "}", where)
            return ("block", parse_stmts(toks[i + 1:e], where)), e + 1
        if t.text == "if":
            if toks[i + 1].text != "(":
                raise ExtractFail(where, "if without (")
            e = matching(toks, i + 1, "(", ")", where)
            cond = toks[i + 2:e]
            th, j = stmt(e + 1)
            el = None
            if j < n and toks[j].text == "else":
                el, j = stmt(j + 1)
            return ("if", cond, th, el), j
        if t.text == "for":
            e = matching(toks, i + 1, "(", ")", where)
            inner = toks[i + 2:e]
            parts = [[]]
            d = 0
            for x in inner:
                if x.text in "([":
                    d += 1
                elif x.text in ")]":
                    d -= 1
                if x.text == ";" and d == 0:
                    parts.append([])
                else:
                    parts[-1].append(x)
            if len(parts) != 3:
                raise ExtractFail(where, "for header is not (init; cond; step)")
            body, j = stmt(e + 1)
            return ("for", parts[0], parts[1], parts[2], body), j
        if t.text == "while":
            e = matching(toks, i + 1, "(", ")", where)
            body, j = stmt(e + 1)
            return ("while", toks[i + 2:e], body), j
        if t.text == "do":
            body, j = stmt(i + 1)
            if toks[j].text != "while":
                raise ExtractFail(where, "do without while")
            e = matching(toks, j + 1, "(", ")", where)
            if toks[e + 1].text != ";":
                raise ExtractFail(where, "do-while without ;")
            return ("do", body, toks[j + 2:e]), e + 2
        if t.text == "switch":
            e = matching(toks, i + 1, "(", ")", where)
            if toks[e + 1].text != "{":
                raise ExtractFail(where, "switch without {")
            e2 = matching(toks, e + 1, "{", "}", where)
            return ("switch", toks[i + 2:e], toks[e + 2:e2]), e2 + 1
        # simple statement up to ';' at depth 0
        d = 0
        k = i
        while k < n:
            x = toks[k].text
            if x in "([{":
                d += 1
            elif x in ")]}":
                d -= 1
            elif x == ";" and d == 0:
                return ("simple", toks[i:k]), k + 1
            k += 1
        raise ExtractFail(where, "statement without ; near " + text_of(toks[i:i + 6]))

    while i < n:
        s, i = stmt(i)
        out.append(s)
    return out


def body_list(s):
    """Statements of a block or a single statement as list."""
    return s[1] if s[0] == "block" else [s]


def is_simple(s, text):
    return s[0] == "simple" and norm(s[1]) == text


# ----------------------------------------------------------------------------- Lean printing

def lbytes(b):
    return "[" + ", ".join(str(x) for x in b) + "]"


def lstr(b):
    return cfront.lean_str(b.decode("ascii"))


def cond_to_lean(e, is_leaf, where):
    """Boolean combination of comparisons `leaf OP constant` → CharCond term."""
    if isinstance(e, Bin) and e.op in ("land", "lor"):
        a = cond_to_lean(e.a, is_leaf, where)
        b = cond_to_lean(e.b, is_leaf, where)
        return f"(.{'and' if e.op == 'land' else 'or'} {a} {b})"
    if isinstance(e, Un) and e.op == "lnot":
        return f"(.not {cond_to_lean(e.e, is_leaf, where)})"
    if isinstance(e, Bin) and e.op in CMP:
        if is_leaf(e.a) and isinstance(e.b, IntLit):
            if not 0 <= e.b.value <= 127:
                raise ExtractFail(where, "character constant outside ASCII")
            return f"(.cmp .{CMP[e.op]} {e.b.value})"
        if is_leaf(e.b) and isinstance(e.a, IntLit):
            flip = {"lt": "gt", "gt": "lt", "le": "ge", "ge": "le", "eq": "eq", "ne": "ne"}[e.op]
            return f"(.cmp .{flip} {e.a.value})"
    raise ExtractFail(where, "unsupported condition shape in character test")


# ----------------------------------------------------------------------------- pieces

def parse_format(fmt, where):
    """printf format → list of Lean FmtItem terms and the list of argument kinds."""
    items = []
    kinds = []
    i = 0
    lit = bytearray()
    while i < len(fmt):
        c = fmt[i:i + 1]
        if c != b"%":
            lit += c
            i += 1
            continue
        m = re.match(rb"%(0?)(\d*)(c|u|d|lu|s|%)", fmt[i:])
        if not m:
            raise ExtractFail(where, f"unsupported conversion in format {fmt!r}")
        if lit:
            items.append(f".lit {lbytes(lit)}")
            lit = bytearray()
        zero, width, conv = m.group(1), m.group(2), m.group(3)
        if conv == b"%":
            lit += b"%"
        elif conv == b"c":
            if zero or width:
                raise ExtractFail(where, "flags on %c")
            items.append(".charArg")
            kinds.append("char")
        elif conv == b"u":
            items.append(f".uintArg {'true' if zero else 'false'} {int(width) if width else 0}")
            kinds.append("uint")
        else:
            raise ExtractFail(where, f"conversion %{conv.decode()} is not modelled for file names")
        i += m.end()
    if lit:
        items.append(f".lit {lbytes(lit)}")
    return items, kinds


def glob_tokens(pat, where):
    toks = []
    for ch in pat:
        c = bytes([ch])
        if c == b"*":
            toks.append(".star")
        elif c == b"?":
            toks.append(".any")
        elif c in b"[]\\{}~/":
            raise ExtractFail(where, f"glob pattern {pat!r} uses syntax outside the modelled subset (* ? literals)")
        else:
            toks.append(f".lit {ch}")
    return toks


# ---- cleanImplementationFiles, read SEMANTICALLY (csem): the function is executed symbolically, every variable is bound by
# ---- the ROLE its value plays (the glob result, the entry name, its length, a constant index, the scan flag), so local
# ---- names, const temporaries, switch / if-else forms, negated conditions, for / while and operand order are all free.

CLEAN_TYPEDEFS = {"glob_t": "u64", "size_t": "u64", "bool": "u8", "FILE": "u64", "HANDLE": "u64"}


class _Clean:
    def __init__(self, where, consts, funcs):
        self.where, self.consts, self.funcs = where, consts, funcs
        self.steps = []
        self.pending = {}          # flag variable -> scan step not tested yet
        self.action = None
        self.flag_carried = None   # None: the scan flag is re-initialised for every entry; else its declaration's value
        self.flag_seen = False

    def fail(self, why):
        raise ExtractFail(self.where, why)

    # -- symbolic values: ('entry',) ('len',) ('int', k) ('char', idx) ('scanchar',) ('carried', init|None) ('scan', step) ('removed',)
    def ev(self, e, env):
        e = cs.strip(e, casts=False)
        v = cs.int_value(e) if not isinstance(e, Cast) else None
        if v is not None:
            return ("int", v)
        if isinstance(e, Var):
            if e.n in self.consts:
                return ("int", self.consts[e.n])
            r = env.get(e.n)
            if r is not None and r[0] == "carried":
                self.fail(f"`{e.n}` is read with the value the previous directory entry left in it (only the scan flag is modelled as carried state)")
            return r
        if isinstance(e, Cast):
            inner = self.ev(e.e, env)
            # integer conversions of a length or a non-negative constant keep the value; a converted character does not (sign)
            if inner is not None and inner[0] in ("int", "len") and e.ty in ("u64", "i64", "u32", "i32") and not getattr(e, "ptr", 0):
                return inner if inner[0] == "len" or inner[1] >= 0 else None
            return None
        if isinstance(e, Index):
            a, i = self.ev(e.a, env), self.ev(e.i, env)
            if a == ("entry",) and i is not None and i[0] == "int":
                return ("char", i[1])
            if a == ("entry",) and i == ("scanidx",):
                return ("scanchar",)
            if a == ("pathv",) and i == ("entryidx",):
                return ("entry",)
            return None
        if isinstance(e, Member) and not e.arrow and self.ev(e.e, env) == ("globbuf",):
            return {"gl_pathv": ("pathv",), "gl_pathc": ("pathc",)}.get(e.name)
        if isinstance(e, Call) and e.f == "strlen" and len(e.args) == 1 and self.ev(e.args[0], env) == ("entry",):
            return ("len",)
        if isinstance(e, Call) and e.f == "remove" and len(e.args) == 1 and self.ev(e.args[0], env) == ("entry",):
            return ("removecall",)
        return None

    # -- conditions
    def atom(self, b, env, leaf):
        """one comparison → ('len', op, k) | ('char', idx, op, k) | ('flag', name, positive) | ('remove', ...)"""
        a, c, op = self.ev(b.a, env), self.ev(b.b, env), b.op
        if c is not None and c[0] != "int" and a is not None and a[0] == "int":
            a, c, op = c, a, cs.FLIP[op]
        if a is None or c is None or c[0] != "int":
            self.fail("unsupported comparison `" + cs.key(b.a) + " " + op + " " + cs.key(b.b) + "` in the clean predicate")
        k = c[1]
        if a == ("len",):
            return ("len", op, k)
        if a[0] == "char" and leaf is None:
            return ("char", a[1], op, k)
        if a == ("scanchar",) and leaf == "scan":
            return ("char", None, op, k)
        if a[0] == "scan" and k == 0 and op in ("eq", "ne"):
            return ("flag", a[1], op == "ne")
        if a in (("removecall",), ("removed",)) and op in ("eq", "ne", "lt", "gt", "le", "ge"):
            return ("remove",)
        self.fail("unsupported comparison `" + cs.key(b.a) + " " + op + " " + cs.key(b.b) + "` in the clean predicate")

    def cond(self, e, env, neg=False, leaf=None):
        """truth value of e → tree: ('len'…) ('char'…) ('flag'…) ('remove',) ('and'|'or', [items])"""
        e = cs.inline_calls(e, self.funcs, self.where, CLEAN_TYPEDEFS)
        t = cs.truth(cs.subst(e, self.cenv), neg)

        def go(t):
            if isinstance(t, cs.BConst):
                self.fail("constant condition in the clean predicate")
            if isinstance(t, cs.BAtom):
                return self.atom(t, env, leaf)
            return (t.op, [go(x) for x in t.items])
        return go(t)

    def char_lean(self, c):
        """character condition tree → (index, Lean CharCond term); operands in canonical order"""
        if c[0] == "char":
            if not 0 <= c[3] <= 127:
                self.fail("character constant outside ASCII")
            return c[1], (c[3], c[2]), f"(.cmp .{CMP[c[2]]} {c[3]})"
        if c[0] in ("and", "or"):
            parts = [self.char_lean(x) for x in c[1]]
            idx = {p[0] for p in parts}
            if len(idx) != 1:
                self.fail("character test mixes several indices")
            parts.sort(key=lambda p: (p[1], p[2]))
            term = parts[0][2]
            for p in parts[1:]:
                term = f"(.{c[0]} {term} {p[2]})"
            return idx.pop(), parts[0][1], term
        self.fail("a character test is combined with a test of another kind")

    def is_char(self, c):
        return c[0] == "char" or (c[0] in ("and", "or") and all(self.is_char(x) for x in c[1]))

    def reject(self, c):
        """`if (c) continue;`"""
        if self.action is not None:
            self.fail("a rejecting test after the removing call")
        if c[0] == "or" and not self.is_char(c):
            # `if (a || b) continue;` = `if (a) continue; if (b) continue;` (same evaluation order)
            run = []
            for x in c[1]:
                if self.is_char(x) and run and self.is_char(run[-1]) and self.char_lean(x)[0] == self.char_lean(run[-1])[0]:
                    run[-1] = ("or", [run[-1], x])
                else:
                    run.append(x)
            for x in run:
                self.reject(x)
            return
        if c[0] == "len":
            self.steps.append(f".rejectIfLen .{CMP[c[1]]} {c[2]}")
        elif self.is_char(c):
            idx, _, term = self.char_lean(c)
            self.steps.append(f".rejectIfCharAt {idx} {term}")
        elif c[0] == "flag":
            name, positive = c[1], c[2]
            if positive:
                self.fail("the entry is skipped when the scan flag is still SET (expected: when it was cleared)")
            if name not in self.pending:
                self.fail("the scan flag is tested twice / without a preceding scan loop")
            self.steps.append(self.pending.pop(name))
        else:
            self.fail("unsupported rejecting test in the match loop")

    # -- statements of the match loop
    @staticmethod
    def harmless(s):
        return s[0] == "expr" and isinstance(s[1], Call) and s[1].f == "fprintf" and s[1].args and cs.key(s[1].args[0]) == "stderr"

    def only_continue(self, stmts):
        ss = [s for s in stmts if not self.harmless(s)]
        return len(ss) == 1 and ss[0][0] == "continue"

    def run(self, stmts, env):
        for n, s in enumerate(stmts):
            rest = stmts[n + 1:]
            k = s[0]
            if self.harmless(s):
                continue
            if k == "continue":
                return                      # end of this entry: what follows is unreachable
            if self.action is not None:
                self.fail("statements after the removing call")
            if k == "decl":
                d = s[1]
                if d.name in self.cenv:
                    continue
                if d.init is None:
                    env[d.name] = ("carried", None)
                    continue
                v = self.ev(d.init, env)
                if v == ("removecall",):
                    self.action, v = "remove", ("removed",)
                if v is None:
                    self.fail(f"unsupported initialiser of `{d.name}` in the match loop")
                env[d.name] = v
            elif k == "expr":
                e = s[1]
                if isinstance(e, AssignE) and e.op == "=" and isinstance(e.lhs, Var):
                    v = self.ev(e.rhs, env)
                    if v == ("removecall",):
                        self.action, v = "remove", ("removed",)
                    if v is None:
                        self.fail(f"unsupported assignment to `{e.lhs.n}` in the match loop")
                    if e.lhs.n in self.pending:
                        self.fail("the scan flag is overwritten before it is tested")
                    env[e.lhs.n] = v
                elif self.ev(e, env) == ("removecall",) or (isinstance(e, Cast) and self.ev(e.e, env) == ("removecall",)):
                    self.action = "remove"
                else:
                    self.fail("unexpected statement `" + cs.key(e)[:80] + "` in the match loop")
            elif k == "if":
                T, E = s[2], s[3] or []
                c = self.cond(s[1], env)
                if c == ("remove",) or (c[0] in ("and", "or") and ("remove",) in c[1]):
                    if c != ("remove",) or not all(self.harmless(x) for x in T + E):
                        self.fail("unexpected statement after a failed remove")
                    self.action = "remove"
                    continue
                tdiv, ediv = self.only_continue(T), self.only_continue(E)
                if tdiv and not ediv:
                    self.reject(c)
                    return self.run(E + rest, env)
                if ediv and not tdiv:
                    self.reject(self.cond(s[1], env, neg=True))
                    return self.run(T + rest, env)
                if not tdiv and not ediv and not [x for x in E if not self.harmless(x)] and not [x for x in rest if not self.harmless(x)]:
                    # `if (ok) { …rest of the entry… }` as the last statement = `if (!ok) continue; …`
                    self.reject(self.cond(s[1], env, neg=True))
                    return self.run(T, env)
                self.fail("unsupported if/else in the match loop")
            elif k == "loop":
                self.scan(s, env)
            elif k == "block":
                self.run(s[1], env)
            else:
                self.fail(f"unexpected {k} statement in the match loop")

    def scan(self, s, env):
        """`for (i = START; i OP len - MINUS; i++) { c = entry[i]; if (COND(c)) { flag = false; break; } }`"""
        _, init, cnd, step, body = s
        if len(step) != 1 or cs.as_increment(step[0][1]) is None or cs.as_increment(step[0][1])[1] != 1:
            self.fail("scan loop step is not an increment by one")
        J = cs.as_increment(step[0][1])[0]
        for x in init:
            if not (x[0] == "expr" and isinstance(x[1], AssignE) and x[1].op == "=" and isinstance(x[1].lhs, Var)):
                self.fail("scan loop init is not an assignment")
            v = self.ev(x[1].rhs, env)
            if v is None:
                self.fail("scan loop init is not `index = K`")
            env[x[1].lhs.n] = v
        start = env.get(J)
        if start is None or start[0] != "int":
            self.fail("scan loop init is not `index = K`")
        if cnd is None:
            self.fail("scan loop without a condition")
        t = cs.truth(cs.subst(cnd, self.cenv))
        if not isinstance(t, cs.BAtom) or t.op not in CMP:
            self.fail("scan loop condition has unexpected shape")
        a, b, op = t.a, t.b, t.op
        if not (isinstance(cs.strip(a), Var) and cs.strip(a).n == J):
            a, b, op = b, a, cs.FLIP[op]
        if not (isinstance(cs.strip(a), Var) and cs.strip(a).n == J):
            self.fail("scan loop condition does not compare the index")
        b = cs.strip(b, casts=False)
        if self.ev(b, env) == ("len",):
            minus = 0
        elif isinstance(b, Bin) and b.op == "sub" and self.ev(b.a, env) == ("len",) and (self.ev(b.b, env) or ("?",))[0] == "int" \
                and self.ev(b.b, env)[1] >= 0:
            minus = self.ev(b.b, env)[1]
        else:
            self.fail("scan loop bound is not `pathLength - K`")
        lenvars = [v for v in cs.free_vars(b) if env.get(v) == ("len",)]
        for v in lenvars:
            if self.types.get(v) != "size_t":
                self.fail(f"the length `{v}` is no longer a size_t (the bound `length - K` is modelled with size_t wrap-around)")
        if self.types.get(J) not in ("int", "size_t", "unsigned int", "unsigned", "U32"):
            self.fail(f"scan index `{J}` has an unexpected type")
        # body
        env2 = dict(env)
        env2[J] = ("scanidx",)
        fire = None
        body = [x for x in body if not self.harmless(x)]
        i = 0
        while i < len(body) and body[i][0] == "decl":
            d = body[i][1]
            v = self.ev(d.init, env2) if d.init is not None else None
            if v != ("scanchar",) or not d.is_const or d.ty != "char" or d.ptr:
                self.fail("scan loop body has unexpected shape")
            env2[d.name] = v
            i += 1
        body = body[i:]

        def fire_block(ss):
            ss = [x for x in ss if not self.harmless(x)]
            if len(ss) == 2 and ss[1][0] == "break" and ss[0][0] == "expr" and isinstance(ss[0][1], AssignE) and ss[0][1].op == "=" \
                    and isinstance(ss[0][1].lhs, Var) and cs.int_value(ss[0][1].rhs) == 0:
                return ss[0][1].lhs.n
            return None
        if not body or body[0][0] != "if":
            self.fail("scan loop body has unexpected shape")
        _, c, T, E = body[0]
        E = E or []
        after = body[1:]
        if fire_block(T) and not E and not after:
            flag, neg = fire_block(T), False
        elif fire_block(E) and not [x for x in T if not self.harmless(x)] and not after:
            flag, neg = fire_block(E), True
        elif self.only_continue(T) and not E and fire_block(after):
            flag, neg = fire_block(after), True
        else:
            self.fail("scan loop must clear the flag and break")
        cc = self.cond(c, env2, neg=neg, leaf="scan")
        if not self.is_char(cc):
            self.fail("scan loop condition is not a character test")
        _, _, term = self.char_lean(cc)
        # the flag's state when the scan starts
        st = env.get(flag)
        if flag in self.pending:
            self.fail("two scan loops without a test between them")
        if self.flag_seen:
            self.fail("more than one scan loop")
        self.flag_seen = True
        if st == ("int", 1):
            self.flag_carried = None
        elif st is not None and st[0] == "carried":
            if st[1] not in (0, 1):
                self.fail(f"the scan flag `{flag}` is neither initialised at its declaration nor set before the scan")
            self.flag_carried = bool(st[1])
        else:
            self.fail(f"the scan flag `{flag}` is not `true` when the scan starts")
        self.pending[flag] = f".rejectIfAnyInRange {start[1]} .{CMP[op]} {minus} {term}"
        env[flag] = ("scan", flag)
        env[J] = ("carried", None)      # the index is no longer a known constant


def extract_clean(repo, consts):
    W = "main.c"
    funcs, _ = functions_of(repo, "main.c")
    if "cleanImplementationFiles" not in funcs:
        raise ExtractFail(W, "cleanImplementationFiles not found")
    f = funcs["cleanImplementationFiles"]
    where = f"{W}:{f.line}"
    body = cs.lower(cs.parse_stmts(f.body_toks, where, CLEAN_TYPEDEFS), where)
    decls = cs.declared(body)
    helpers = {n: fd for n, fd in funcs.items() if n != "cleanImplementationFiles"}
    C = _Clean(where, consts, helpers)
    C.types = {n: d.ty + "*" * d.ptr for n, d in decls.items()}
    C.cenv = cs.constant_env(body, cs.param_names(f))

    def fail(why):
        raise ExtractFail(where, why)
    # ---- the glob call and the roles it defines
    calls = [(s, x) for s in cs.walk(body) for e in cs.stmt_exprs(s) for x in cs.subexprs(e) if isinstance(x, Call) and x.f == "glob"]
    if len(calls) != 1:
        fail("glob(...) is not called exactly once")
    gstmt, g = calls[0]
    if gstmt not in body:
        fail("the glob call is not a top-level statement of cleanImplementationFiles")
    if len(g.args) != 4:
        fail("glob(...) call has unexpected arguments")
    pat = cs.subst(g.args[0], C.cenv)
    if not cs.is_str(pat):
        fail("glob(...) call has unexpected arguments")
    glob_pat = cs.str_value(pat, where)

    def flag_names(e):
        e = cs.strip(cs.subst(e, C.cenv))
        if isinstance(e, Bin) and e.op == "bor":
            return flag_names(e.a) + flag_names(e.b)
        if isinstance(e, Var):
            return [e.n]
        if cs.int_value(e) == 0:
            return []
        fail("glob flags / error callback have unexpected shape")
    glob_flags = sorted(flag_names(g.args[1]))
    if cs.int_value(g.args[2]) != 0:
        fail("glob flags / error callback have unexpected shape")
    if not (isinstance(g.args[3], AddrOf) and isinstance(g.args[3].e, Var)):
        fail("glob(...) call has unexpected arguments")
    G = g.args[3].e.n
    # the variable holding glob's result (or the call used directly in the test)
    R = None
    if gstmt[0] == "decl" and gstmt[1].init is g:
        R = gstmt[1].name
    elif gstmt[0] == "expr" and isinstance(gstmt[1], AssignE) and gstmt[1].op == "=" and gstmt[1].rhs is g and isinstance(gstmt[1].lhs, Var):
        R = gstmt[1].lhs.n
    elif gstmt[0] != "if":
        fail("the result of glob(...) is not kept or tested")
    changed = cs.assigned_vars(body)

    def result_test(e):
        """+1: e is true iff glob failed, -1: iff it succeeded, 0: not a test of the result"""
        t = cs.truth(cs.subst(e, C.cenv))
        if isinstance(t, cs.BAtom) and cs.int_value(t.b) == 0 and t.op in ("eq", "ne"):
            a = cs.strip(t.a)
            if (R is not None and isinstance(a, Var) and a.n == R) or a is g or (isinstance(a, Call) and a.f == "glob"):
                return 1 if t.op == "ne" else -1
        return 0

    def quiet(ss):
        """the failure path: only messages, tests of the result code and `return`"""
        for s in ss:
            if _Clean.harmless(s) or s[0] == "return":
                continue
            if s[0] == "if" and cs.is_pure(s[1]) and quiet(s[2]) and quiet(s[3] or []):
                continue
            return False
        return True

    def returns(ss):
        return bool(ss) and ss[-1][0] == "return"
    # ---- the path taken when glob succeeded
    path = []
    tested = False
    todo = list(body)
    while todo:
        s = todo.pop(0)
        if s[0] == "if" and result_test(s[1]) != 0:
            tested = True
            bad, good = (s[2], s[3] or []) if result_test(s[1]) > 0 else (s[3] or [], s[2])
            if not quiet(bad):
                fail("unexpected top-level if in cleanImplementationFiles")
            if not returns(bad) and [x for x in todo if not _Clean.harmless(x)]:
                fail("after a failed glob the function goes on")
            if returns(good) and todo:
                fail("unexpected top-level if in cleanImplementationFiles")
            todo = list(good) + todo
            continue
        if s is gstmt and s[0] == "if":
            fail("unexpected top-level if in cleanImplementationFiles")
        path.append(s)
    if not tested:
        fail("the result of glob(...) is never tested")
    loop = None
    for s in path:
        if s is gstmt or _Clean.harmless(s):
            continue
        if s[0] == "decl":
            if s[1].init is not None and not cs.is_pure(s[1].init):
                fail(f"unexpected statement `{s[1].name} = …` in cleanImplementationFiles")
        elif s[0] == "loop":
            if loop is not None:
                fail("more than one loop in cleanImplementationFiles")
            loop = s
        elif s[0] == "expr" and isinstance(s[1], Call) and s[1].f == "globfree" and cs.key(s[1].args[0]) == "&" + G:
            if loop is None:
                fail("globfree before the match loop")
        elif s[0] == "return" and s is path[-1]:
            pass
        else:
            fail(f"unexpected {s[0]} statement in cleanImplementationFiles")
    if loop is None:
        fail("glob call or match loop not found")
    # ---- the match loop visits every entry once, in order
    _, init, cnd, step, lbody = loop
    if len(step) != 1 or cs.as_increment(step[0][1]) is None or cs.as_increment(step[0][1])[1] != 1 or cnd is None:
        fail("match loop header changed: the step is not an increment by one")
    I = cs.as_increment(step[0][1])[0]
    t = cs.truth(cs.subst(cnd, C.cenv))
    ok = isinstance(t, cs.BAtom) and ((t.op == "lt" and cs.key(t.a) == I and cs.key(t.b) == f"{G}.gl_pathc")
                                      or (t.op == "gt" and cs.key(t.b) == I and cs.key(t.a) == f"{G}.gl_pathc"))
    if not ok:
        fail("match loop header changed: " + cs.key(cnd))
    start = None
    for x in init:
        if x[0] == "expr" and isinstance(x[1], AssignE) and x[1].op == "=" and cs.key(x[1].lhs) == I:
            start = cs.int_value(x[1].rhs)
        elif x[0] == "decl" and x[1].name == I and x[1].init is not None:
            start = cs.int_value(x[1].init)
        else:
            fail("match loop header changed: unexpected initialisation")
    inner_assigned = cs.assigned_vars(lbody)
    outer_assigned = cs.assigned_vars([s for s in body if s is not loop])
    if start is None:
        if I not in decls or decls[I].init is None or I in outer_assigned:
            fail("match loop header changed: the entry index does not start at 0")
        start = cs.int_value(decls[I].init)
    if start != 0 or I in inner_assigned or G in inner_assigned:
        fail("match loop header changed: the entry index does not run over 0 … gl_pathc-1")
    if cs.has_jump(lbody, "break") or any(s[0] == "return" for s in cs.walk(lbody)):
        fail("the match loop is left early (break / return)")
    # ---- one entry, symbolically
    env = {G: ("globbuf",), I: ("entryidx",)}
    for n, d in decls.items():
        if n in (G, I) or n in C.cenv:
            continue
        v = cs.int_value(d.init) if d.init is not None else None
        if n in inner_assigned:
            env[n] = ("carried", v)             # whatever the previous entry left there (first entry: the declaration)
        elif n not in outer_assigned and v is not None:
            env[n] = ("int", v)
    C.run(lbody, env)
    if C.action != "remove":
        fail("the match loop does not end in remove(path)")
    if C.pending:
        fail("scan loop result is never tested")
    return glob_pat, glob_flags, C.steps, C.flag_carried


def flatten(stmts):
    out = []
    for s in stmts:
        if s[0] == "block":
            out += flatten(s[1])
        elif s[0] == "if":
            out.append(s)
            out += flatten(body_list(s[2]))
            if s[3] is not None:
                out += flatten(body_list(s[3]))
        elif s[0] == "for":
            out.append(s)
            out += flatten(body_list(s[4]))
        elif s[0] == "while":
            out.append(s)
            out += flatten(body_list(s[2]))
        elif s[0] == "do":
            out.append(s)
            out += flatten(body_list(s[1]))
        else:
            out.append(s)
    return out


def find_call(toks, name, where, nth=0):
    """Argument token lists of the nth call of `name` in toks."""
    hits = [i for i, t in enumerate(toks) if t.text == name and i + 1 < len(toks) and toks[i + 1].text == "("]
    if len(hits) <= nth:
        raise ExtractFail(where, f"call of {name} not found")
    i = hits[nth]
    e = matching(toks, i + 1, "(", ")", where)
    return cfront.split_params(toks[i + 2:e]), i


def count_calls(toks, name):
    return len([i for i, t in enumerate(toks) if t.text == name and i + 1 < len(toks) and toks[i + 1].text == "("])


def extract_main(repo):
    W = "main.c"
    funcs, cpp = functions_of(repo, "main.c")
    for fn in ("main", "changeToOutputDirectory", "readWasmBinary"):
        if fn not in funcs:
            raise ExtractFail(W, f"{fn} not found")
    res = {}
    # option strings of both configurations
    src = open(os.path.join(repo, "w2c2", "main.c")).read()
    opts = re.findall(r'static\s+char\*\s+const\s+optString\s*=\s*"([^"]*)"\s*;', src)
    if len(opts) != 2:
        raise ExtractFail(W, "expected two optString definitions (with / without pthread)")
    res["optStrings"] = opts
    main = funcs["main"]
    where = f"{W}:{main.line}"
    toks = main.body_toks
    n2 = norm(toks).replace(" ", "")        # string literal tokens keep their spaces in norm(): a space-free variant for matching
    ID = r"[A-Za-z_]\w*"
    # ---- the roles of main()'s locals (their names are free): bound through the calls / fields they flow into
    role = {}

    def bind(name, pat, what):
        ms = list(re.finditer(pat, n2, re.S))
        if len(ms) != 1:
            raise ExtractFail(where, f"main(): {what} not found exactly once in its expected shape")
        for k, v in ms[0].groupdict().items():
            if role.setdefault(k, v) != v:
                raise ExtractFail(where, f"main(): `{v}` and `{role[k]}` both play the role `{k}`")
        return ms[0]
    seq = []
    m = bind("readModule", rf"if\(!readWasmBinary\((?P<modulePath>{ID}),&(?P<reader>{ID}),(?P<debug>(?!false\))(?!true\)){ID})\)\)\{{return1;\}}", "step `readModule`")
    seq.append((m.start(), "readModule"))
    m = bind("readReference", rf"if\((?P<refPath>{ID})!=NULL\)\{{(?:(?!\}}else).)*?if\(!readWasmBinary\((?P=refPath),&(?P<refReader>{ID}),false\)\)\{{return1;\}}",
             "step `readReference`")
    seq.append((m.start(), "readReference"))
    m = bind("defaultFpf", rf"if\((?P<fpf>{ID})==0\)\{{(?P=fpf)=(?P<reader>{ID})\.module->functions\.count;\}}", "step `defaultFpf`")
    seq.append((m.start(), "defaultFpf"))
    m = bind("chdirOut", rf"if\(!changeToOutputDirectory\((?P<outputPath>{ID})\)\)\{{return1;\}}", "step `chdirOut`")
    seq.append((m.start(), "chdirOut"))
    m = bind("clean", rf"if\((?P<clean>{ID})\)\{{cleanImplementationFiles\(\);\}}", "step `clean`")
    seq.append((m.start(), "clean"))
    m = bind("writeModule", rf"if\(!wasmCWriteModule\((?P<reader>{ID})\.module,{ID},(?P<writeOptions>{ID}),(?P<staticIDs>{ID}),(?P<dynamicIDs>{ID})\)\)"
                            r"\{fprintf\(stderr,\"w2c2:failedtocompile\\n\"\);return1;\}", "step `writeModule`")
    seq.append((m.start(), "writeModule"))
    wo = re.escape(role["writeOptions"])
    bind("options", rf"{wo}\.outputPath=(?P<outputPath>{ID});", "`writeOptions.outputPath = outputPath`")
    bind("options", rf"{wo}\.functionsPerFile=(?P<fpf>{ID});", "`writeOptions.functionsPerFile = functionsPerFile`")
    bind("options", rf"{wo}\.dataSegmentMode=(?P<dsMode>{ID});", "`writeOptions.dataSegmentMode = dataSegmentMode`")
    bind("options", rf"{wo}\.threadCount=(?P<threadCount>{ID});", "`writeOptions.threadCount = threadCount`")
    field_of = {m.group(2): m.group(1) for m in re.finditer(rf"{wo}\.(\w+)=({ID});", n2)}      # local -> option field it fills
    bind("getopt", rf"while\(\((?P<opt>{ID})=getopt\(argc,argv,optString\)\)!=-1\)\{{switch\((?P=opt)\)", "the getopt loop")
    if not re.search(rf"\}}else\{{{re.escape(role['staticIDs'])}=({ID});{re.escape(role['dynamicIDs'])}=emptyWasmFunctionIDs;\}}", n2):
        raise ExtractFail(where, "main(): without -r all functions must be static")
    res["mainSteps"] = [name for _, name in sorted(seq)]
    for fn in ("readWasmBinary", "changeToOutputDirectory", "cleanImplementationFiles", "wasmCWriteModule"):
        want = 2 if fn == "readWasmBinary" else 1
        if count_calls(toks, fn) != want:
            raise ExtractFail(where, f"main(): {fn} is called {count_calls(toks, fn)} times, expected {want}")
    # option letter -> assigned flag / mode names: walk `case 'x': { ... }` groups of the getopt switch
    stmts = flatten(parse_stmts(toks, where))
    sw = [s for s in stmts if s[0] == "switch" and norm(s[1]) == role["opt"]]
    if len(sw) != 1:
        raise ExtractFail(where, "getopt switch not found")
    body = sw[0][2]
    letters = {}
    i = 0
    cur = None
    while i < len(body):
        t = body[i]
        if t.text == "case" and body[i + 1].kind == "chr" and body[i + 2].text == ":":
            cur = chr(chr_value(body[i + 1].text, where))
            letters[cur] = []
            i += 3
            continue
        if t.text == "default":
            cur = None
        if cur is not None:
            letters[cur].append(t)
        i += 1
    setter = re.compile(rf"(?<![\w.>]){re.escape(role['clean'])}=(?:true|1);")
    clean_letters = [k for k, v in letters.items() if setter.search(norm(v))]
    if len(clean_letters) != 1:
        raise ExtractFail(where, "exactly one option must set `clean = true`")
    res["cleanLetter"] = clean_letters[0]
    simple = {}
    for k, v in letters.items():
        m = re.match(r"^\{(\w+)=true;break;\}$", norm(v))
        if m:
            # a flag is named by its role: the clean flag, else the option field it is copied into
            simple[k] = "clean" if m.group(1) == role["clean"] else field_of.get(m.group(1), m.group(1))
    res["flagLetters"] = simple
    # -d modes
    dsm = re.escape(role["dsMode"])
    dtxt = norm(letters.get("d", []))
    modes = re.findall(rf'strcmp\(optarg,"([^"]+)"\)==0\)\{{{dsm}=(\w+);', dtxt)
    if not modes:
        raise ExtractFail(where, "-d mode table not found")
    res["modes"] = modes
    m = re.search(rf"WasmDataSegmentMode{dsm}=(\w+);", norm(toks))
    if not m:
        raise ExtractFail(where, "default data segment mode not found")
    res["defaultMode"] = m.group(1)
    # -f / -t parsing
    for letter, var in (("f", role["fpf"]), ("t", role["threadCount"])):
        if norm(letters.get(letter, [])) != "{%s=(U32)strtoul(optarg,NULL,0);break;}" % var:
            raise ExtractFail(where, f"-{letter} is not parsed as (U32) strtoul(optarg, NULL, 0)")
    if norm(letters.get("r", [])) != "{%s=optarg;break;}" % role["refPath"]:
        raise ExtractFail(where, "-r does not just record the reference path")
    # changeToOutputDirectory
    cd = funcs["changeToOutputDirectory"]
    c = norm(cd.body_toks).replace(" ", "")
    cdp = cs.param_names(cd)
    if len(cdp) != 1:
        raise ExtractFail(f"{W}:{cd.line}", "changeToOutputDirectory has unexpected shape")
    pth = re.escape(cdp[0])
    # outputDir := dirname(copy of outputPath) — either by the overlapping strcpy of the pinned tree or by memmove;
    # the names of the buffer and of the temporary are free (bound by back-reference)
    m = re.match(rf'^char(?P<buf>{ID})\[(?P<size>\w+)\];(?:constchar\*(?P<tmp>{ID})=NULL;)?strcpy\((?P=buf),{pth}\);'
                 r'(?:strcpy\((?P=buf),dirname\((?P=buf)\)\);|(?P=tmp)=dirname\((?P=buf)\);memmove\((?P=buf),(?P=tmp),strlen\((?P=tmp)\)\+1\);)'
                 r'if\(chdir\((?P=buf)\)<0\)\{fprintf\(stderr,".*?",(?P=buf)\);returnfalse;\}returntrue;$', c)
    if not m:
        raise ExtractFail(f"{W}:{cd.line}", "changeToOutputDirectory has unexpected shape")
    res["outputDirBuf"] = m.group("size")
    m = re.search(r"#ifndef\s+PATH_MAX\s*\n\s*#define\s+PATH_MAX\s+(\d+)", src)
    if not m:
        raise ExtractFail(W, "PATH_MAX fallback not found")
    res["pathMaxFallback"] = int(m.group(1))
    # readWasmBinary → readFile(path)
    rb = norm(funcs["readWasmBinary"].body_toks)
    rbp = cs.param_names(funcs["readWasmBinary"])
    if not rbp or not re.search(rf"constBuffer{ID}=readFile\({re.escape(rbp[0])}\);", rb) or count_calls(funcs["readWasmBinary"].body_toks, "readFile") != 1:
        raise ExtractFail(W, "readWasmBinary does not read through readFile(path)")
    return res


ID = r"[A-Za-z_]\w*"


def canon_params(f, expected, where):
    """Parameter names are free: the parameters are identified by POSITION and TYPE (which is what the call sites rely on) and
    renamed to the canonical names the shape patterns below use.  expected = [(canonical name, type words, pointer depth)].
    Returns the renamed body tokens."""
    names = cs.param_names(f)
    types = cs.param_types(f)
    if len(names) != len(expected):
        raise ExtractFail(where, f"{f.name} has {len(names)} parameters, expected {len(expected)}")
    mapping = {}
    for n, (canon, ty, ptr) in zip(names, expected):
        if types[n] != (ty, ptr):
            raise ExtractFail(where, f"{f.name}: parameter `{n}` has type {types[n][0]}{'*' * types[n][1]}, expected {ty}{'*' * ptr}")
        mapping[n] = canon
    return cs.rename(f.body_toks, mapping, where), mapping


def local_array(toks, name, where):
    """dimension tokens of the declaration `char NAME[...]` of a local buffer"""
    hits = [i for i, t in enumerate(toks) if t.text == name and i > 0 and toks[i - 1].text == "char" and i + 1 < len(toks) and toks[i + 1].text == "["]
    if len(hits) != 1:
        raise ExtractFail(where, f"`{name}` is not declared exactly once as a local char array")
    e = matching(toks, hits[0] + 1, "[", "]", where)
    return toks[hits[0] + 2:e]


def const_int(toks, consts, where):
    """value of a constant integer expression over literals and the known #define constants (compared by VALUE)"""
    def ev(e):
        e = cs.strip(e)
        v = cs.int_value(e)
        if v is not None:
            return v
        if isinstance(e, Var) and e.n in consts:
            return consts[e.n]
        if isinstance(e, Bin) and e.op in ("add", "sub", "mul"):
            a, b = ev(e.a), ev(e.b)
            return a + b if e.op == "add" else a - b if e.op == "sub" else a * b
        raise ExtractFail(where, "not a constant expression: " + cs.key(e))
    return ev(cs.parse_expr(toks, where))


def count_writes(toks, name):
    """how often the variable is written: initialised, assigned, compound-assigned, incremented, or has its address taken"""
    n = 0
    for i, t in enumerate(toks):
        if t.text != name or t.kind != "id" or (i > 0 and toks[i - 1].text in (".", "->")):
            continue
        nxt = toks[i + 1].text if i + 1 < len(toks) else ""
        prv = toks[i - 1].text if i > 0 else ""
        if nxt in ("=", "+=", "-=", "*=", "/=", "%=", "&=", "|=", "^=", "<<=", ">>=", "++", "--") or prv in ("++", "--", "&") and not (
                prv == "&" and i > 1 and (toks[i - 2].kind in ("id", "num") or toks[i - 2].text in (")", "]"))):
            n += 1
    return n


def single_id(arg, where, what):
    if len(arg) != 1 or arg[0].kind != "id":
        raise ExtractFail(where, f"{what} is not a plain variable")
    return arg[0].text


def receiver_of(toks, call, where):
    """the variable V of the single statement `V = call(...)`"""
    hits = [i for i, t in enumerate(toks) if t.text == call and i + 1 < len(toks) and toks[i + 1].text == "(" and i >= 2
            and toks[i - 1].text == "=" and toks[i - 2].kind == "id"]
    if len(hits) != 1:
        raise ExtractFail(where, f"the result of {call}(…) is not assigned to a variable exactly once")
    return toks[hits[0] - 2].text


def string_constant(toks, arg, where):
    """the string literal an argument denotes: the literal itself, or a local `… const NAME = "…"` that is never assigned again"""
    if len(arg) == 1 and arg[0].kind == "str":
        return arg[0].text
    name = single_id(arg, where, "file name")
    decl = [i for i, t in enumerate(toks) if t.text == name and i + 3 < len(toks) and toks[i + 1].text == "=" and toks[i + 2].kind == "str"
            and toks[i + 3].text == ";" and i > 0 and (toks[i - 1].text in ("*", "const") or toks[i - 1].kind == "id")]
    writes = [i for i, t in enumerate(toks) if t.text == name and i + 1 < len(toks) and toks[i + 1].text in ("=", "+=", "-=", "++", "--")
              and not (i > 0 and toks[i - 1].text in (".", "->"))]
    taken = [i for i, t in enumerate(toks) if t.text == name and i > 0 and toks[i - 1].text == "&"]
    if len(decl) != 1 or writes != decl or taken:
        raise ExtractFail(where, f"`{name}` is not a constant string")
    k = decl[0] - 1
    spec = []
    while k >= 0 and toks[k].text not in (";", "{", "}"):
        spec.append(toks[k].text)
        k -= 1
    if "char" not in spec or "*" not in spec:
        raise ExtractFail(where, f"`{name}` is not a constant string")
    return toks[decl[0] + 2].text


def extract_c(repo, consts):
    W = "c.c"
    funcs, _ = functions_of(repo, "c.c")
    need = ["wasmCWriteImplementationFile", "wasmCWriteDataSegmentsFromSection", "wasmCWriteModuleImplementation",
            "wasmCWriteModule", "wasmCWriteModuleImplementationFiles", "wasmCWriteModuleHeader"]
    for fn in need:
        if fn not in funcs:
            raise ExtractFail(W, f"{fn} not found")
    res = {}
    # --- implementation file name (parameters by position/type, the buffer and the FILE* by role)
    f = funcs["wasmCWriteImplementationFile"]
    where = f"{W}:{f.line}"
    toks, _ = canon_params(f, [("module", "WasmModule", 1), ("moduleName", "char", 1), ("headerName", "char", 1), ("debugLines", "WasmDebugLines", 1),
                               ("filePrefix", "char", 0), ("fileIndex", "U32", 0), ("functionsPerFile", "U32", 0), ("startFunctionIDIndex", "U32", 0),
                               ("functionIDs", "WasmFunctionIDs", 0), ("pretty", "bool", 0), ("debug", "bool", 0), ("multipleModules", "bool", 0)], where)
    args, _ = find_call(toks, "sprintf", where)
    if count_calls(toks, "sprintf") != 1 or len(args) != 4:
        raise ExtractFail(where, "sprintf(filename, fmt, prefix, index) not found")
    buf = single_id(args[0], where, "the buffer sprintf writes")
    res["implBuf"] = const_int(local_array(toks, buf, where), consts, where)
    fmt = c_string(string_constant(toks, args[1], where), where)
    items, kinds = parse_format(fmt, where)
    if kinds != ["char", "uint"] or norm(args[2]) != "filePrefix" or norm(args[3]) != "fileIndex":
        raise ExtractFail(where, "implementation file name is not formatted from (filePrefix, fileIndex)")
    res["implFormat"] = fmt
    res["implItems"] = items
    args, _ = find_call(toks, "fopen", where)
    if count_calls(toks, "fopen") != 1 or norm(args[0]) != buf:
        raise ExtractFail(where, "fopen(filename, …) not found")
    res["implMode"] = c_string(string_constant(toks, args[1], where), where)
    # --- datasegments
    f = funcs["wasmCWriteDataSegmentsFromSection"]
    where = f"{W}:{f.line}"
    toks, _ = canon_params(f, [("file", "FILE", 1), ("module", "WasmModule", 1), ("mode", "WasmDataSegmentMode", 0)], where)
    args, _ = find_call(toks, "fopen", where)
    if count_calls(toks, "fopen") != 1 or len(args) != 2:
        raise ExtractFail(where, "fopen(filename, …) not found in wasmCWriteDataSegmentsFromSection")
    res["dsName"] = c_string(string_constant(toks, args[0], where), where)
    res["dsMode"] = c_string(string_constant(toks, args[1], where), where)
    # a failing fopen there aborts
    sf = re.escape(receiver_of(toks, "fopen", where))
    if not re.search(rf"if\({sf}==NULL\)\{{fprintf\((?:(?!\}}).)*?\);abort\(\);\}}", norm(toks).replace(" ", ""), re.S):
        raise ExtractFail(where, "failure of the data segments fopen no longer aborts")
    # --- header / output: fopen(<the file-name parameter>, mode)
    sig = {"wasmCWriteModuleHeader": [("module", "WasmModule", 1), ("moduleName", "char", 1), ("filename", "char", 1), ("pretty", "bool", 0),
                                      ("debug", "bool", 0), ("multipleModules", "bool", 0), ("dataSegmentMode", "WasmDataSegmentMode", 0)],
           "wasmCWriteModuleImplementation": [("module", "WasmModule", 1), ("moduleName", "char", 1), ("filename", "char", 1), ("headerName", "char", 1),
                                              ("staticFunctionIDs", "WasmFunctionIDs", 0), ("dynamicFunctionIDs", "WasmFunctionIDs", 0),
                                              ("options", "WasmCWriteModuleOptions", 0)]}
    canon = {}
    for fn, key in (("wasmCWriteModuleHeader", "headerMode"), ("wasmCWriteModuleImplementation", "outputMode")):
        f = funcs[fn]
        where = f"{W}:{f.line}"
        toks, _ = canon_params(f, sig[fn], where)
        canon[fn] = toks
        if count_calls(toks, "fopen") != 1:
            raise ExtractFail(where, f"{fn} must open exactly one file")
        args, _ = find_call(toks, "fopen", where)
        if norm(args[0]) != "filename":
            raise ExtractFail(where, f"{fn} does not open its file-name parameter")
        res[key] = c_string(string_constant(toks, args[1], where), where)
        fv = re.escape(receiver_of(toks, "fopen", where))
        if not re.search(rf"{fv}=fopen\(filename,(?:\"\w+\"|{ID})\);if\({fv}==NULL\)\{{fprintf\((?:(?!\}}).)*?\);returnfalse;\}}",
                         norm(toks).replace(" ", ""), re.S):
            raise ExtractFail(where, f"{fn}: a failing fopen must return false")
    # --- wasmCWriteModuleImplementation: modes that create datasegments, single-file condition, prefixes
    f = funcs["wasmCWriteModuleImplementation"]
    where = f"{W}:{f.line}"
    f.body_toks = canon["wasmCWriteModuleImplementation"]       # parameters under their canonical names
    fv = receiver_of(f.body_toks, "fopen", where)                # the FILE* of the output file, whatever it is called
    f.body_toks = cs.rename(f.body_toks, {fv: "file"}, where)
    st = flatten(parse_stmts(f.body_toks, where))
    sw = [s for s in st if s[0] == "switch" and norm(s[1]) == "options.dataSegmentMode"]
    if len(sw) != 1:
        raise ExtractFail(where, "switch over options.dataSegmentMode not found")
    body = sw[0][2]
    groups = []
    labels = []
    i = 0
    while i < len(body):
        t = body[i]
        if t.text == "case" and body[i + 2].text == ":":
            labels.append(body[i + 1].text)
            i += 3
            continue
        if t.text == "default" and body[i + 1].text == ":":
            labels.append("default")
            i += 2
            continue
        if t.text == "{":
            e = matching(body, i, "{", "}", where)
            groups.append((labels, body[i + 1:e]))
            labels = []
            i = e + 1
            continue
        raise ExtractFail(where, "unexpected token in data segment mode switch: " + t.text)
    ext_modes = []
    noop_modes = []
    for labs, b in groups:
        nb = norm(b)
        if "default" in labs:
            if "abort();" not in nb:
                raise ExtractFail(where, "default of the mode switch must abort")
            continue
        if nb == "wasmCWriteDataSegmentsFromSection(file,module,options.dataSegmentMode);break;":
            ext_modes += labs
        elif nb == "break;":
            noop_modes += labs
        else:
            raise ExtractFail(where, "unexpected case body in the mode switch: " + text_of(b)[:80])
    res["extModes"] = ext_modes
    res["noopModes"] = noop_modes
    if count_calls(f.body_toks, "wasmCWriteDataSegmentsFromSection") != 1:
        raise ExtractFail(where, "wasmCWriteDataSegmentsFromSection must be called from the mode switch only")
    ifs = [s for s in st if s[0] == "if" and s[3] is not None
           and "wasmCWriteModuleImplementationFiles" in norm(flat_toks(body_list(s[3])))]
    if len(ifs) != 1:
        raise ExtractFail(where, "single-file / split decision not found")
    res["singleFileCond"] = norm(ifs[0][1])
    if res["singleFileCond"] != "options.functionsPerFile>=module->functions.count&&dynamicFunctionIDs.length==0":
        raise ExtractFail(where, "single-file condition changed: " + text_of(ifs[0][1]))
    if count_calls(flat_toks(body_list(ifs[0][2])), "fopen") or "wasmCWriteModuleImplementationFiles" in norm(flat_toks(body_list(ifs[0][2]))):
        raise ExtractFail(where, "single-file branch must not create files")
    els = flat_toks(body_list(ifs[0][3]))
    if count_calls(els, "wasmCWriteModuleImplementationFiles") != 2:
        raise ExtractFail(where, "expected two wasmCWriteModuleImplementationFiles calls")
    prefixes = []
    for k in range(2):
        args, _ = find_call(els, "wasmCWriteModuleImplementationFiles", where, k)
        if len(args) != 6 or args[4][0].kind != "chr" or norm(args[5]) != "options":
            raise ExtractFail(where, "wasmCWriteModuleImplementationFiles call has unexpected arguments")
        prefixes.append((norm(args[3]), chr_value(args[4][0].text, where)))
    if [p[0] for p in prefixes] != ["staticFunctionIDs", "dynamicFunctionIDs"]:
        raise ExtractFail(where, "implementation files are not written for (static, dynamic) in this order")
    res["prefixes"] = prefixes
    # order: fopen(output) < mode switch < split
    nn = norm(f.body_toks)
    a, b, c = nn.find("fopen(filename"), nn.find("switch(options.dataSegmentMode)"), nn.find("if(options.functionsPerFile>=")
    if not (0 <= a < b < c):
        raise ExtractFail(where, "order output-open / data segments / implementation files changed")
    # --- wasmCWriteModuleImplementationFiles: count arithmetic (hand-modelled: shape check only; locals bound by data flow)
    f = funcs["wasmCWriteModuleImplementationFiles"]
    where = f"{W}:{f.line}"
    toks, _ = canon_params(f, [("module", "WasmModule", 1), ("moduleName", "char", 1), ("headerName", "char", 1), ("functionIDs", "WasmFunctionIDs", 0),
                               ("filePrefix", "char", 0), ("options", "WasmCWriteModuleOptions", 0)], where)
    nn = norm(toks)
    r = {}

    def once(pat, what):
        ms = list(re.finditer(pat, nn))
        if len(ms) != 1:
            raise ExtractFail(where, f"file-count arithmetic changed: `{what}` not found exactly once")
        r.update(ms[0].groupdict())
    once(rf"(?P<task>{ID})\.fileIndex=(?P<fi>{ID});", "task.fileIndex = fileIndex")
    task, fi = re.escape(r["task"]), re.escape(r["fi"])
    once(rf"{task}\.filePrefix=filePrefix;", "task.filePrefix = filePrefix")
    once(rf"for\(;{fi}<(?P<n>{ID});(?:{fi}\+\+|\+\+{fi}|{fi}\+=1)\)\{{", "for (; fileIndex < fileCount; fileIndex++)")
    n_ = re.escape(r["n"])
    once(rf"(?<![\w.>]){n_}=1\+\((?P<fc>{ID})-1\)/(?P<fpf>{ID});", "fileCount = 1 + (functionCount - 1) / functionsPerFile")
    fc, fpf = re.escape(r["fc"]), re.escape(r["fpf"])
    shapes = [(rf"U32{fi}=0;", "U32 fileIndex = 0"),
              (rf"constsize_t{fc}=functionIDs\.length;", "const size_t functionCount = functionIDs.length"),
              (rf"U32{fpf}=options\.functionsPerFile;", "U32 functionsPerFile = options.functionsPerFile"),
              (rf"if\({fc}==0\)\{{returntrue;\}}", "if (functionCount == 0) return true"),
              (rf"if\({fpf}==0\)\{{{fpf}=UINT32_MAX;\}}", "if (functionsPerFile == 0) functionsPerFile = UINT32_MAX")]
    for pat, what in shapes:
        once(pat, what)
    for v, what in ((r["fi"], "fileIndex"), (r["fc"], "functionCount"), (r["fpf"], "functionsPerFile"), (r["n"], "fileCount")):
        writes = count_writes(toks, v)
        allowed = {"fileIndex": 2, "functionCount": 1, "functionsPerFile": 2, "fileCount": 2}[what]
        # fileIndex: declaration + loop step; functionCount: declaration; functionsPerFile: declaration + the 0 -> UINT32_MAX default;
        # fileCount: declaration (= 0) + the formula
        if writes > allowed:
            raise ExtractFail(where, f"file-count arithmetic changed: `{what}` is assigned {writes} times")
    res["countShapes"] = [w for _, w in shapes]
    th = funcs.get("wasmCImplementationWriterThread")
    if th is None:
        raise ExtractFail(W, "wasmCImplementationWriterThread not found")
    twhere = f"{W}:{th.line}"
    if count_calls(th.body_toks, "wasmCWriteImplementationFile") != 1:
        raise ExtractFail(twhere, "writer thread does not call wasmCWriteImplementationFile exactly once")
    targs, _ = find_call(th.body_toks, "wasmCWriteImplementationFile", twhere)
    tn = norm(th.body_toks)

    def task_field(arg, field):
        """the task object T when the argument denotes T->field (directly or through a const temporary)"""
        a = norm(arg)
        m = re.fullmatch(rf"({ID})->{field}", a)
        if m:
            return m.group(1)
        if re.fullmatch(ID, a):
            ms = re.findall(rf"const\w+{re.escape(a)}=({ID})->{field};", tn)
            if len(ms) == 1 and count_writes(th.body_toks, a) == 1:
                return ms[0]
        raise ExtractFail(twhere, f"writer thread no longer forwards `task->{field}`")
    if len(targs) != 12 or task_field(targs[4], "filePrefix") != task_field(targs[5], "fileIndex"):
        raise ExtractFail(twhere, "writer thread does not pass (filePrefix, fileIndex) on")
    # --- wasmCWriteModule: names
    f = funcs["wasmCWriteModule"]
    where = f"{W}:{f.line}"
    toks, _ = canon_params(f, [("module", "WasmModule", 1), ("moduleName", "char", 1), ("options", "WasmCWriteModuleOptions", 0),
                               ("staticFunctionIDs", "WasmFunctionIDs", 0), ("dynamicFunctionIDs", "WasmFunctionIDs", 0)], where)
    nn = norm(toks)
    # outputName := basename(copy of outputPath) — overlapping strcpy (pinned tree) or memmove; the locals are bound by back-reference
    m = re.match(rf"^char(?P<on>{ID})\[(?P<s1>\w+)\];char(?P<hn>{ID})\[(?P<s2>\w+)\];constchar\*(?P<op>{ID})=options\.outputPath;"
                 rf"(?:constchar\*(?P<ob>{ID})=NULL;)?"
                 r"strcpy\((?P=on),(?P=op)\);"
                 r"(?:strcpy\((?P=on),basename\((?P=on)\)\);"
                 r"|(?P=ob)=basename\((?P=on)\);memmove\((?P=on),(?P=ob),strlen\((?P=ob)\)\+1\);)"
                 r"strcpy\((?P=hn),(?P=on)\);"
                 rf"\{{char\*(?P<he>{ID})=strrchr\((?P=hn),(?P<dot>'(?:[^'\\]|\\.)')\);"
                 r"if\((?P=he)==NULL\)\{(?P=he)=(?P=hn)\+strlen\((?P=hn)\);\}"
                 r"strcpy\((?P=he),(?P<suffix>\"[^\"]*\")\);\}", nn)
    if not m:
        raise ExtractFail(where, "output/header name computation has unexpected shape")
    res["nameBufs"] = (m.group("s1"), m.group("s2"))
    res["headerExtChar"] = chr_value(m.group("dot"), where)
    res["headerSuffix"] = c_string(m.group("suffix"), where)
    on, hn = re.escape(m.group("on")), re.escape(m.group("hn"))
    rest = nn[m.end():]
    m = re.match(rf"^\{{if\(!\(wasmCWriteModuleHeader\(module,moduleName,{hn},[^;{{}}]*?\)\)\)\{{returnfalse;\}};\}}"
                 rf"\{{if\(!\(wasmCWriteModuleImplementation\(module,moduleName,{on},{hn},[^;{{}}]*?\)\)\)\{{returnfalse;\}};\}}"
                 r"returntrue;$", rest)
    if not m:
        raise ExtractFail(where, "wasmCWriteModule no longer writes header(headerName) then implementation(outputName)")
    return res


def flat_toks(stmts):
    out = []
    for s in flatten(stmts):
        if s[0] == "simple":
            out += s[1] + [Tok("op", ";")]
        elif s[0] == "if":
            out += s[1]
        elif s[0] == "switch":
            out += s[1] + s[2]
    return out


def site_arg(f, arg, where):
    """first argument of a file-system call, described independently of how locals / parameters are NAMED: a parameter by its
    position, a local by what it is (a constant string by its value), anything else by its source text"""
    if len(arg) == 1 and arg[0].kind == "id":
        n = arg[0].text
        try:
            ps = cs.param_names(f)
        except ExtractFail:
            ps = []
        if n in ps:
            return f"<parameter {ps.index(n)}>"
        toks = f.body_toks
        decl = [i for i, t in enumerate(toks) if t.text == n and 0 < i < len(toks) - 1 and (toks[i - 1].kind == "id" or toks[i - 1].text == "*")
                and toks[i - 1].text not in ("return", "else", "goto", "sizeof") and toks[i + 1].text in ("=", ";", "[")]
        if decl:
            try:
                return string_constant(toks, arg, where)
            except ExtractFail:
                return "<local buffer>" if toks[decl[0] + 1].text == "[" else "<local>"
    return norm(arg) if arg else ""


def extract_sites(repo):
    """Every file-system call in the translator's sources with its enclosing function."""
    sites = []
    d = os.path.join(repo, "w2c2")
    for fn in sorted(os.listdir(d)):
        if not fn.endswith(".c") or fn.endswith("_test.c") or fn == "test.c":
            continue
        if fn in ("getopt_impl.c",):
            pass
        funcs, _ = functions_of(repo, fn)
        for name, f in sorted(funcs.items(), key=lambda kv: kv[1].line):
            toks = f.body_toks
            for i, t in enumerate(toks):
                if t.kind == "id" and t.text in FS_CALLS and i + 1 < len(toks) and toks[i + 1].text == "(" \
                        and (i == 0 or toks[i - 1].text not in (".", "->")):
                    e = matching(toks, i + 1, "(", ")", f"{fn}:{t.line}")
                    args = cfront.split_params(toks[i + 2:e])
                    mode = ""
                    if t.text == "fopen":
                        if len(args) != 2 or args[1][0].kind != "str":
                            raise ExtractFail(f"{fn}:{t.line}", "fopen with a non-literal mode")
                        mode = c_string(args[1][0].text, f"{fn}:{t.line}").decode()
                    sites.append((fn, name, t.text, site_arg(f, args[0] if args else [], f"{fn}:{t.line}"), mode))
    # the non-libgen / non-glob configurations must not add sites either (other than the Win32 ones)
    return sites


def extract_readfile(repo):
    funcs, _ = functions_of(repo, "file.c")
    if "readFile" not in funcs:
        raise ExtractFail("file.c", "readFile not found")
    f = funcs["readFile"]
    where = f"file.c:{f.line}"
    if count_calls(f.body_toks, "fopen") != 1:
        raise ExtractFail(where, "readFile must open exactly one file")
    args, _ = find_call(f.body_toks, "fopen", where)
    if norm(args[0]) != "path":
        raise ExtractFail(where, "readFile does not open its path parameter")
    n = norm(f.body_toks)
    for bad in ("fwrite", "fputs", "fprintf(file", "fputc"):
        if bad in n:
            raise ExtractFail(where, f"readFile writes ({bad})")
    return c_string(args[1][0].text, where)


def generate(repo):
    ch = open(os.path.join(repo, "w2c2", "c.h")).read()
    m = re.findall(r"^\s*#\s*define\s+W2C2_IMPL_FILENAME_LENGTH\s+(\d+)\s*$", ch, re.M)
    if len(m) != 1:
        raise ExtractFail("c.h", "W2C2_IMPL_FILENAME_LENGTH is not defined exactly once as an integer literal")
    consts = {"W2C2_IMPL_FILENAME_LENGTH": int(m[0])}
    glob_pat, glob_flags, steps, flag_carried = extract_clean(repo, consts)
    mn = extract_main(repo)
    cc = extract_c(repo, consts)
    read_mode = extract_readfile(repo)
    sites = extract_sites(repo)
    if glob_flags != ["GLOB_NOSORT"]:
        raise ExtractFail("main.c", f"glob flags {glob_flags} are not modelled (only GLOB_NOSORT is)")

    mode_ctor = {}
    for s, en in mn["modes"]:
        mode_ctor[en] = s
    o = []
    A = o.append
    A("-- GENERATED by tools/extract/gen_files.py from /repo/w2c2/{c.h,c.c,main.c,file.c} — do not edit.")
    A("namespace W2c2Verif.Gen.Files")
    A("")
    A("/-- comparison operators as written in the C source -/")
    A("inductive Cmp | eq | ne | lt | le | gt | ge deriving DecidableEq, Repr, Inhabited")
    A("")
    A("/-- a boolean test on one character `c` (`c OP k` combined with `&&`, `||`, `!`) -/")
    A("inductive CharCond")
    A("  | cmp (op : Cmp) (k : Nat)")
    A("  | and (a b : CharCond)")
    A("  | or (a b : CharCond)")
    A("  | not (a : CharCond)")
    A("  deriving DecidableEq, Repr, Inhabited")
    A("")
    A("/-- one rejecting test of the match loop of `cleanImplementationFiles` (`continue` when it fires) -/")
    A("inductive CleanStep")
    A("  | rejectIfLen (op : Cmp) (k : Nat)                       -- if (pathLength OP k) continue;")
    A("  | rejectIfCharAt (idx : Nat) (c : CharCond)               -- if (cond(path[idx])) continue;")
    A("  /-- `for (i = start; i OP pathLength - minus; i++) if (cond(path[i])) {flag = false; break;}` … `if (!flag) continue;` -/")
    A("  | rejectIfAnyInRange (start : Nat) (op : Cmp) (minus : Nat) (c : CharCond)")
    A("  deriving DecidableEq, Repr, Inhabited")
    A("")
    A("inductive GlobTok | star | any | lit (b : Nat) deriving DecidableEq, Repr, Inhabited")
    A("")
    A("/-- items of a printf format -/")
    A("inductive FmtItem")
    A("  | lit (bs : List Nat)")
    A("  | charArg                                  -- %c")
    A("  | uintArg (zeroPad : Bool) (width : Nat)   -- %[0][width]u")
    A("  deriving DecidableEq, Repr, Inhabited")
    A("")
    A("/-- the file-relevant steps of main(), in source order -/")
    A("inductive MainStep | readModule | readReference | defaultFpf | chdirOut | clean | writeModule")
    A("  deriving DecidableEq, Repr, Inhabited")
    A("")
    A("structure Site where")
    A("  file : String")
    A("  func : String")
    A("  call : String")
    A("  arg : String")
    A("  mode : String")
    A("  deriving DecidableEq, Repr, Inhabited")
    A("")
    A(f"def implLen : Nat := {consts['W2C2_IMPL_FILENAME_LENGTH']}   -- W2C2_IMPL_FILENAME_LENGTH (c.h)")
    A(f"def implBufSize : Nat := {cc['implBuf']}   -- char filename[W2C2_IMPL_FILENAME_LENGTH+1]")
    A(f"def implFormatString : String := {lstr(cc['implFormat'])}")
    A("def implFormat : List FmtItem := [" + ", ".join(cc["implItems"]) + "]")
    A("/-- (function-ID list, prefix character) of the two wasmCWriteModuleImplementationFiles calls, in order -/")
    A("def implPrefixes : List (String × Nat) := [" + ", ".join(f"({cfront.lean_str(a)}, {b})" for a, b in cc["prefixes"]) + "]")
    A(f"def dataSegmentsNameString : String := {lstr(cc['dsName'])}")
    A(f"def dataSegmentsName : List Nat := {lbytes(cc['dsName'])}")
    A("/-- `-d` argument strings whose mode writes the `datasegments` file / writes nothing extra -/")
    A("def externalModes : List String := [" + ", ".join(cfront.lean_str(mode_ctor[e]) for e in cc["extModes"] if e in mode_ctor) + "]")
    A("def inlineModes : List String := [" + ", ".join(cfront.lean_str(mode_ctor[e]) for e in cc["noopModes"] if e in mode_ctor) + "]")
    A("def allModes : List String := [" + ", ".join(cfront.lean_str(s) for s, _ in mn["modes"]) + "]")
    if set(cc["extModes"]) | set(cc["noopModes"]) != set(mode_ctor):
        raise ExtractFail("c.c", "the mode switch of wasmCWriteModuleImplementation does not cover exactly the -d modes of main.c")
    A(f"def defaultMode : String := {cfront.lean_str(mode_ctor.get(mn['defaultMode'], '?'))}")
    A(f"def singleFileCond : String := {cfront.lean_str(cc['singleFileCond'])}")
    A(f"def headerExtChar : Nat := {cc['headerExtChar']}   -- strrchr(headerName, '.')")
    A(f"def headerSuffix : List Nat := {lbytes(cc['headerSuffix'])}   -- strcpy(headerExt, \".h\")")
    A(f"def headerSuffixString : String := {lstr(cc['headerSuffix'])}")
    A(f"def globPatternString : String := {lstr(glob_pat)}")
    A("def globPattern : List GlobTok := [" + ", ".join(glob_tokens(glob_pat, "main.c")) + "]")
    A("def globFlags : List String := [" + ", ".join(cfront.lean_str(x) for x in glob_flags) + "]")
    A("def cleanSteps : List CleanStep := [")
    A(",\n".join("  " + s for s in steps))
    A("]")
    A("/-- the flag through which the digit scan reports (`allDigits`), a variable that outlives one directory entry:")
    A("    `none` = the loop body sets it to `true` before the scan of EVERY entry; `some v` = it is only initialised (to `v`) at")
    A("    its declaration and carried over from one entry to the next -/")
    A("def cleanScanFlagCarried : Option Bool := " + ("none" if flag_carried is None else f"some {'true' if flag_carried else 'false'}"))
    A("def cleanAction : String := \"remove\"")
    A("def mainSteps : List MainStep := [" + ", ".join("." + s for s in mn["mainSteps"]) + "]")
    A("def optStrings : List String := [" + ", ".join(cfront.lean_str(s) for s in mn["optStrings"]) + "]")
    A(f"def cleanOptionLetter : Char := '{mn['cleanLetter']}'")
    A("def flagOptions : List (Char × String) := [" + ", ".join(f"('{k}', {cfront.lean_str(v)})" for k, v in sorted(mn["flagLetters"].items())) + "]")
    A(f"def pathMaxFallback : Nat := {mn['pathMaxFallback']}")
    for b in (mn["outputDirBuf"],) + tuple(cc["nameBufs"]):
        if b not in ("PATH_MAX", str(mn["pathMaxFallback"])):
            raise ExtractFail("main.c/c.c", f"path buffer of size {b} (expected PATH_MAX)")
    A("/-- outputDir (main.c), outputName and headerName (c.c) are all `char[PATH_MAX]` -/")
    A("def pathBufferCount : Nat := 3")
    A("/-- fopen mode strings -/")
    A(f"def readMode : String := {lstr(read_mode)}       -- file.c readFile (module and reference module)")
    A(f"def headerMode : String := {lstr(cc['headerMode'])}")
    A(f"def outputMode : String := {lstr(cc['outputMode'])}")
    A(f"def implMode : String := {lstr(cc['implMode'])}")
    A(f"def dataSegmentsMode : String := {lstr(cc['dsMode'])}")
    A("/-- every file-system call site of the translator (w2c2/*.c without tests) -/")
    A("def sites : List Site := [")
    A(",\n".join("  ⟨%s, %s, %s, %s, %s⟩" % tuple(cfront.lean_str(x) for x in s) for s in sites))
    A("]")
    A("")
    A("end W2c2Verif.Gen.Files")
    return "\n".join(o) + "\n"


if __name__ == "__main__":
    import sys
    print(generate(sys.argv[1] if len(sys.argv) > 1 else "/repo"))
