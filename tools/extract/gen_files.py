"""gen_files — regenerate lean/W2c2Verif/Gen/Files.lean from /repo/w2c2/{c.h,c.c,main.c,file.c,compat.c}.

Everything C20's model interprets is extracted here as DATA (nothing is hard-coded; an
unexpected shape raises ExtractFail, which the check treats as a broken tie):

  * W2C2_IMPL_FILENAME_LENGTH (c.h) and the size of the `filename` buffer of
    wasmCWriteImplementationFile;
  * the sprintf format of the implementation file name, parsed into format items, with the C
    types of its two arguments; the prefix characters passed by the two call sites;
  * the `datasegments` file name and the data-segment modes that create it;
  * the single-file condition and the file-count arithmetic (shape-checked, see `shapes`);
  * the header-name computation of wasmCWriteModule (strrchr character, appended suffix);
  * cleanImplementationFiles: glob pattern (tokenised) + flags and EVERY character test, as a
    list of `CleanStep`s (comparison operator and constant of the length test, index and
    boolean condition of the first-character test, start / comparison / end offset and the
    character condition of the digit loop) and the removing call;
  * the order of the file-relevant steps of main() (read module, read reference, chdir, clean,
    write) with their guards, the option string and the clean option letter, the -d mode names;
  * every file-system call site of the translator sources (fopen with its mode string, remove,
    chdir, glob, …) — a new site that the model does not know makes `sites_modelled` fail.
"""
import os
import re

import cfront
from cfront import ExtractFail, Cpp, Parser, find_functions, lex, Tok
from cfront import Var, IntLit, Bin, Un, Index, Call, AssignE, Member

GEN_NAME = "Files"

PREDEF = {"HAS_GLOB": "1", "HAS_PTHREAD": "1", "HAS_UNISTD": "1", "HAS_GETOPT": "1",
          "HAS_LIBGEN": "1", "HAS_STRDUP": "1"}

# calls that touch the file system (anything here that appears in the translator must be modelled)
FS_CALLS = ["fopen", "freopen", "fdopen", "open", "openat", "creat", "remove", "unlink", "unlinkat", "rmdir",
            "rename", "renameat", "mkdir", "mkdirat", "chdir", "fchdir", "truncate", "ftruncate", "tmpfile",
            "mkstemp", "mktemp", "tmpnam", "system", "popen", "glob", "opendir", "symlink", "link", "chmod",
            "CreateFile", "DeleteFile", "FindFirstFile", "_chdir", "_unlink", "execv", "execvp", "execl", "fork"]

CMP = {"eq": "eq", "ne": "ne", "lt": "lt", "le": "le", "gt": "gt", "ge": "ge"}


# ----------------------------------------------------------------------------- helpers

def chr_value(text, where):
    body = text[1:-1]
    if len(body) == 1:
        return ord(body)
    esc = {"\\n": 10, "\\t": 9, "\\0": 0, "\\\\": 92, "\\'": 39, "\\\"": 34, "\\r": 13}
    if body in esc:
        return esc[body]
    raise ExtractFail(where, f"unsupported character literal {text}")


def c_string(text, where):
    """Value (bytes) of a C string literal token without prefix; simple escapes only."""
    if not (text.startswith('"') and text.endswith('"')):
        raise ExtractFail(where, f"not a string literal: {text}")
    body = text[1:-1]
    out = bytearray()
    i = 0
    while i < len(body):
        c = body[i]
        if c == "\\":
            n = body[i + 1]
            m = {"n": 10, "t": 9, "0": 0, "\\": 92, "'": 39, '"': 34, "r": 13}
            if n not in m:
                raise ExtractFail(where, f"unsupported escape in {text}")
            out.append(m[n])
            i += 2
        else:
            if ord(c) > 127:
                raise ExtractFail(where, f"non-ASCII string literal {text}")
            out.append(ord(c))
            i += 1
    return bytes(out)


def detok_chars(toks, where):
    """Replace character-literal tokens by integer tokens so that cfront's parser accepts them."""
    out = []
    for t in toks:
        if t.kind == "chr":
            out.append(Tok("num", str(chr_value(t.text, where)), t.line, t.space))
        else:
            out.append(t)
    return out


def parse_e(toks, where):
    p = Parser(detok_chars(toks, where), where, {"size_t": "u64", "glob_t": "u64", "bool": "u8", "FILE": "u64"})
    e = p.parse_expr()
    if p.pos != len(p.toks):
        p.fail("trailing tokens")
    return e


def text_of(toks):
    return cfront.toks_text(toks)


def norm(toks):
    return "".join(t.text for t in toks)


def functions_of(repo, fname, predef=None):
    path = os.path.join(repo, "w2c2", fname)
    cpp = Cpp(predef=dict(PREDEF if predef is None else predef), fname=fname)
    # the one statement-like macro the file-writing code uses (defined in w2c2_base.h)
    base = open(os.path.join(repo, "w2c2", "w2c2_base.h")).read()
    m = re.findall(r"^[ \t]*#[ \t]*define[ \t]+MUST\(_\)[^\n]*$", base, re.M)
    if len(m) != 1:
        raise ExtractFail("w2c2_base.h", "MUST(_) is not defined exactly once on one line")
    cpp.run(m[0] + "\n")
    cpp.run(open(path).read())
    funcs = find_functions(cpp.text_out, fname)
    for f in funcs.values():
        if any(t.text == "MUST" for t in f.body_toks):
            f.body_toks = cpp.expand(f.body_toks)
    return funcs, cpp


def matching(toks, i, open_t, close_t, where):
    d = 0
    k = i
    while k < len(toks):
        if toks[k].text == open_t:
            d += 1
        elif toks[k].text == close_t:
            d -= 1
            if d == 0:
                return k
        k += 1
    raise ExtractFail(where, f"unbalanced {open_t}")


def parse_stmts(toks, where):
    """Split a token list into statement trees:
       ('if', cond, then, else|None) ('for', init, cond, step, body) ('while', cond, body)
       ('do', body, cond) ('switch', cond, bodytoks) ('block', stmts) ('simple', toks)
       ('case', toks) — labels inside switch bodies are not split further here."""
    out = []
    i = 0
    n = len(toks)

    def stmt(i):
        t = toks[i]
        if t.text == "{":
            e = matching(toks, i, "{", "}", where)
            return ("block", parse_stmts(toks[i + 1:e], where)), e + 1
        if t.text == "if":
            if toks[i + 1].text != "(":
                raise ExtractFail(where, "if without (")
            e = matching(toks, i + 1, "(", ")", where)
            cond = toks[i + 2:e]
            th, j = stmt(e + 1)
            el = None
            if j < n and toks[j].text == "else":
                el, j = stmt(j + 1)
            return ("if", cond, th, el), j
        if t.text == "for":
            e = matching(toks, i + 1, "(", ")", where)
            inner = toks[i + 2:e]
            parts = [[]]
            d = 0
            for x in inner:
                if x.text in "([":
                    d += 1
                elif x.text in ")]":
                    d -= 1
                if x.text == ";" and d == 0:
                    parts.append([])
                else:
                    parts[-1].append(x)
            if len(parts) != 3:
                raise ExtractFail(where, "for header is not (init; cond; step)")
            body, j = stmt(e + 1)
            return ("for", parts[0], parts[1], parts[2], body), j
        if t.text == "while":
            e = matching(toks, i + 1, "(", ")", where)
            body, j = stmt(e + 1)
            return ("while", toks[i + 2:e], body), j
        if t.text == "do":
            body, j = stmt(i + 1)
            if toks[j].text != "while":
                raise ExtractFail(where, "do without while")
            e = matching(toks, j + 1, "(", ")", where)
            if toks[e + 1].text != ";":
                raise ExtractFail(where, "do-while without ;")
            return ("do", body, toks[j + 2:e]), e + 2
        if t.text == "switch":
            e = matching(toks, i + 1, "(", ")", where)
            if toks[e + 1].text != "{":
                raise ExtractFail(where, "switch without {")
            e2 = matching(toks, e + 1, "{", "}", where)
            return ("switch", toks[i + 2:e], toks[e + 2:e2]), e2 + 1
        # simple statement up to ';' at depth 0
        d = 0
        k = i
        while k < n:
            x = toks[k].text
            if x in "([{":
                d += 1
            elif x in ")]}":
                d -= 1
            elif x == ";" and d == 0:
                return ("simple", toks[i:k]), k + 1
            k += 1
        raise ExtractFail(where, "statement without ; near " + text_of(toks[i:i + 6]))

    while i < n:
        s, i = stmt(i)
        out.append(s)
    return out


def body_list(s):
    """Statements of a block or a single statement as list."""
    return s[1] if s[0] == "block" else [s]


def is_simple(s, text):
    return s[0] == "simple" and norm(s[1]) == text


# ----------------------------------------------------------------------------- Lean printing

def lbytes(b):
    return "[" + ", ".join(str(x) for x in b) + "]"


def lstr(b):
    return cfront.lean_str(b.decode("ascii"))


def cond_to_lean(e, is_leaf, where):
    """Boolean combination of comparisons `leaf OP constant` → CharCond term."""
    if isinstance(e, Bin) and e.op in ("land", "lor"):
        a = cond_to_lean(e.a, is_leaf, where)
        b = cond_to_lean(e.b, is_leaf, where)
        return f"(.{'and' if e.op == 'land' else 'or'} {a} {b})"
    if isinstance(e, Un) and e.op == "lnot":
        return f"(.not {cond_to_lean(e.e, is_leaf, where)})"
    if isinstance(e, Bin) and e.op in CMP:
        if is_leaf(e.a) and isinstance(e.b, IntLit):
            if not 0 <= e.b.value <= 127:
                raise ExtractFail(where, "character constant outside ASCII")
            return f"(.cmp .{CMP[e.op]} {e.b.value})"
        if is_leaf(e.b) and isinstance(e.a, IntLit):
            flip = {"lt": "gt", "gt": "lt", "le": "ge", "ge": "le", "eq": "eq", "ne": "ne"}[e.op]
            return f"(.cmp .{flip} {e.a.value})"
    raise ExtractFail(where, "unsupported condition shape in character test")


# ----------------------------------------------------------------------------- pieces

def parse_format(fmt, where):
    """printf format → list of Lean FmtItem terms and the list of argument kinds."""
    items = []
    kinds = []
    i = 0
    lit = bytearray()
    while i < len(fmt):
        c = fmt[i:i + 1]
        if c != b"%":
            lit += c
            i += 1
            continue
        m = re.match(rb"%(0?)(\d*)(c|u|d|lu|s|%)", fmt[i:])
        if not m:
            raise ExtractFail(where, f"unsupported conversion in format {fmt!r}")
        if lit:
            items.append(f".lit {lbytes(lit)}")
            lit = bytearray()
        zero, width, conv = m.group(1), m.group(2), m.group(3)
        if conv == b"%":
            lit += b"%"
        elif conv == b"c":
            if zero or width:
                raise ExtractFail(where, "flags on %c")
            items.append(".charArg")
            kinds.append("char")
        elif conv == b"u":
            items.append(f".uintArg {'true' if zero else 'false'} {int(width) if width else 0}")
            kinds.append("uint")
        else:
            raise ExtractFail(where, f"conversion %{conv.decode()} is not modelled for file names")
        i += m.end()
    if lit:
        items.append(f".lit {lbytes(lit)}")
    return items, kinds


def glob_tokens(pat, where):
    toks = []
    for ch in pat:
        c = bytes([ch])
        if c == b"*":
            toks.append(".star")
        elif c == b"?":
            toks.append(".any")
        elif c in b"[]\\{}~/":
            raise ExtractFail(where, f"glob pattern {pat!r} uses syntax outside the modelled subset (* ? literals)")
        else:
            toks.append(f".lit {ch}")
    return toks


def extract_clean(repo, consts):
    W = "main.c"
    funcs, _ = functions_of(repo, "main.c")
    if "cleanImplementationFiles" not in funcs:
        raise ExtractFail(W, "cleanImplementationFiles not found")
    f = funcs["cleanImplementationFiles"]
    where = f"{W}:{f.line}"
    stmts = parse_stmts(f.body_toks, where)
    glob_pat = None
    glob_flags = None
    loop = None
    for s in stmts:
        if s[0] == "simple" and any(t.text == "glob" for t in s[1]):
            txt = s[1]
            k = [i for i, t in enumerate(txt) if t.text == "glob"][0]
            e = matching(txt, k + 1, "(", ")", where)
            args = cfront.split_params(txt[k + 2:e])
            if len(args) != 4 or args[0][0].kind != "str":
                raise ExtractFail(where, "glob(...) call has unexpected arguments")
            glob_pat = c_string(args[0][0].text, where)
            glob_flags = [t.text for t in args[1] if t.kind == "id"]
            if norm(args[1]).replace("|", "") != "".join(glob_flags) or norm(args[2]) != "NULL":
                raise ExtractFail(where, "glob flags / error callback have unexpected shape")
        elif s[0] == "for":
            if loop is not None:
                raise ExtractFail(where, "more than one loop in cleanImplementationFiles")
            loop = s
        elif s[0] == "if":
            # the glob-result test: must only return
            if "return" not in norm(sum([x[1] for x in flatten(body_list(s[2])) if x[0] == "simple"], [])):
                raise ExtractFail(where, "unexpected top-level if in cleanImplementationFiles")
        elif s[0] == "simple":
            t = norm(s[1])
            if not (re.match(r"^(char\*|int|bool|size_t|glob_t|constint)", t) or t.startswith("globfree(")):
                raise ExtractFail(where, f"unexpected statement `{text_of(s[1])}` in cleanImplementationFiles")
        else:
            raise ExtractFail(where, f"unexpected {s[0]} statement in cleanImplementationFiles")
    if glob_pat is None or loop is None:
        raise ExtractFail(where, "glob call or match loop not found")
    if norm(loop[2]) != "pathIndex<globbuf.gl_pathc" or norm(loop[3]) != "pathIndex++" or norm(loop[1]) != "":
        raise ExtractFail(where, "match loop header changed: " + text_of(loop[2]))
    # initial values of the scalars (declarations before the loop)
    idx_val = None
    steps = []
    pending_scan = None      # a digit loop whose flag has not been tested yet
    action = None
    flag = None
    have_path = have_len = False
    for s in body_list(loop[4]):
        if action is not None:
            raise ExtractFail(where, "statements after the removing call")
        if s[0] == "simple":
            t = norm(s[1])
            if t == "path=globbuf.gl_pathv[pathIndex]":
                have_path = True
            elif t == "pathCharIndex=0":
                idx_val = 0
            elif re.match(r"^(\w+)=true$", t):
                flag = t.split("=")[0]
            elif t == "pathLength=strlen(path)":
                have_len = True
            elif t.startswith("fprintf(stderr,"):
                pass
            else:
                raise ExtractFail(where, f"unexpected statement `{text_of(s[1])}` in the match loop")
        elif s[0] == "if":
            if s[3] is not None:
                raise ExtractFail(where, "if/else in the match loop")
            body = body_list(s[2])
            cond = parse_e(s[1], where)
            if len(body) == 1 and is_simple(body[0], "continue"):
                if not (have_path and have_len):
                    raise ExtractFail(where, "test before path/pathLength are set")
                # which kind?
                if isinstance(cond, Un) and cond.op == "lnot" and isinstance(cond.e, Var) and cond.e.n == flag:
                    if pending_scan is None:
                        raise ExtractFail(where, f"`!{flag}` tested without a preceding scan loop")
                    steps.append(pending_scan)
                    pending_scan = None
                elif isinstance(cond, Bin) and cond.op in CMP and isinstance(cond.a, Var) and cond.a.n == "pathLength":
                    k = cond.b
                    if isinstance(k, Var) and k.n in consts:
                        kv = consts[k.n]
                    elif isinstance(k, IntLit):
                        kv = k.value
                    else:
                        raise ExtractFail(where, "length compared with a non-constant")
                    steps.append(f".rejectIfLen .{CMP[cond.op]} {kv}")
                else:
                    idxs = set()

                    def leaf(x):
                        if isinstance(x, Index) and isinstance(x.a, Var) and x.a.n == "path":
                            if isinstance(x.i, IntLit):
                                idxs.add(x.i.value)
                                return True
                            if isinstance(x.i, Var) and x.i.n == "pathCharIndex" and idx_val is not None:
                                idxs.add(idx_val)
                                return True
                        return False
                    c = cond_to_lean(cond, leaf, where)
                    if len(idxs) != 1:
                        raise ExtractFail(where, "character test mixes several indices")
                    steps.append(f".rejectIfCharAt {idxs.pop()} {c}")
            elif isinstance(cond, Bin) and cond.op == "ne" and isinstance(cond.a, Call) and cond.a.f == "remove" \
                    and len(cond.a.args) == 1 and isinstance(cond.a.args[0], Var) and cond.a.args[0].n == "path" \
                    and isinstance(cond.b, IntLit) and cond.b.value == 0:
                for b in body:
                    if not (b[0] == "simple" and norm(b[1]).startswith("fprintf(stderr,")):
                        raise ExtractFail(where, "unexpected statement after a failed remove")
                if pending_scan is not None:
                    raise ExtractFail(where, "scan loop result is never tested")
                action = "remove"
            else:
                raise ExtractFail(where, f"unexpected test `{text_of(s[1])}` in the match loop")
        elif s[0] == "for":
            if pending_scan is not None:
                raise ExtractFail(where, "two scan loops without a test between them")
            init = parse_e(s[1], where)
            cnd = parse_e(s[2], where)
            if not (isinstance(init, AssignE) and init.op == "=" and isinstance(init.lhs, Var)
                    and init.lhs.n == "pathCharIndex" and isinstance(init.rhs, IntLit)):
                raise ExtractFail(where, "scan loop init is not `pathCharIndex = K`")
            if norm(s[3]) != "pathCharIndex++":
                raise ExtractFail(where, "scan loop step is not `pathCharIndex++`")
            if not (isinstance(cnd, Bin) and cnd.op in CMP and isinstance(cnd.a, Var) and cnd.a.n == "pathCharIndex"):
                raise ExtractFail(where, "scan loop condition has unexpected shape")
            r = cnd.b
            if isinstance(r, Var) and r.n == "pathLength":
                minus = 0
            elif isinstance(r, Bin) and r.op == "sub" and isinstance(r.a, Var) and r.a.n == "pathLength" \
                    and isinstance(r.b, IntLit):
                minus = r.b.value
            else:
                raise ExtractFail(where, "scan loop bound is not `pathLength - K`")
            b = body_list(s[4])
            if len(b) != 2 or b[0][0] != "simple" or norm(b[0][1]) != "constcharc=path[pathCharIndex]" or b[1][0] != "if":
                raise ExtractFail(where, "scan loop body has unexpected shape")
            inner = body_list(b[1][2])
            if b[1][3] is not None or len(inner) != 2 or not is_simple(inner[0], f"{flag}=false") \
                    or not is_simple(inner[1], "break"):
                raise ExtractFail(where, "scan loop must clear the flag and break")
            c = cond_to_lean(parse_e(b[1][1], where), lambda x: isinstance(x, Var) and x.n == "c", where)
            pending_scan = f".rejectIfAnyInRange {init.rhs.value} .{CMP[cnd.op]} {minus} {c}"
            idx_val = None      # the index variable is no longer a known constant
        else:
            raise ExtractFail(where, f"unexpected {s[0]} statement in the match loop")
    if action != "remove":
        raise ExtractFail(where, "the match loop does not end in remove(path)")
    return glob_pat, glob_flags, steps


def flatten(stmts):
    out = []
    for s in stmts:
        if s[0] == "block":
            out += flatten(s[1])
        elif s[0] == "if":
            out.append(s)
            out += flatten(body_list(s[2]))
            if s[3] is not None:
                out += flatten(body_list(s[3]))
        elif s[0] == "for":
            out.append(s)
            out += flatten(body_list(s[4]))
        elif s[0] == "while":
            out.append(s)
            out += flatten(body_list(s[2]))
        elif s[0] == "do":
            out.append(s)
            out += flatten(body_list(s[1]))
        else:
            out.append(s)
    return out


def find_call(toks, name, where, nth=0):
    """Argument token lists of the nth call of `name` in toks."""
    hits = [i for i, t in enumerate(toks) if t.text == name and i + 1 < len(toks) and toks[i + 1].text == "("]
    if len(hits) <= nth:
        raise ExtractFail(where, f"call of {name} not found")
    i = hits[nth]
    e = matching(toks, i + 1, "(", ")", where)
    return cfront.split_params(toks[i + 2:e]), i


def count_calls(toks, name):
    return len([i for i, t in enumerate(toks) if t.text == name and i + 1 < len(toks) and toks[i + 1].text == "("])


def extract_main(repo):
    W = "main.c"
    funcs, cpp = functions_of(repo, "main.c")
    for fn in ("main", "changeToOutputDirectory", "readWasmBinary"):
        if fn not in funcs:
            raise ExtractFail(W, f"{fn} not found")
    res = {}
    # option strings of both configurations
    src = open(os.path.join(repo, "w2c2", "main.c")).read()
    opts = re.findall(r'static\s+char\*\s+const\s+optString\s*=\s*"([^"]*)"\s*;', src)
    if len(opts) != 2:
        raise ExtractFail(W, "expected two optString definitions (with / without pthread)")
    res["optStrings"] = opts
    main = funcs["main"]
    where = f"{W}:{main.line}"
    toks = main.body_toks
    # option letter -> assigned flag / mode names: walk `case 'x': { ... }` groups of the getopt switch
    stmts = flatten(parse_stmts(toks, where))
    sw = [s for s in stmts if s[0] == "switch" and norm(s[1]) == "c"]
    if len(sw) != 1:
        raise ExtractFail(where, "getopt switch not found")
    body = sw[0][2]
    letters = {}
    i = 0
    cur = None
    while i < len(body):
        t = body[i]
        if t.text == "case" and body[i + 1].kind == "chr" and body[i + 2].text == ":":
            cur = chr(chr_value(body[i + 1].text, where))
            letters[cur] = []
            i += 3
            continue
        if t.text == "default":
            cur = None
        if cur is not None:
            letters[cur].append(t)
        i += 1
    clean_letters = [k for k, v in letters.items() if re.search(r"\bclean=true;", norm(v).replace("clean=true", " clean=true"))
                     or "clean=true;" in norm(v)]
    if len(clean_letters) != 1:
        raise ExtractFail(where, "exactly one option must set `clean = true`")
    res["cleanLetter"] = clean_letters[0]
    simple = {}
    for k, v in letters.items():
        m = re.match(r"^\{(\w+)=true;break;\}$", norm(v))
        if m:
            simple[k] = m.group(1)
    res["flagLetters"] = simple
    # -d modes
    dtxt = norm(letters.get("d", []))
    modes = re.findall(r'strcmp\(optarg,"([^"]+)"\)==0\)\{dataSegmentMode=(\w+);', dtxt)
    if not modes:
        raise ExtractFail(where, "-d mode table not found")
    res["modes"] = modes
    if not re.search(r"WasmDataSegmentModedataSegmentMode=(\w+);", norm(toks)):
        raise ExtractFail(where, "default data segment mode not found")
    res["defaultMode"] = re.search(r"WasmDataSegmentModedataSegmentMode=(\w+);", norm(toks)).group(1)
    # -f / -t parsing
    for letter, var in (("f", "functionsPerFile"), ("t", "threadCount")):
        if norm(letters.get(letter, [])) != "{%s=(U32)strtoul(optarg,NULL,0);break;}" % var:
            raise ExtractFail(where, f"-{letter} is not parsed as (U32) strtoul(optarg, NULL, 0)")
    if norm(letters.get("r", [])) != "{referenceModulePath=optarg;break;}":
        raise ExtractFail(where, "-r does not just record the reference path")
    # order of the file-relevant steps
    n = norm(toks)
    seq = []
    pats = [
        ("readModule", r"if\(!readWasmBinary\(modulePath,&reader,debug\)\)\{return1;\}"),
        ("readReference", r"if\(referenceModulePath!=NULL\)\{.*?if\(!readWasmBinary\(referenceModulePath,&referenceReader,false\)\)\{return1;\}"),
        ("defaultFpf", r"if\(functionsPerFile==0\)\{functionsPerFile=reader\.module->functions\.count;\}"),
        ("chdirOut", r"if\(!changeToOutputDirectory\(outputPath\)\)\{return1;\}"),
        ("clean", r"if\(clean\)\{cleanImplementationFiles\(\);\}"),
        ("writeModule", r"if\(!wasmCWriteModule\(reader\.module,moduleName,writeOptions,staticFunctionIDs,dynamicFunctionIDs\)\)\{fprintf\(stderr,\"w2c2: failed to compile\\n\"\);return1;\}"),
    ]
    # string literal tokens keep their spaces in norm(); rebuild a space-free variant for matching
    n2 = n.replace(" ", "")
    for name, pat in pats:
        ms = list(re.finditer(pat.replace(" ", ""), n2, re.S))
        if len(ms) != 1:
            raise ExtractFail(where, f"main(): step `{name}` not found exactly once in its expected shape")
        seq.append((ms[0].start(), name))
    for fn in ("readWasmBinary", "changeToOutputDirectory", "cleanImplementationFiles", "wasmCWriteModule"):
        want = 2 if fn == "readWasmBinary" else 1
        if count_calls(toks, fn) != want:
            raise ExtractFail(where, f"main(): {fn} is called {count_calls(toks, fn)} times, expected {want}")
    if not re.search(r"writeOptions\.outputPath=outputPath;", n2) or \
            not re.search(r"writeOptions\.functionsPerFile=functionsPerFile;", n2) or \
            not re.search(r"writeOptions\.dataSegmentMode=dataSegmentMode;", n2):
        raise ExtractFail(where, "main(): writeOptions are not filled from the parsed options")
    if not re.search(r"\}else\{staticFunctionIDs=functionIDs;dynamicFunctionIDs=emptyWasmFunctionIDs;\}", n2):
        raise ExtractFail(where, "main(): without -r all functions must be static")
    res["mainSteps"] = [name for _, name in sorted(seq)]
    # changeToOutputDirectory
    cd = funcs["changeToOutputDirectory"]
    c = norm(cd.body_toks).replace(" ", "")
    # outputDir := dirname(copy of outputPath) — either by the overlapping strcpy of the pinned tree or by memmove
    m = re.match(r'^charoutputDir\[(\w+)\];(?:constchar\*dir=NULL;)?strcpy\(outputDir,outputPath\);'
                 r'(?:strcpy\(outputDir,dirname\(outputDir\)\);|dir=dirname\(outputDir\);memmove\(outputDir,dir,strlen\(dir\)\+1\);)'
                 r'if\(chdir\(outputDir\)<0\)\{fprintf\(stderr,".*?",outputDir\);returnfalse;\}returntrue;$', c)
    if not m:
        raise ExtractFail(f"{W}:{cd.line}", "changeToOutputDirectory has unexpected shape")
    res["outputDirBuf"] = m.group(1)
    m = re.search(r"#ifndef\s+PATH_MAX\s*\n\s*#define\s+PATH_MAX\s+(\d+)", src)
    if not m:
        raise ExtractFail(W, "PATH_MAX fallback not found")
    res["pathMaxFallback"] = int(m.group(1))
    # readWasmBinary → readFile(path)
    rb = norm(funcs["readWasmBinary"].body_toks)
    if "constBufferbuffer=readFile(path);" not in rb:
        raise ExtractFail(W, "readWasmBinary does not read through readFile(path)")
    return res


def extract_c(repo, consts):
    W = "c.c"
    funcs, _ = functions_of(repo, "c.c")
    need = ["wasmCWriteImplementationFile", "wasmCWriteDataSegmentsFromSection", "wasmCWriteModuleImplementation",
            "wasmCWriteModule", "wasmCWriteModuleImplementationFiles", "wasmCWriteModuleHeader"]
    for fn in need:
        if fn not in funcs:
            raise ExtractFail(W, f"{fn} not found")
    res = {}
    # --- implementation file name
    f = funcs["wasmCWriteImplementationFile"]
    where = f"{W}:{f.line}"
    n = norm(f.body_toks)
    m = re.search(r"charfilename\[(\w+)\+(\d+)\];", n)
    if not m or m.group(1) not in consts:
        raise ExtractFail(where, "filename buffer declaration has unexpected shape")
    res["implBuf"] = consts[m.group(1)] + int(m.group(2))
    args, _ = find_call(f.body_toks, "sprintf", where)
    if count_calls(f.body_toks, "sprintf") != 1 or len(args) != 4 or norm(args[0]) != "filename" or args[1][0].kind != "str":
        raise ExtractFail(where, "sprintf(filename, fmt, prefix, index) not found")
    fmt = c_string(args[1][0].text, where)
    items, kinds = parse_format(fmt, where)
    if kinds != ["char", "uint"] or norm(args[2]) != "filePrefix" or norm(args[3]) != "fileIndex":
        raise ExtractFail(where, "implementation file name is not formatted from (filePrefix, fileIndex)")
    p = norm(f.params)
    if "constcharfilePrefix" not in p or "constU32fileIndex" not in p:
        raise ExtractFail(where, "filePrefix/fileIndex do not have types char/U32")
    res["implFormat"] = fmt
    res["implItems"] = items
    args, _ = find_call(f.body_toks, "fopen", where)
    if count_calls(f.body_toks, "fopen") != 1 or norm(args[0]) != "filename":
        raise ExtractFail(where, "fopen(filename, …) not found")
    res["implMode"] = c_string(args[1][0].text, where)
    # --- datasegments
    f = funcs["wasmCWriteDataSegmentsFromSection"]
    where = f"{W}:{f.line}"
    n = norm(f.body_toks)
    m = re.search(r'staticconstchar\*constfilename=("[^"]*");', n)
    if not m:
        raise ExtractFail(where, "data segments file name not found")
    res["dsName"] = c_string(m.group(1), where)
    args, _ = find_call(f.body_toks, "fopen", where)
    if count_calls(f.body_toks, "fopen") != 1 or norm(args[0]) != "filename":
        raise ExtractFail(where, "fopen(filename, …) not found in wasmCWriteDataSegmentsFromSection")
    res["dsMode"] = c_string(args[1][0].text, where)
    # a failing fopen there aborts
    if not re.search(r"if\(segmentsFile==NULL\)\{fprintf\(.*?\);abort\(\);\}", n.replace(" ", ""), re.S):
        raise ExtractFail(where, "failure of the data segments fopen no longer aborts")
    # --- header / output: fopen(filename, mode)
    for fn, key in (("wasmCWriteModuleHeader", "headerMode"), ("wasmCWriteModuleImplementation", "outputMode")):
        f = funcs[fn]
        where = f"{W}:{f.line}"
        if count_calls(f.body_toks, "fopen") != 1:
            raise ExtractFail(where, f"{fn} must open exactly one file")
        args, _ = find_call(f.body_toks, "fopen", where)
        if norm(args[0]) != "filename" or "constchar*filename" not in norm(f.params):
            raise ExtractFail(where, f"{fn} does not open its `filename` parameter")
        res[key] = c_string(args[1][0].text, where)
        if not re.search(r"file=fopen\(filename,\"\w+\"\);if\(file==NULL\)\{fprintf\(.*?\);returnfalse;\}",
                         norm(f.body_toks).replace(" ", ""), re.S):
            raise ExtractFail(where, f"{fn}: a failing fopen must return false")
    # --- wasmCWriteModuleImplementation: modes that create datasegments, single-file condition, prefixes
    f = funcs["wasmCWriteModuleImplementation"]
    where = f"{W}:{f.line}"
    st = flatten(parse_stmts(f.body_toks, where))
    sw = [s for s in st if s[0] == "switch" and norm(s[1]) == "options.dataSegmentMode"]
    if len(sw) != 1:
        raise ExtractFail(where, "switch over options.dataSegmentMode not found")
    body = sw[0][2]
    groups = []
    labels = []
    i = 0
    while i < len(body):
        t = body[i]
        if t.text == "case" and body[i + 2].text == ":":
            labels.append(body[i + 1].text)
            i += 3
            continue
        if t.text == "default" and body[i + 1].text == ":":
            labels.append("default")
            i += 2
            continue
        if t.text == "{":
            e = matching(body, i, "{", "}", where)
            groups.append((labels, body[i + 1:e]))
            labels = []
            i = e + 1
            continue
        raise ExtractFail(where, "unexpected token in data segment mode switch: " + t.text)
    ext_modes = []
    noop_modes = []
    for labs, b in groups:
        nb = norm(b)
        if "default" in labs:
            if "abort();" not in nb:
                raise ExtractFail(where, "default of the mode switch must abort")
            continue
        if nb == "wasmCWriteDataSegmentsFromSection(file,module,options.dataSegmentMode);break;":
            ext_modes += labs
        elif nb == "break;":
            noop_modes += labs
        else:
            raise ExtractFail(where, "unexpected case body in the mode switch: " + text_of(b)[:80])
    res["extModes"] = ext_modes
    res["noopModes"] = noop_modes
    if count_calls(f.body_toks, "wasmCWriteDataSegmentsFromSection") != 1:
        raise ExtractFail(where, "wasmCWriteDataSegmentsFromSection must be called from the mode switch only")
    ifs = [s for s in st if s[0] == "if" and s[3] is not None
           and "wasmCWriteModuleImplementationFiles" in norm(flat_toks(body_list(s[3])))]
    if len(ifs) != 1:
        raise ExtractFail(where, "single-file / split decision not found")
    res["singleFileCond"] = norm(ifs[0][1])
    if res["singleFileCond"] != "options.functionsPerFile>=module->functions.count&&dynamicFunctionIDs.length==0":
        raise ExtractFail(where, "single-file condition changed: " + text_of(ifs[0][1]))
    if count_calls(flat_toks(body_list(ifs[0][2])), "fopen") or "wasmCWriteModuleImplementationFiles" in norm(flat_toks(body_list(ifs[0][2]))):
        raise ExtractFail(where, "single-file branch must not create files")
    els = flat_toks(body_list(ifs[0][3]))
    if count_calls(els, "wasmCWriteModuleImplementationFiles") != 2:
        raise ExtractFail(where, "expected two wasmCWriteModuleImplementationFiles calls")
    prefixes = []
    for k in range(2):
        args, _ = find_call(els, "wasmCWriteModuleImplementationFiles", where, k)
        if len(args) != 6 or args[4][0].kind != "chr" or norm(args[5]) != "options":
            raise ExtractFail(where, "wasmCWriteModuleImplementationFiles call has unexpected arguments")
        prefixes.append((norm(args[3]), chr_value(args[4][0].text, where)))
    if [p[0] for p in prefixes] != ["staticFunctionIDs", "dynamicFunctionIDs"]:
        raise ExtractFail(where, "implementation files are not written for (static, dynamic) in this order")
    res["prefixes"] = prefixes
    # order: fopen(output) < mode switch < split
    nn = norm(f.body_toks)
    a, b, c = nn.find("fopen(filename"), nn.find("switch(options.dataSegmentMode)"), nn.find("if(options.functionsPerFile>=")
    if not (0 <= a < b < c):
        raise ExtractFail(where, "order output-open / data segments / implementation files changed")
    # --- wasmCWriteModuleImplementationFiles: count arithmetic (hand-modelled: shape check only)
    f = funcs["wasmCWriteModuleImplementationFiles"]
    where = f"{W}:{f.line}"
    nn = norm(f.body_toks)
    shapes = [
        "U32fileIndex=0;",
        "constsize_tfunctionCount=functionIDs.length;",
        "U32functionsPerFile=options.functionsPerFile;",
        "if(functionCount==0){returntrue;}",
        "if(functionsPerFile==0){functionsPerFile=UINT32_MAX;}",
        "fileCount=1+(functionCount-1)/functionsPerFile;",
        "for(;fileIndex<fileCount;fileIndex++){",
        "task.filePrefix=filePrefix;",
        "task.fileIndex=fileIndex;",
    ]
    for s in shapes:
        if nn.count(s) != 1:
            raise ExtractFail(where, f"file-count arithmetic changed: `{s}` not found exactly once")
    res["countShapes"] = shapes
    th = funcs.get("wasmCImplementationWriterThread")
    if th is None:
        raise ExtractFail(W, "wasmCImplementationWriterThread not found")
    tn = norm(th.body_toks)
    for s in ("constcharfilePrefix=task->filePrefix;", "constU32fileIndex=task->fileIndex;"):
        if s not in tn:
            raise ExtractFail(f"{W}:{th.line}", f"writer thread no longer forwards `{s}`")
    m = re.search(r"wasmCWriteImplementationFile\(module,moduleName,headerName,debugLines,filePrefix,fileIndex,", tn)
    if not m:
        raise ExtractFail(f"{W}:{th.line}", "writer thread does not pass (filePrefix, fileIndex) on")
    # --- wasmCWriteModule: names
    f = funcs["wasmCWriteModule"]
    where = f"{W}:{f.line}"
    nn = norm(f.body_toks)
    # outputName := basename(copy of outputPath) — overlapping strcpy (pinned tree) or memmove
    m = re.match(r"^charoutputName\[(\w+)\];charheaderName\[(\w+)\];constchar\*outputPath=options\.outputPath;"
                 r"(?:constchar\*outputBaseName=NULL;)?"
                 r"strcpy\(outputName,outputPath\);"
                 r"(?:strcpy\(outputName,basename\(outputName\)\);"
                 r"|outputBaseName=basename\(outputName\);memmove\(outputName,outputBaseName,strlen\(outputBaseName\)\+1\);)"
                 r"strcpy\(headerName,outputName\);"
                 r"\{char\*headerExt=strrchr\(headerName,('(?:[^'\\]|\\.)')\);"
                 r"if\(headerExt==NULL\)\{headerExt=headerName\+strlen\(headerName\);\}"
                 r"strcpy\(headerExt,(\"[^\"]*\")\);\}", nn)
    if not m:
        raise ExtractFail(where, "output/header name computation has unexpected shape")
    res["nameBufs"] = (m.group(1), m.group(2))
    res["headerExtChar"] = chr_value(m.group(3), where)
    res["headerSuffix"] = c_string(m.group(4), where)
    rest = nn[m.end():]
    m = re.match(r"^\{if\(!\(wasmCWriteModuleHeader\(module,moduleName,headerName,[^;{}]*?\)\)\)\{returnfalse;\};\}"
                 r"\{if\(!\(wasmCWriteModuleImplementation\(module,moduleName,outputName,headerName,[^;{}]*?\)\)\)\{returnfalse;\};\}"
                 r"returntrue;$", rest)
    if not m:
        raise ExtractFail(where, "wasmCWriteModule no longer writes header(headerName) then implementation(outputName)")
    return res


def flat_toks(stmts):
    out = []
    for s in flatten(stmts):
        if s[0] == "simple":
            out += s[1] + [Tok("op", ";")]
        elif s[0] == "if":
            out += s[1]
        elif s[0] == "switch":
            out += s[1] + s[2]
    return out


def extract_sites(repo):
    """Every file-system call in the translator's sources with its enclosing function."""
    sites = []
    d = os.path.join(repo, "w2c2")
    for fn in sorted(os.listdir(d)):
        if not fn.endswith(".c") or fn.endswith("_test.c") or fn == "test.c":
            continue
        if fn in ("getopt_impl.c",):
            pass
        funcs, _ = functions_of(repo, fn)
        for name, f in sorted(funcs.items(), key=lambda kv: kv[1].line):
            toks = f.body_toks
            for i, t in enumerate(toks):
                if t.kind == "id" and t.text in FS_CALLS and i + 1 < len(toks) and toks[i + 1].text == "(" \
                        and (i == 0 or toks[i - 1].text not in (".", "->")):
                    e = matching(toks, i + 1, "(", ")", f"{fn}:{t.line}")
                    args = cfront.split_params(toks[i + 2:e])
                    mode = ""
                    if t.text == "fopen":
                        if len(args) != 2 or args[1][0].kind != "str":
                            raise ExtractFail(f"{fn}:{t.line}", "fopen with a non-literal mode")
                        mode = c_string(args[1][0].text, f"{fn}:{t.line}").decode()
                    sites.append((fn, name, t.text, norm(args[0]) if args and args[0] else "", mode))
    # the non-libgen / non-glob configurations must not add sites either (other than the Win32 ones)
    return sites


def extract_readfile(repo):
    funcs, _ = functions_of(repo, "file.c")
    if "readFile" not in funcs:
        raise ExtractFail("file.c", "readFile not found")
    f = funcs["readFile"]
    where = f"file.c:{f.line}"
    if count_calls(f.body_toks, "fopen") != 1:
        raise ExtractFail(where, "readFile must open exactly one file")
    args, _ = find_call(f.body_toks, "fopen", where)
    if norm(args[0]) != "path":
        raise ExtractFail(where, "readFile does not open its path parameter")
    n = norm(f.body_toks)
    for bad in ("fwrite", "fputs", "fprintf(file", "fputc"):
        if bad in n:
            raise ExtractFail(where, f"readFile writes ({bad})")
    return c_string(args[1][0].text, where)


def generate(repo):
    ch = open(os.path.join(repo, "w2c2", "c.h")).read()
    m = re.findall(r"^\s*#\s*define\s+W2C2_IMPL_FILENAME_LENGTH\s+(\d+)\s*$", ch, re.M)
    if len(m) != 1:
        raise ExtractFail("c.h", "W2C2_IMPL_FILENAME_LENGTH is not defined exactly once as an integer literal")
    consts = {"W2C2_IMPL_FILENAME_LENGTH": int(m[0])}
    glob_pat, glob_flags, steps = extract_clean(repo, consts)
    mn = extract_main(repo)
    cc = extract_c(repo, consts)
    read_mode = extract_readfile(repo)
    sites = extract_sites(repo)
    if glob_flags != ["GLOB_NOSORT"]:
        raise ExtractFail("main.c", f"glob flags {glob_flags} are not modelled (only GLOB_NOSORT is)")

    mode_ctor = {}
    for s, en in mn["modes"]:
        mode_ctor[en] = s
    o = []
    A = o.append
    A("-- GENERATED by tools/extract/gen_files.py from /repo/w2c2/{c.h,c.c,main.c,file.c} — do not edit.")
    A("namespace W2c2Verif.Gen.Files")
    A("")
    A("/-- comparison operators as written in the C source -/")
    A("inductive Cmp | eq | ne | lt | le | gt | ge deriving DecidableEq, Repr, Inhabited")
    A("")
    A("/-- a boolean test on one character `c` (`c OP k` combined with `&&`, `||`, `!`) -/")
    A("inductive CharCond")
    A("  | cmp (op : Cmp) (k : Nat)")
    A("  | and (a b : CharCond)")
    A("  | or (a b : CharCond)")
    A("  | not (a : CharCond)")
    A("  deriving DecidableEq, Repr, Inhabited")
    A("")
    A("/-- one rejecting test of the match loop of `cleanImplementationFiles` (`continue` when it fires) -/")
    A("inductive CleanStep")
    A("  | rejectIfLen (op : Cmp) (k : Nat)                       -- if (pathLength OP k) continue;")
    A("  | rejectIfCharAt (idx : Nat) (c : CharCond)               -- if (cond(path[idx])) continue;")
    A("  /-- `for (i = start; i OP pathLength - minus; i++) if (cond(path[i])) {flag = false; break;}` … `if (!flag) continue;` -/")
    A("  | rejectIfAnyInRange (start : Nat) (op : Cmp) (minus : Nat) (c : CharCond)")
    A("  deriving DecidableEq, Repr, Inhabited")
    A("")
    A("inductive GlobTok | star | any | lit (b : Nat) deriving DecidableEq, Repr, Inhabited")
    A("")
    A("/-- items of a printf format -/")
    A("inductive FmtItem")
    A("  | lit (bs : List Nat)")
    A("  | charArg                                  -- %c")
    A("  | uintArg (zeroPad : Bool) (width : Nat)   -- %[0][width]u")
    A("  deriving DecidableEq, Repr, Inhabited")
    A("")
    A("/-- the file-relevant steps of main(), in source order -/")
    A("inductive MainStep | readModule | readReference | defaultFpf | chdirOut | clean | writeModule")
    A("  deriving DecidableEq, Repr, Inhabited")
    A("")
    A("structure Site where")
    A("  file : String")
    A("  func : String")
    A("  call : String")
    A("  arg : String")
    A("  mode : String")
    A("  deriving DecidableEq, Repr, Inhabited")
    A("")
    A(f"def implLen : Nat := {consts['W2C2_IMPL_FILENAME_LENGTH']}   -- W2C2_IMPL_FILENAME_LENGTH (c.h)")
    A(f"def implBufSize : Nat := {cc['implBuf']}   -- char filename[W2C2_IMPL_FILENAME_LENGTH+1]")
    A(f"def implFormatString : String := {lstr(cc['implFormat'])}")
    A("def implFormat : List FmtItem := [" + ", ".join(cc["implItems"]) + "]")
    A("/-- (function-ID list, prefix character) of the two wasmCWriteModuleImplementationFiles calls, in order -/")
    A("def implPrefixes : List (String × Nat) := [" + ", ".join(f"({cfront.lean_str(a)}, {b})" for a, b in cc["prefixes"]) + "]")
    A(f"def dataSegmentsNameString : String := {lstr(cc['dsName'])}")
    A(f"def dataSegmentsName : List Nat := {lbytes(cc['dsName'])}")
    A("/-- `-d` argument strings whose mode writes the `datasegments` file / writes nothing extra -/")
    A("def externalModes : List String := [" + ", ".join(cfront.lean_str(mode_ctor[e]) for e in cc["extModes"] if e in mode_ctor) + "]")
    A("def inlineModes : List String := [" + ", ".join(cfront.lean_str(mode_ctor[e]) for e in cc["noopModes"] if e in mode_ctor) + "]")
    A("def allModes : List String := [" + ", ".join(cfront.lean_str(s) for s, _ in mn["modes"]) + "]")
    if set(cc["extModes"]) | set(cc["noopModes"]) != set(mode_ctor):
        raise ExtractFail("c.c", "the mode switch of wasmCWriteModuleImplementation does not cover exactly the -d modes of main.c")
    A(f"def defaultMode : String := {cfront.lean_str(mode_ctor.get(mn['defaultMode'], '?'))}")
    A(f"def singleFileCond : String := {cfront.lean_str(cc['singleFileCond'])}")
    A(f"def headerExtChar : Nat := {cc['headerExtChar']}   -- strrchr(headerName, '.')")
    A(f"def headerSuffix : List Nat := {lbytes(cc['headerSuffix'])}   -- strcpy(headerExt, \".h\")")
    A(f"def headerSuffixString : String := {lstr(cc['headerSuffix'])}")
    A(f"def globPatternString : String := {lstr(glob_pat)}")
    A("def globPattern : List GlobTok := [" + ", ".join(glob_tokens(glob_pat, "main.c")) + "]")
    A("def globFlags : List String := [" + ", ".join(cfront.lean_str(x) for x in glob_flags) + "]")
    A("def cleanSteps : List CleanStep := [")
    A(",\n".join("  " + s for s in steps))
    A("]")
    A("def cleanAction : String := \"remove\"")
    A("def mainSteps : List MainStep := [" + ", ".join("." + s for s in mn["mainSteps"]) + "]")
    A("def optStrings : List String := [" + ", ".join(cfront.lean_str(s) for s in mn["optStrings"]) + "]")
    A(f"def cleanOptionLetter : Char := '{mn['cleanLetter']}'")
    A("def flagOptions : List (Char × String) := [" + ", ".join(f"('{k}', {cfront.lean_str(v)})" for k, v in sorted(mn["flagLetters"].items())) + "]")
    A(f"def pathMaxFallback : Nat := {mn['pathMaxFallback']}")
    for b in (mn["outputDirBuf"],) + tuple(cc["nameBufs"]):
        if b not in ("PATH_MAX", str(mn["pathMaxFallback"])):
            raise ExtractFail("main.c/c.c", f"path buffer of size {b} (expected PATH_MAX)")
    A("/-- outputDir (main.c), outputName and headerName (c.c) are all `char[PATH_MAX]` -/")
    A("def pathBufferCount : Nat := 3")
    A("/-- fopen mode strings -/")
    A(f"def readMode : String := {lstr(read_mode)}       -- file.c readFile (module and reference module)")
    A(f"def headerMode : String := {lstr(cc['headerMode'])}")
    A(f"def outputMode : String := {lstr(cc['outputMode'])}")
    A(f"def implMode : String := {lstr(cc['implMode'])}")
    A(f"def dataSegmentsMode : String := {lstr(cc['dsMode'])}")
    A("/-- every file-system call site of the translator (w2c2/*.c without tests) -/")
    A("def sites : List Site := [")
    A(",\n".join("  ⟨%s, %s, %s, %s, %s⟩" % tuple(cfront.lean_str(x) for x in s) for s in sites))
    A("]")
    A("")
    A("end W2c2Verif.Gen.Files")
    return "\n".join(o) + "\n"


if __name__ == "__main__":
    import sys
    print(generate(sys.argv[1] if len(sys.argv) > 1 else "/repo"))
