"""gen_funcexports — regenerate lean/W2c2Verif/Gen/FuncExports.lean from /repo/w2c2/c.c.

`wasmCWriteModuleFunctionExportsArray` writes the name table `<module>FuncExports` (instance.common.funcExports; the WASI runtime
searches it for `wasi_thread_start`):

    U32 functionExportCount = 0;
    for (exportIndex = 0; exportIndex < <COUNT BOUND>; exportIndex++)  if (export.kind == wasmExportKindFunction) functionExportCount += 1;
    "wasmFuncExport %sFuncExports[%u] = {\\n"  with  functionExportCount + <EXTRA>
    for (exportIndex = 0; exportIndex < <ROW BOUND>; exportIndex++) { if (export.kind != wasmExportKindFunction) continue;
        "{(wasmFunc)" <function export.index> "," <string literal export.name> "},\\n" }
    "{NULL,NULL}\\n};\\n\\n"

Read on the normal form of tools/extract/cnorm.py: `if (k != F) continue; ROW` ≡ `if (k == F) { ROW }`, counting with an early
`continue` ≡ counting under a positive test, for ≡ while, local names free, temporaries substituted.  Also `wasmCWriteMemoryExport`: the
memory index handed to wasmCWriteFileMemoryUse in the body of a `<module>_<name>` memory accessor (`export.index` or a constant).
Extracted as DATA: the bound of each loop (`module->exports.count` = all exports, or `functionExportCount` = the number counted by
the first loop), that both loops start at 0 and step by 1 over `module->exports.exports[exportIndex]`, the kind tested and whether
the row loop SKIPS or KEEPS on it, which fields feed the row (export.index, export.name), the constant added to the declared size and
the terminator row.  Any other shape raises ExtractFail (= broken tie).
"""
import os
import re

from cfront import ExtractFail
from gen_instantiate import strip_comments, function_body
import cnorm

GEN_NAME = "FuncExports"
C = "w2c2/c.c"
KINDS = {"wasmExportKindFunction": "func", "wasmExportKindMemory": "memory", "wasmExportKindTable": "table", "wasmExportKindGlobal": "global"}
EXP = r"module->exports\.exports\[\$i0\]"


def kind_test(c, where):
    """condition `<export i>.kind == K` -> K"""
    m = re.fullmatch(EXP + r"\.kind==(\w+)", c) if isinstance(c, str) else None
    if not m or m.group(1) not in KINDS:
        raise ExtractFail(where, "loop body is not guarded by a test of the export's kind: %r" % (c,))
    return KINDS[m.group(1)]


def one_loop(nd, where, counter):
    """('loop', $i0, 0, bound, [('if', kind test, then, else)]) -> (bound fact, kind, keeps?, kept statements)"""
    if nd[0] != "loop" or nd[2] != "0":
        raise ExtractFail(where, "expected a loop over the exports from index 0, found %r" % (nd[:4],))
    if nd[3] == "module->exports.count":
        bound = "allExports"
    elif counter is not None and nd[3] == counter:
        bound = "countedFunctions"
    else:
        raise ExtractFail(where, "unknown loop bound `%s`" % nd[3])
    body = nd[4]
    if len(body) != 1 or body[0][0] != "if":
        raise ExtractFail(where, "loop body is not one test of the export's kind")
    _, c, then, els = body[0]
    kind = kind_test(c, where)
    if then and els:
        raise ExtractFail(where, "both arms of the kind test do something")
    return bound, kind, bool(then), (then or els)


def func_exports(src):
    body, line = function_body(src, "wasmCWriteModuleFunctionExportsArray", C)
    where = "%s:%d" % (C, line)
    nodes = cnorm.normalize(body, where)
    if len(nodes) != 6 or nodes[0][0] != "do" or not re.fullmatch(r"\$v\d+=0", nodes[0][1]):
        raise ExtractFail(where, "wasmCWriteModuleFunctionExportsArray has an unexpected shape (%d statements)" % len(nodes))
    counter = nodes[0][1].split("=")[0]
    cb, ck, ckeep, cbody = one_loop(nodes[1], where, None)
    if cbody != [("do", counter + "+=1")] or not ckeep:
        raise ExtractFail(where, "the first loop does not count the exports of one kind")
    m = re.fullmatch(r'fprintf\(file,"wasmFuncExport %sFuncExports\[%u\] = \{\\n",moduleName,' + re.escape(counter) + r"\+(\d+)\)", nodes[2][1]) if nodes[2][0] == "do" else None
    if not m:
        raise ExtractFail(where, "the array declaration is not `wasmFuncExport <module>FuncExports[<count> + k] = {`")
    extra = m.group(1)
    rb, rk, rkeep, rbody = one_loop(nodes[3], where, counter)
    want = [("do", 'fputs("{(wasmFunc)",file)'),
            ("do", "wasmCWriteFileFunctionUse(file,module,moduleName,module->exports.exports[$i0].index,false,multipleModules)"),
            ("do", "fputc(44,file)"),
            ("do", "wasmCWriteFileStringLiteral(file,module->exports.exports[$i0].name)"),
            ("do", 'fputs("},\\n",file)')]
    alt = [want[0], want[1], ("do", 'fputs(",",file)'), want[3], want[4]]
    if rbody not in (want, alt):
        raise ExtractFail(where, "a row is not `{(wasmFunc)<function export.index>,<string literal export.name>},`: %r" % (rbody,))
    if nodes[4] not in (("do", 'fputs("{NULL,NULL}\\n};\\n\\n",file)'),):
        term = False
        if nodes[4] != ("do", 'fputs("};\\n\\n",file)'):
            raise ExtractFail(where, "unexpected text after the rows: %r" % (nodes[4],))
    else:
        term = True
    if nodes[5] != ("return", "true"):
        raise ExtractFail(where, "unexpected statement at the end")
    return cb, ck, extra, rb, rk, rkeep, term


def memory_export(src):
    body, line = function_body(src, "wasmCWriteMemoryExport", C)
    where = "%s:%d" % (C, line)
    nodes = cnorm.normalize(body, where)

    def find(ns, acc):
        for nd in ns:
            if nd[0] == "do":
                acc.append(nd[1])
            elif nd[0] == "if":
                find(nd[2], acc)
                find(nd[3], acc)
            else:
                raise ExtractFail(where, "`%s` statement in wasmCWriteMemoryExport" % nd[0])
        return acc
    dos = find(nodes, [])
    if "wasmCWriteExportName(file,moduleName,export.name)" not in dos:
        raise ExtractFail(where, "the accessor is no longer named <module>_<export.name>")
    uses = [x for x in dos if x.startswith("wasmCWriteFileMemoryUse(")]
    k = dos.index('fputs("return ",file)') if 'fputs("return ",file)' in dos else -1
    if len(uses) != 1 or k < 0 or dos[k + 1] != uses[0]:
        raise ExtractFail(where, "the accessor body is not `return <one memory use>;`")
    m = re.fullmatch(r"wasmCWriteFileMemoryUse\(file,module,(export\.index|\d+),NULL,true\)", uses[0])
    if not m:
        raise ExtractFail(where, "the returned memory is `%s`" % uses[0])
    return ".exportIndex" if m.group(1) == "export.index" else "(.const %s)" % m.group(1)


def generate(repo):
    src = strip_comments(open(os.path.join(repo, "w2c2", "c.c")).read())
    cb, ck, extra, rb, rk, rkeep, term = func_exports(src)
    if cb == "countedFunctions":
        raise ExtractFail(C, "the counting loop is bounded by the count it computes")
    marg = memory_export(src)
    # the instance gets this table: Instantiate assigns it, NewChild copies the pointer
    ib, il = function_body(src, "wasmCWriteInstantiateFunction", C)
    if 'fprintf(file,"i->common.funcExports = %sFuncExports;\\n",moduleName)' not in [x[1] for x in _dos(cnorm.normalize(ib, C))]:
        raise ExtractFail("%s:%d" % (C, il), "Instantiate no longer assigns <module>FuncExports to i->common.funcExports")
    nb, nl = function_body(src, "wasmCWriteNewChildFunction", C)
    if 'fputs("child->common.funcExports = self->common.funcExports;\\n",file)' not in [x[1] for x in _dos(cnorm.normalize(nb, C))]:
        raise ExtractFail("%s:%d" % (C, nl), "NewChild no longer copies common.funcExports from self")
    out = ["/- GENERATED by tools/extract/gen_funcexports.py from w2c2/c.c — do not edit. -/",
           "namespace W2c2Verif.Gen.FuncExports",
           "",
           "inductive Kind | func | memory | table | global",
           "  deriving DecidableEq, Repr, Inhabited",
           "",
           "/-- bound of a loop `for (exportIndex = 0; exportIndex < …; exportIndex++)` over module->exports.exports -/",
           "inductive Bound",
           "  | allExports          -- module->exports.count",
           "  | countedFunctions    -- functionExportCount, the number the first loop counted",
           "  deriving DecidableEq, Repr, Inhabited",
           "",
           "/-- first loop: counts the exports of this kind … -/",
           "def countBound : Bound := .%s" % cb,
           "def countKind : Kind := .%s" % ck,
           "",
           "/-- … the array is declared with that count plus this many rows -/",
           "def declaredExtraRows : Nat := %s" % extra,
           "",
           "/-- second loop: one row `{(wasmFunc)<function export.index>, \"<export.name>\"}` per export that passes the test -/",
           "def rowBound : Bound := .%s" % rb,
           "def rowKind : Kind := .%s" % rk,
           "/-- `if (export.kind != rowKind) continue;` (true) or `if (export.kind == rowKind) continue;` (false) -/",
           "def rowKeepsKind : Bool := %s" % ("true" if rkeep else "false"),
           "",
           "/-- the row written after the loop: `{NULL,NULL}` -/",
           "def terminatorRow : Bool := %s" % ("true" if term else "false"),
           "",
           "/-- the memory a `<module>_<name>` memory accessor returns: the one wasmCWriteFileMemoryUse is given -/",
           "inductive MemArg",
           "  | exportIndex         -- export.index",
           "  | const (n : Nat)     -- a literal memory index",
           "  deriving DecidableEq, Repr, Inhabited",
           "",
           "def memoryExportArg : MemArg := %s" % marg,
           "",
           "end W2c2Verif.Gen.FuncExports"]
    return "\n".join(out) + "\n"


def _dos(nodes):
    for nd in nodes:
        if nd[0] == "do":
            yield nd
        elif nd[0] == "if":
            for x in _dos(nd[2]):
                yield x
            for x in _dos(nd[3]):
                yield x
        elif nd[0] in ("loop", "while"):
            for x in _dos(nd[4] if nd[0] == "loop" else nd[2]):
                yield x


if __name__ == "__main__":
    import sys
    sys.stdout.write(generate(sys.argv[1] if len(sys.argv) > 1 else "/repo"))
