"""gen_filecalls — regenerate lean/W2c2Verif/Gen/FileCalls.lean: what each call site of wasmCWriteImplementationFile passes for
each of its parameters, in BOTH translator build configurations (C09: the quantifier includes "translator build configurations
(with/without pthreads …)"):

  * the callee: the ROLE of every parameter of wasmCWriteImplementationFile, found from how the body uses it, not from its name —
    `end = S + F; if (end > count) end = count; if (S > end) return true;` makes S the start index and F the functions-per-file
    value; `sprintf(filename, "%c%010u.c", P, I)` makes P the file prefix and I the file index; the parameter indexed / measured
    as the ID list is the list;
  * the sequential call of wasmCWriteModuleImplementationFiles in the `#else` branch (translator built WITHOUT HAS_PTHREAD): the
    argument at every position, as a role of the caller (`fileIndex` = the loop variable, `functionsPerFile` = the local taken
    from options.functionsPerFile (clamped), `startIndex` = fileIndex * functionsPerFile, the ID list, the prefix);
  * the pool path (HAS_PTHREAD): the same, composed through the task descriptor — producer store `task.F = e`, worker load
    `x = task->F`, call argument `x`.

Both configurations of the function are obtained with cmini.apply_ifdefs (one `#if HAS_PTHREAD` branch at a time) and parsed with
cmini; local names are free, temporaries are substituted, `a * b` = `b * a`.  Adjacent parameters of the same C type can be
exchanged at a call site without any compiler diagnostic (seeded change C09/11): Props/C09Seq proves from these facts that each
site passes every role at the position where the callee expects it, and that the sequential schedule writes the partition of
`partition_exact`.
"""
import os

import cmini as C

GEN_NAME = "FileCalls"
CALLEE = "wasmCWriteImplementationFile"
CALLER = "wasmCWriteModuleImplementationFiles"
WORKER = "wasmCImplementationWriterThread"
TYPES = ("pthread_t", "WasmCImplementationConcurrentWriter", "WasmCImplementationWriterTask", "WasmModule", "WasmDebugLines",
         "WasmFunctionIDs", "WasmCWriteModuleOptions", "WasmFunctionID")


class ExtractFail(Exception):
    pass


def _fail(what):
    raise ExtractFail("EXTRACT-FAIL gen_filecalls: " + what)


def _walk_exprs(stmts, f):
    """f(expr) on every expression of the statements (sub-expressions included)"""
    def ex(e):
        if not isinstance(e, tuple):
            return
        f(e)
        for x in e[1:]:
            if isinstance(x, tuple):
                ex(x)
            elif isinstance(x, list):
                for y in x:
                    ex(y)
    for s in stmts:
        k = s[0]
        if k == "decl":
            if s[3] is not None:
                ex(s[3])
        elif k == "assign":
            ex(s[1])
            ex(s[3])
        elif k in ("expr", "return"):
            if s[1] is not None:
                ex(s[1])
        elif k == "if":
            ex(s[1])
            _walk_exprs(s[2], f)
            if s[3] is not None:
                _walk_exprs(s[3], f)
        elif k == "while":
            ex(s[1])
            _walk_exprs(s[2], f)
        elif k == "for":
            _walk_exprs([x for x in (s[1], s[3]) if x is not None], f)
            if s[2] is not None:
                ex(s[2])
            _walk_exprs(s[4], f)


def _all_stmts(stmts):
    for s in stmts:
        yield s
        if s[0] == "if":
            yield from _all_stmts(s[2])
            if s[3] is not None:
                yield from _all_stmts(s[3])
        elif s[0] == "while":
            yield from _all_stmts(s[2])
        elif s[0] == "for":
            yield from _all_stmts(s[4])


# ------------------------------------------------------------------------------------------------ the callee

def callee_roles(src):
    where = "c.c " + CALLEE
    try:
        params, body = C.parse_function(src, CALLEE, where, TYPES)
    except C.ParseFail as e:
        _fail(str(e))
    body = C.normalize(body)
    names = [n for _t, n in params]
    role = {}
    # end = S + F  (either order decided by the guard `if (S > end) return true`)
    end_var, ops = None, None
    for s in _all_stmts(body):
        if s[0] == "decl" and s[3] is not None:
            e = C.strip_casts(s[3])
            if e[0] == "bin" and e[1] == "+" and e[2][0] == "id" and e[3][0] == "id" and e[2][1] in names and e[3][1] in names:
                if end_var is not None:
                    _fail(f"{where}: more than one `<param> + <param>` computation")
                end_var, ops = s[2], (e[2][1], e[3][1])
    if end_var is None:
        _fail(f"{where}: `end = start + functionsPerFile` over two parameters not found")
    start = None
    for s in _all_stmts(body):
        if s[0] == "if" and s[3] is None and len(s[2]) == 1 and s[2][0][0] == "return":
            c = C.norm_cond(s[1])
            if c[0] == "cmp":
                op, a, b = c[1], c[2], c[3]
                if a == ("id", end_var):
                    op, a, b = C.FLIP[op], b, a
                if b == ("id", end_var) and op == ">" and a[0] == "id" and a[1] in ops:
                    start = a[1]
    if start is None:
        _fail(f"{where}: the empty-file guard `if (start > end) return true;` over one of the two summed parameters not found")
    role[start] = "start"
    role[[o for o in ops if o != start][0] if ops[0] != ops[1] else start] = "perFile"
    if ops[0] == ops[1]:
        _fail(f"{where}: `end` is the sum of one parameter with itself")
    # sprintf(filename, "%c%010u.c", P, I)
    found = []

    def look(e):
        if e[0] == "call" and e[1] == ("id", "sprintf") and len(e[2]) == 4 and e[2][1][0] == "str" and e[2][1][1].replace('""', "") == '"%c%010u.c"':
            found.append(e)
    _walk_exprs(body, look)
    if len(found) != 1 or found[0][2][2][0] != "id" or found[0][2][3][0] != "id":
        _fail(f"{where}: `sprintf(filename, \"%c%010u.c\", prefix, fileIndex)` with two parameters not found")
    pfx, idx = found[0][2][2][1], found[0][2][3][1]
    if pfx not in names or idx not in names or pfx in role or idx in role:
        _fail(f"{where}: the file name is not formatted from two further parameters")
    role[pfx] = "prefix"
    role[idx] = "fileIndex"
    ids = [n for t, n in params if t == "WasmFunctionIDs"]
    if len(ids) != 1:
        _fail(f"{where}: expected one WasmFunctionIDs parameter")
    role[ids[0]] = "ids"
    return params, [role.get(n, "other") for n in names]


# ------------------------------------------------------------------------------------------------ the caller, one configuration

class Caller:
    def __init__(self, src, where):
        self.where = where
        try:
            self.params, body = C.parse_function(src, CALLER, where, TYPES)
        except C.ParseFail as e:
            _fail(str(e))
        self.body = C.normalize(body)
        self.env = {}
        self.opt = [n for t, n in self.params if t == "WasmCWriteModuleOptions"]
        self.ids = [n for t, n in self.params if t == "WasmFunctionIDs"]
        self.pfx = [n for t, n in self.params if t == "char"]
        if len(self.opt) != 1 or len(self.ids) != 1 or len(self.pfx) != 1:
            _fail(f"{where}: expected one options, one ID-list and one prefix parameter")
        self.calls = []           # [[Arg]]
        self.task_fields = {}     # field -> Arg
        self.task_vars = set()

    def arg(self, e):
        e = C.strip_casts(e, keep=lambda ty: ty not in ("U32", "size_t"))
        if e[0] == "id":
            if e[1] in self.env:
                return self.env[e[1]]
            if e[1] == self.ids[0]:
                return ("functionIDs",)
            if e[1] == self.pfx[0]:
                return ("filePrefix",)
            return ("other", e[1])
        if e == ("member", ("id", self.opt[0]), "functionsPerFile"):
            return ("functionsPerFile",)
        if e[0] == "bin" and e[1] == "*":
            a, b = self.arg(e[2]), self.arg(e[3])
            if sorted([a, b]) == [("fileIndex",), ("functionsPerFile",)]:
                return ("startIndex",)
        return ("other", C.show(e))

    def run(self):
        self.stmts(self.body, None)

    def stmts(self, body, loopvar):
        for s in body:
            k = s[0]
            if k == "decl":
                if s[1] == "WasmCImplementationWriterTask":
                    self.task_vars.add(s[2])
                if s[3] is not None and s[3][0] != "braces":
                    self.scan(s[3])
                    if s[1] in ("U32", "size_t"):
                        a = self.arg(s[3])
                        self.env[s[2]] = a if a[0] != "other" else ("other", s[2])
                        if s[3] == ("num", 0):
                            self.env[s[2]] = ("zero", s[2])
            elif k == "assign":
                self.scan(s[3])
                if s[1][0] == "id" and s[1][1] in self.env and s[2] == "=":
                    cur = self.env[s[1][1]]
                    if cur == ("functionsPerFile",):
                        pass                    # the clamp `if (functionsPerFile == 0) functionsPerFile = UINT32_MAX` (Model.Partition.effFpf)
                    else:
                        a = self.arg(s[3])
                        self.env[s[1][1]] = a if a[0] != "other" else ("other", s[1][1])
                elif s[1][0] == "member" and s[1][1][0] == "id" and s[1][1][1] in self.task_vars and s[2] == "=":
                    self.task_fields[s[1][2]] = self.arg(s[3])
            elif k in ("expr", "return"):
                if s[1] is not None:
                    self.scan(s[1])
            elif k == "if":
                self.scan(s[1])
                self.stmts(s[2], loopvar)
                if s[3] is not None:
                    self.stmts(s[3], loopvar)
            elif k in ("for", "while"):
                if k == "for":
                    init, cond, step, body2 = s[1], s[2], s[3], s[4]
                    if init is not None:
                        self.stmts([init], loopvar)
                else:
                    init, cond, step, body2 = None, s[1], None, list(s[2])
                    if body2 and body2[-1][0] == "assign":
                        step, body2 = body2[-1], body2[:-1]
                c = C.norm_cond(cond) if cond is not None else None
                var = None
                if c and c[0] == "cmp" and c[1] == "<" and c[2][0] == "id" and self.env.get(c[2][1], ("",))[0] == "zero" \
                        and step == ("assign", c[2], "=", ("bin", "+", c[2], ("num", 1))):
                    var = c[2][1]
                if var is not None and self._contains_file_work(body2):
                    old = self.env[var]
                    self.env[var] = ("fileIndex",)
                    self.stmts(body2, var)
                    self.env[var] = old
                else:
                    self.stmts(body2, loopvar)
            elif k in ("break", "continue"):
                pass
            else:
                _fail(f"{self.where}: statement `{k}` is outside the accepted grammar")

    def _contains_file_work(self, body):
        hit = []

        def look(e):
            if e[0] == "call" and e[1] == ("id", CALLEE):
                hit.append(1)
        _walk_exprs(body, look)
        for s in _all_stmts(body):
            if s[0] == "assign" and s[1][0] == "member" and s[1][1][0] == "id" and s[1][1][1] in self.task_vars:
                hit.append(1)
        return bool(hit)

    def scan(self, e):
        def look(x):
            if x[0] == "call" and x[1] == ("id", CALLEE):
                self.calls.append([self.arg(a) for a in x[2]])
        _walk_exprs([("expr", e)], look)


def worker_call(src):
    """[field name | None] per argument position of the worker's call"""
    where = "c.c " + WORKER
    try:
        params, body = C.parse_function(src, WORKER, where, TYPES)
    except C.ParseFail as e:
        _fail(str(e))
    body = C.normalize(body)
    task = None
    loc = {}
    for s in _all_stmts(body):
        if s[0] == "decl" and s[1] == "WasmCImplementationWriterTask*":
            task = s[2]
        elif s[0] == "decl" and s[3] is not None and task is not None:
            e = C.strip_casts(s[3])
            if e[0] == "member" and e[1] == ("id", task):
                loc[s[2]] = e[2]
        elif s[0] == "assign" and s[1][0] == "id" and s[1][1] in loc:
            del loc[s[1][1]]              # reassigned: no longer the field's value
    if task is None:
        _fail(f"{where}: the task pointer local was not found")
    calls = []

    def look(e):
        if e[0] == "call" and e[1] == ("id", CALLEE):
            out = []
            for a in e[2]:
                a = C.strip_casts(a)
                if a[0] == "id" and a[1] in loc:
                    out.append(loc[a[1]])
                elif a[0] == "member" and a[1] == ("id", task):
                    out.append(a[2])
                else:
                    out.append(None)
            calls.append(out)
    _walk_exprs(body, look)
    if len(calls) != 1:
        _fail(f"{where}: expected exactly one call of {CALLEE}, found {len(calls)}")
    return calls[0]


def _lean_arg(a):
    if a[0] == "other" or a[0] == "zero":
        return '(.other "%s")' % a[1].replace("\\", "\\\\").replace('"', '\\"')
    return "." + a[0]


def generate(repo):
    raw = C.strip_comments(open(os.path.join(repo, "w2c2", "c.c")).read())
    params, roles = callee_roles(C.apply_ifdefs(raw, {"HAS_PTHREAD": True}))
    n = len(params)
    # without pthreads: the direct call
    seq = Caller(C.apply_ifdefs(raw, {"HAS_PTHREAD": False}), "c.c " + CALLER + " (#else: no HAS_PTHREAD)")
    seq.run()
    if len(seq.calls) != 1:
        _fail(f"{seq.where}: expected exactly one call of {CALLEE}, found {len(seq.calls)}")
    if len(seq.calls[0]) != n:
        _fail(f"{seq.where}: the call passes {len(seq.calls[0])} arguments for {n} parameters")
    # with pthreads: producer stores -> task fields -> worker loads -> call
    pool = Caller(C.apply_ifdefs(raw, {"HAS_PTHREAD": True}), "c.c " + CALLER + " (HAS_PTHREAD)")
    pool.run()
    if pool.calls:
        _fail(f"{pool.where}: a direct call of {CALLEE} in the pthread configuration")
    fields = worker_call(C.apply_ifdefs(raw, {"HAS_PTHREAD": True}))
    if len(fields) != n:
        _fail(f"c.c {WORKER}: the call passes {len(fields)} arguments for {n} parameters")
    pool_args = []
    for pos, f in enumerate(fields):
        if f is None:
            pool_args.append(("other", "?"))
        elif f not in pool.task_fields:
            _fail(f"c.c {CALLER}: the task field `{f}` the worker passes at position {pos} is never stored by the producer")
        else:
            a = pool.task_fields[f]
            pool_args.append(a if a[0] not in ("other", "zero") else ("other", "task." + f))
    L = []
    A = L.append
    A("/- GENERATED by tools/extract/gen_filecalls.py from /repo/w2c2/c.c — do not edit. -/")
    A("namespace W2c2Verif.Gen.FileCalls")
    A("")
    A("/-- how wasmCWriteImplementationFile uses a parameter (from its body: `end = start + perFile`, the empty-file guard, the file")
    A("    name format, the ID list) -/")
    A("inductive Role | start | perFile | fileIndex | filePrefix | ids | other\n  deriving Repr, DecidableEq")
    A("/-- what a call site passes: the loop variable, the (clamped) functions-per-file local, their U32 product, the ID list and")
    A("    prefix parameters of wasmCWriteModuleImplementationFiles, or something the partition does not depend on -/")
    A("inductive Arg | fileIndex | functionsPerFile | startIndex | functionIDs | filePrefix | other (text : String)\n  deriving Repr, DecidableEq")
    A("")
    A("/-- parameters of wasmCWriteImplementationFile in declaration order -/")
    A("def calleeParams : List String := [" + ", ".join('"%s"' % nme for _t, nme in params) + "]")
    A("def calleeRoles : List Role := [" + ", ".join("." + {"prefix": "filePrefix"}.get(r, r) for r in roles) + "]")
    A("/-- translator built WITHOUT HAS_PTHREAD: the arguments of the direct call in the file loop -/")
    A("def seqArgs : List Arg := [" + ", ".join(_lean_arg(a) for a in seq.calls[0]) + "]")
    A("/-- translator built with HAS_PTHREAD: producer store → task field → worker load → argument -/")
    A("def poolArgs : List Arg := [" + ", ".join(_lean_arg(a) for a in pool_args) + "]")
    A("")
    A("end W2c2Verif.Gen.FileCalls")
    return "\n".join(L) + "\n"


if __name__ == "__main__":
    import sys
    print(generate(sys.argv[1] if len(sys.argv) > 1 else "/repo"), end="")
