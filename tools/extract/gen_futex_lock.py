"""gen_futex_lock — regenerate lean/W2c2Verif/Gen/FutexLock.lean from /repo/futex/futex.c: the LOCK DISCIPLINE of
`wasmMemoryAtomicNotify`, as the list of its events in textual order, each with "the memory's mutex is held on every path that
reaches it":

    flag     a read of `<mem>->shared` (written once, before the memory is shared)
    lock     WASM_MUTEX_LOCK(&<mem>->mutex)        unlock   WASM_MUTEX_UNLOCK(&<mem>->mutex)
    state    a statement / condition that mentions the futex state: `<mem>->futex`, or a local that (transitively) was
             assigned from an expression mentioning it (the map, the wait-list slot, a wait node)
    ret      a `return`

Model.Futex places notify's map lookup after `nLock` (pcs nLock, nGetMap, ...); Props/C17Lock proves over THIS list that every
`state` event happens with the mutex held, every `return` without, every `unlock` by the holder.  A notify that looks at the
lazily created map before `lock` (a "fast path") makes `notify_state_locked` false.

Semantic, not shape-bound: names are bound by role (first parameter = the memory; the mutex argument may be `&mem->mutex` or a
local initialised to it), control flow is walked structurally (if/else, while, for, do-while, blocks; a branch that returns does
not join).  Anything outside that fragment (goto, switch, a lock/unlock inside a loop, branches joining with different lock
states, another mutex) is an ExtractFail: the tie is broken, never approximated.
"""
import os
import re

from cfront import ExtractFail

GEN_NAME = "FutexLock"
F = "futex/futex.c"
FUNC = "wasmMemoryAtomicNotify"


def _strip_comments(s):
    s = re.sub(r"/\*.*?\*/", " ", s, flags=re.S)
    return re.sub(r"//[^\n]*", " ", s)


def _function(src, name):
    m = re.search(r"\b" + name + r"\s*\(([^)]*)\)\s*\{", src)
    if not m:
        raise ExtractFail(F, f"definition of {name} not found")
    depth, i = 1, m.end()
    while i < len(src) and depth:
        depth += {"{": 1, "}": -1}.get(src[i], 0)
        i += 1
    if depth:
        raise ExtractFail(F, f"unbalanced braces in {name}")
    params = [p.strip() for p in m.group(1).split(",")]
    pm = re.search(r"(\w+)\s*$", params[0]) if params and params[0] else None
    if not pm or "wasmMemory" not in params[0]:
        raise ExtractFail(F, f"{name}: first parameter is not the wasmMemory")
    return pm.group(1), src[m.end():i - 1]


class _P:
    """statement splitter over the comment-free body text"""

    def __init__(self, text):
        self.s = text
        self.i = 0

    def ws(self):
        while self.i < len(self.s) and self.s[self.i].isspace():
            self.i += 1

    def eof(self):
        self.ws()
        return self.i >= len(self.s)

    def paren(self):
        self.ws()
        if self.i >= len(self.s) or self.s[self.i] != "(":
            raise ExtractFail(F, f"{FUNC}: `(` expected near `{self.s[self.i:self.i + 30]}`")
        d, j = 0, self.i
        while j < len(self.s):
            d += {"(": 1, ")": -1}.get(self.s[j], 0)
            j += 1
            if d == 0:
                break
        if d:
            raise ExtractFail(F, f"{FUNC}: unbalanced parentheses")
        t = self.s[self.i + 1:j - 1]
        self.i = j
        return t

    def kw(self, w):
        self.ws()
        m = re.compile(r"\b" + w + r"\b").match(self.s, self.i)
        if m:
            self.i = m.end()
            return True
        return False

    def stmt(self):
        self.ws()
        if self.s[self.i] == "{":
            self.i += 1
            items = []
            while True:
                self.ws()
                if self.i >= len(self.s):
                    raise ExtractFail(F, f"{FUNC}: unbalanced block")
                if self.s[self.i] == "}":
                    self.i += 1
                    return ("block", items)
                items.append(self.stmt())
        for bad in ("goto", "switch", "case", "default"):
            if self.kw(bad):
                raise ExtractFail(F, f"{FUNC}: `{bad}` is outside the modelled control flow")
        if self.kw("if"):
            c = self.paren()
            a = self.stmt()
            b = self.stmt() if self.kw("else") else None
            return ("if", c, a, b)
        if self.kw("while"):
            c = self.paren()
            return ("loop", [c], self.stmt())
        if self.kw("for"):
            parts = self.paren().split(";")
            if len(parts) != 3:
                raise ExtractFail(F, f"{FUNC}: for header")
            return ("loop", parts, self.stmt())
        if self.kw("do"):
            b = self.stmt()
            if not self.kw("while"):
                raise ExtractFail(F, f"{FUNC}: do without while")
            c = self.paren()
            self.semi()
            return ("loop", [c], b)
        if self.kw("return"):
            return ("return", self.simple())
        return ("simple", self.simple())

    def semi(self):
        self.ws()
        if self.i >= len(self.s) or self.s[self.i] != ";":
            raise ExtractFail(F, f"{FUNC}: `;` expected near `{self.s[self.i:self.i + 30]}`")
        self.i += 1

    def simple(self):
        d, j = 0, self.i
        while j < len(self.s):
            ch = self.s[j]
            if ch in "([":
                d += 1
            elif ch in ")]":
                d -= 1
            elif ch in "{}":
                raise ExtractFail(F, f"{FUNC}: brace inside a simple statement near `{self.s[self.i:j + 10]}`")
            elif ch == ";" and d == 0:
                t = self.s[self.i:j].strip()
                self.i = j + 1
                return t
            j += 1
        raise ExtractFail(F, f"{FUNC}: unterminated statement")


class _Walk:
    def __init__(self, mem):
        self.mem = mem
        self.ev = []
        self.taint = set()
        self.mutex_alias = set()
        self.in_loop = 0

    def mentions_state(self, t):
        if re.search(r"\b" + self.mem + r"\s*->\s*futex\b(?!Free)", t):
            return True
        return any(re.search(r"(?<![\w>.])" + re.escape(v) + r"\b", t) for v in self.taint)

    def is_mutex(self, arg):
        a = re.sub(r"\s+", "", arg)
        return a == f"&{self.mem}->mutex" or a == f"&({self.mem}->mutex)" or a in self.mutex_alias

    def frag(self, t, held):
        """a condition / expression statement / declaration; returns the lock state after it"""
        t = t.strip()
        if not t:
            return held
        m = re.fullmatch(r"(WASM_MUTEX_LOCK|WASM_MUTEX_UNLOCK)\s*\((.*)\)", t, flags=re.S)
        if m:
            if not self.is_mutex(m.group(2)):
                raise ExtractFail(F, f"{FUNC}: `{t}` is not on the memory's mutex")
            if self.in_loop:
                raise ExtractFail(F, f"{FUNC}: `{t}` inside a loop")
            if m.group(1) == "WASM_MUTEX_LOCK":
                if held:
                    raise ExtractFail(F, f"{FUNC}: `{t}` while the mutex is already held")
                self.ev.append(("lock", held))
                return True
            self.ev.append(("unlock", held))
            return False
        if re.search(r"\bWASM_MUTEX_(?!TYPE\b)|\bpthread_mutex_|\bWASM_COND_(?!SIGNAL\b)", t):
            raise ExtractFail(F, f"{FUNC}: `{t}`: mutex / condition operation outside the modelled fragment")
        # assignment or initialised declaration: propagate the taint / the mutex alias
        am = re.match(r"^(?:[\w\s\*]*?[\s\*])?(\w+)\s*=(?!=)(.*)$", t, flags=re.S)
        if am:
            lhs, rhs = am.group(1), am.group(2)
            if self.is_mutex(rhs):
                self.mutex_alias.add(lhs)
            if self.mentions_state(rhs):
                self.taint.add(lhs)
        if re.search(r"\b" + self.mem + r"\s*->\s*shared\b", t):
            self.ev.append(("flag", held))
        if self.mentions_state(t):
            self.ev.append(("state", held))
        return held

    def walk(self, st, held):
        """-> lock state at fall-through, or None when no path falls through"""
        k = st[0]
        if k == "block":
            for s in st[1]:
                if held is None:
                    break                       # unreachable tail
                held = self.walk(s, held)
            return held
        if k == "simple":
            return self.frag(st[1], held)
        if k == "return":
            h = self.frag(st[1], held)
            self.ev.append(("ret", h))
            return None
        if k == "if":
            h = self.frag(st[1], held)
            a = self.walk(st[2], h)
            b = self.walk(st[3], h) if st[3] is not None else h
            if a is None:
                return b
            if b is None:
                return a
            if a != b:
                raise ExtractFail(F, f"{FUNC}: the branches of `if ({st[1].strip()})` join with different lock states")
            return a
        if k == "loop":
            self.in_loop += 1
            h = held
            for c in st[1]:
                h = self.frag(c, h)
            b = self.walk(st[2], h)
            self.in_loop -= 1
            if b is not None and b != held:
                raise ExtractFail(F, f"{FUNC}: loop body changes the lock state")
            return held
        raise ExtractFail(F, f"{FUNC}: statement kind {k}")


def events(repo):
    src = _strip_comments(open(os.path.join(repo, "futex", "futex.c")).read())
    mem, body = _function(src, FUNC)
    p = _P("{" + body + "}")
    tree = p.stmt()
    if not p.eof():
        raise ExtractFail(F, f"{FUNC}: trailing text")
    w = _Walk(mem)
    end = w.walk(tree, False)
    if end is not None:
        raise ExtractFail(F, f"{FUNC}: a path reaches the end of the function without `return`")
    kinds = [k for k, _ in w.ev]
    if "lock" not in kinds or "state" not in kinds or "ret" not in kinds:
        raise ExtractFail(F, f"{FUNC}: no lock / futex-state access / return found (events {w.ev})")
    return w.ev


def generate(repo):
    ev = events(repo)
    L = []
    A = L.append
    A("/- GENERATED by tools/extract/gen_futex_lock.py from /repo/futex/futex.c (wasmMemoryAtomicNotify) — do not edit. -/")
    A("namespace W2c2Verif.Gen.FutexLock")
    A("")
    A("/-- `flag`: read of `mem->shared`; `lock` / `unlock`: WASM_MUTEX_LOCK / UNLOCK on `&mem->mutex`; `state`: a statement or")
    A("    condition that mentions `mem->futex` or a local derived from it (map, wait-list slot, wait node); `ret`: a return -/")
    A("inductive Ev where")
    A("  | flag | lock | unlock | state | ret")
    A("  deriving DecidableEq, Repr")
    A("")
    A("/-- the events of `wasmMemoryAtomicNotify` in textual order; the Bool: the memory's mutex is held on every path reaching it -/")
    A("def notifyEvents : List (Ev × Bool) := [")
    A(",\n".join(f"  (.{k}, {'true' if h else 'false'})" for k, h in ev))
    A("]")
    A("")
    A("end W2c2Verif.Gen.FutexLock")
    return "\n".join(L) + "\n"


if __name__ == "__main__":
    import sys
    print(generate(sys.argv[1] if len(sys.argv) > 1 else "/repo"))
