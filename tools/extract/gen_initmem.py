"""gen_initmem — regenerate lean/W2c2Verif/Gen/InitMem.lean from /repo/w2c2/c.c and /repo/w2c2/w2c2_base.h.

What `<module>InitMemories` contains is decided by three loops of c.c and one header function; all four are extracted
as DATA (any statement, condition, literal or argument outside the shapes below raises ExtractFail = broken tie).  The c.c
functions are read on the NORMAL FORM of tools/extract/cnorm.py, so the facts do not depend on spelling: local names are free,
single-assignment temporaries are substituted, `if (c) continue; S` ≡ `if (!c) { S }`, `if (c) A else B` ≡ `if (!c) B else A`,
switch ≡ if-chain (a guard on the data segment mode is the SET of modes on the path), for ≡ while, `i++` ≡ `i += 1`, literals by value:

  * `wasmCWriteInitMemories`: the per-memory loop (`memLoop`) and the per-data-segment loop (`segLoop`), each
    flattened IN SOURCE ORDER into a list of guarded leaves.  A leaf is `emit <piece>` (one chunk of emitted text:
    a whitespace-free literal `Kw`, or a rendered item — memory reference, `d<k>`, the running `byteOffset`, the
    offset constant expression, a length, …) or `advance` (`byteOffset += dataSegment.bytes.length`).  A guard is the
    conjunction of the conditions on the path to the leaf: `memory.shared`, `dataSegment.passive`,
    `code.data != NULL`, and the `switch (dataSegmentMode)` case labels.  `if (pretty)` only changes white space
    (both branches must emit the same pieces; an `if (pretty)` without else must emit nothing but indentation).
    No leaf changes anything a guard reads, so the flattening preserves the meaning.  Also checked: the loops run
    over ALL memories / ALL segments from index 0 upwards, `byteOffset` starts at 0 outside the loop.
  * `wasmCWriteDataSegmentsFromSection`: which segments' bytes go into the `datasegments` blob (`blobLoop`) and that
    `ds` is the start of that blob in each of the three external modes.
  * `wasmCWriteDataSegments`, arrays case: which segments get a `const U8 d<k>[]` array (`arrayLoop`).
  * `wasmMemoryAllocate` (w2c2_base.h, little endian + pthreads configuration): the scalar locals and the descriptor
    field assignments in source order as `MStep`s (`allocSteps`), the byte count passed to calloc for the data block
    (`allocDataBytes`), and the expansion of WASM_MEMORY_ALLOCATE_SHARED (`allocSharedArgs`).
"""
import os
import re

from cfront import ExtractFail, Var, IntLit, Cast, Un, Bin, Cond, Call, Member, AssignE, toks_text, lean_str
import gen_macros
import gen_memfuncs
from gen_instantiate import strip_comments, function_body

GEN_NAME = "InitMem"
C = "w2c2/c.c"
H = "w2c2/w2c2_base.h"

KW = [("if(parent==NULL){", "ifParentNull"), ("=WASM_MEMORY_ALLOCATE_SHARED(", "allocSharedOpen"), (",", "comma"),
      (");", "closeSemi"), ("}else{", "elseOpen"), ("=", "assign"), (";", "semi"), ("}", "closeBrace"),
      ("=wasmMemoryAllocate(", "allocOpen"), (",false);", "falseCloseSemi"), ("LOAD_DATA(", "loadDataOpen"),
      (",ds+", "commaDsPlus"), ("=ds+", "assignDsPlus")]
KW_OF = dict(KW)
MODES = [("wasmDataSegmentModeArrays", "arrays"), ("wasmDataSegmentModeGNULD", "gnuld"),
         ("wasmDataSegmentModeSectcreate1", "sectcreate1"), ("wasmDataSegmentModeSectcreate2", "sectcreate2")]
MODE_OF = dict(MODES)
CONDS = {"memory.shared": "memShared", "dataSegment.passive": "segPassive", "code.data!=NULL": "segHasOffset"}


def nows(s):
    return re.sub(r"\s+", "", s)


# ------------------------------------------------------------------------------- leaves
def c_unescape(s):
    return s.replace("\\n", "\n").replace("\\t", "\t").replace('\\"', '"').replace("\\\\", "\\")


def literal_pieces(lit, where):
    t = nows(c_unescape(lit))
    if not t:
        return []
    if t not in KW_OF:
        raise ExtractFail(where, "emitted literal `%s` is not a known chunk of InitMemories" % lit)
    return [".emit (.kw .%s)" % KW_OF[t]]


def fuse_offset(leaves, where):
    """`MUST(wasmCWriteConstantExpr(&sb, module, code))` immediately followed (same guards) by `fputs(sb.string, file)`
    = the offset expression is emitted there"""
    out = []
    pending = None
    for g, x in leaves:
        if x == "%pending-offset":
            if pending is not None:
                raise ExtractFail(where, "offset expression rendered twice")
            pending = g
        elif x == "%flush-offset":
            if pending is None or pending != g:
                raise ExtractFail(where, "stringBuilder is flushed without / under other conditions than the offset expression")
            out.append((g, ".emit .offsetExpr"))
            pending = None
        else:
            if pending is not None:
                raise ExtractFail(where, "something is emitted between rendering and flushing the offset expression")
            out.append((g, x))
    if pending is not None:
        raise ExtractFail(where, "offset expression rendered but never written")
    return out


# ------------------------------------------------------------------------------- wasmCWriteInitMemories on the normal form (cnorm)
N_MEM = "module->memories.memories[$i0]"
N_SEG = "module->dataSegments.dataSegments[$i0]"
N_MIDX = ("(assertSizeU32(module->memoryImports.length)+$i0)", "assertSizeU32(module->memoryImports.length)+$i0",
          "($i0+assertSizeU32(module->memoryImports.length))", "$i0+assertSizeU32(module->memoryImports.length)")
N_CONDS = {N_MEM + ".shared": ("memShared", "mem"), N_SEG + ".passive": ("segPassive", "seg"), N_SEG + ".offset.data": ("segHasOffset", "seg")}
ALL_MODES = [m for _, m in MODES]


def n_mode_set(c, where):
    """condition on dataSegmentMode -> set of modes it selects, None if the condition is about something else"""
    if isinstance(c, tuple) and c[0] == "or":
        sets = [n_mode_set(x, where) if p else None for x, p in c[1]]
        if any(x is None for x in sets):
            if all(x is None for x in sets):
                return None
            raise ExtractFail(where, "condition mixes the data segment mode with something else: %r" % (c,))
        return set().union(*sets)
    if isinstance(c, str):
        m = re.fullmatch(r"dataSegmentMode==(\w+)", c) or re.fullmatch(r"(\w+)==dataSegmentMode", c)
        if m:
            if m.group(1) not in MODE_OF:
                raise ExtractFail(where, "case label `%s` is not a data segment mode" % m.group(1))
            return {MODE_OF[m.group(1)]}
    return None


def n_leaf(text, where, loop, sb, bo):
    """one `do` statement (canonical text) of the memory loop ('mem') / data segment loop ('seg') -> leaf terms"""
    if text in ("fputs(indentation,file)", "MUST(stringBuilderReset(&%s))" % sb):
        return []
    m = re.fullmatch(r'fputs\("((?:[^"\\]|\\.)*)",file\)', text, re.S)
    if m:
        return literal_pieces(m.group(1), where)
    m = re.fullmatch(r"fputc\((\d+),file\)", text)
    if m:
        return literal_pieces(chr(int(m.group(1))), where)
    m = re.fullmatch(r"fprintf\((.*)\)", text, re.S)
    if m:
        import cnorm
        args = [x.strip() for x in cnorm._split_top(m.group(1), ",")]
        if len(args) < 2 or args[0] != "file" or not re.fullmatch(r'"(?:[^"\\]|\\.)*"', args[1], re.S):
            raise ExtractFail(where, "fprintf of an unexpected shape: %s" % text[:60])
        fmt = args[1][1:-1]
        rest = args[2:]
        table = {("%llu", bo): "byteOffset", ("%u", N_MEM + ".min"): "memMin", ("%u", N_MEM + ".max"): "memMax",
                 ("%lu", "(unsigned long)" + N_SEG + ".bytes.length"): "segLen"}
        out = []
        pos = 0
        for sm in re.finditer(r"%(llu|lu|u|s|d|x)", fmt):
            out += literal_pieces(fmt[pos:sm.start()], where)
            pos = sm.end()
            if not rest:
                raise ExtractFail(where, "fprintf: more conversions than arguments")
            a = rest.pop(0)
            key = (sm.group(0), a)
            if key not in table or (table[key] in ("memMin", "memMax")) != (loop == "mem"):
                raise ExtractFail(where, "fprintf conversion `%s` of `%s` is not a known item of InitMemories" % key)
            out.append(".emit .%s" % table[key])
        out += literal_pieces(fmt[pos:], where)
        if rest:
            raise ExtractFail(where, "fprintf: more arguments than conversions")
        return out
    if loop == "mem":
        for mi in N_MIDX:
            if text == "wasmCWriteFileMemoryUse(file,module,%s,NULL,true)" % mi:
                return [".emit .memRef"]
            if text == 'wasmCWriteFileMemoryUse(file,module,%s,"parent",true)' % mi:
                return [".emit .memRefParent"]
    if loop == "seg":
        if text == "wasmCWriteFileMemoryUse(file,module,%s.memoryIndex,NULL,false)" % N_SEG:
            return [".emit .segMemUse"]
        if text == "wasmCWriteFileDataSegmentName(file,$i0)":
            return [".emit .segName"]
        if text == "MUST(wasmCWriteConstantExpr(&%s,module,%s.offset))" % (sb, N_SEG):
            return ["%pending-offset"]
        if text == "fputs(%s.string,file)" % sb:
            return ["%flush-offset"]
        if bo is not None and text == "%s+=%s.bytes.length" % (bo, N_SEG):
            return [".advance"]
    raise ExtractFail(where, "statement outside the accepted shapes of the emitter loops: %s" % text[:90])


def n_guards(path):
    """guard path -> Lean guard terms; consecutive restrictions of the mode are one `.modeIn`"""
    out = []
    for g in path:
        if g[0] == "mode":
            if out and out[-1][0] == "mode":
                out[-1] = ("mode", out[-1][1] & g[1])
            else:
                out.append(("mode", set(g[1])))
        else:
            out.append(g)
    terms = []
    for g in out:
        if g[0] == "mode":
            terms.append(".modeIn [%s]" % ", ".join("." + m for m in ALL_MODES_ORDER(g[1])))
        else:
            terms.append(".%s %s" % (g[1], "true" if g[2] else "false"))
    return terms


def ALL_MODES_ORDER(ms):
    order = ["gnuld", "sectcreate1", "sectcreate2", "arrays"]          # the order the switch lists them; a set has no order of its own
    return [m for m in order if m in ms]


def n_flatten(nodes, path, modes, where, loop, sb, bo, out):
    for nd in nodes:
        if nd[0] == "do":
            for x in n_leaf(nd[1], where, loop, sb, bo):
                out.append((n_guards(path), x))
        elif nd[0] == "if":
            c = nd[1]
            if c == "pretty":
                a, b = [], []
                n_flatten(nd[2], [], modes, where, loop, sb, bo, a)
                n_flatten(nd[3], [], modes, where, loop, sb, bo, b)
                if nd[3]:
                    if a != b:
                        raise ExtractFail(where, "`if (pretty)` branches emit different items: %r vs %r" % (a, b))
                    for g, x in a:
                        out.append((n_guards(path) + g, x))
                elif a:
                    raise ExtractFail(where, "`if (pretty)` without else emits more than indentation: %r" % (a,))
                continue
            ms = n_mode_set(c, where)
            if ms is not None:
                n_flatten(nd[2], path + [("mode", modes & ms)], modes & ms, where, loop, sb, bo, out)
                n_flatten(nd[3], path + [("mode", modes - ms)], modes - ms, where, loop, sb, bo, out)
                continue
            if not isinstance(c, str) or c not in N_CONDS or N_CONDS[c][1] != loop:
                raise ExtractFail(where, "condition `%s` is not a known module-shape test" % (c,))
            n_flatten(nd[2], path + [("cond", N_CONDS[c][0], True)], modes, where, loop, sb, bo, out)
            n_flatten(nd[3], path + [("cond", N_CONDS[c][0], False)], modes, where, loop, sb, bo, out)
        else:
            raise ExtractFail(where, "`%s` statement inside an emitter loop" % nd[0])


def init_memories_loops(src):
    import cnorm
    body, line = function_body(src, "wasmCWriteInitMemories", C)
    where = "%s:%d" % (C, line)
    nodes = cnorm.normalize(body, where)
    if len(nodes) != 2 or nodes[0][0] != "if" or nodes[0][3] or nodes[1] != ("return", "true"):
        raise ExtractFail(where, "wasmCWriteInitMemories is not one guarded definition")
    g = nodes[0][1]
    atoms = sorted(x for x, p in g[1]) if isinstance(g, tuple) and g[0] == "or" and all(p for _, p in g[1]) else None
    if atoms != ["0<module->dataSegments.count", "0<module->memories.count"]:
        raise ExtractFail(where, "outer guard of the InitMemories definition changed: %r" % (g,))
    inner = list(nodes[0][2])
    sb = None
    for nd in inner:
        m = re.fullmatch(r"(\$v\d+)=emptyStringBuilder", nd[1]) if nd[0] == "do" else None
        if m:
            sb = m.group(1)
    if sb is None:
        raise ExtractFail(where, "no string builder")
    skip = ("%s=emptyStringBuilder" % sb, "MUST(stringBuilderInitialize(&%s))" % sb, "stringBuilderFree(&%s)" % sb)
    inner = [nd for nd in inner if not (nd[0] == "do" and nd[1] in skip)]
    if not inner or inner[0] != ("do", 'fprintf(file,"static void %sInitMemories(%sInstance* i, %sInstance* parent) {\\n",moduleName,moduleName,moduleName)'):
        raise ExtractFail(where, "InitMemories header line changed")
    if inner[-1] != ("do", 'fputs("}\\n\\n",file)'):
        raise ExtractFail(where, "closing brace of InitMemories not found")
    mid = inner[1:-1]
    # memory loop, [byteOffset = 0], data segment loop
    if len(mid) != 3 or mid[0][0] != "loop" or mid[2][0] != "loop" or mid[1][0] != "do" or not re.fullmatch(r"\$v\d+=0", mid[1][1]):
        raise ExtractFail(where, "expected: loop over the memories, byteOffset = 0, loop over the data segments")
    bo = mid[1][1].split("=")[0]
    if mid[0][1:4] != ("$i0", "0", "module->memories.count"):
        raise ExtractFail(where, "memory loop does not run over ALL defined memories from index 0: %r" % (mid[0][1:4],))
    if mid[2][1:4] != ("$i0", "0", "module->dataSegments.count"):
        raise ExtractFail(where, "data segment loop does not run over ALL segments from index 0: %r" % (mid[2][1:4],))
    mleaves, sleaves = [], []
    n_flatten(mid[0][4], [], set(ALL_MODES), where, "mem", sb, None, mleaves)
    n_flatten(mid[2][4], [], set(ALL_MODES), where, "seg", sb, bo, sleaves)
    sleaves = fuse_offset(sleaves, where)
    if [x for g, x in sleaves].count(".advance") != 1:
        raise ExtractFail(where, "byteOffset is not advanced exactly once per segment")
    return mleaves, sleaves


def _walk_nodes(nodes):
    for nd in nodes:
        yield nd
        if nd[0] == "if":
            for x in _walk_nodes(nd[2] + nd[3]):
                yield x
        elif nd[0] == "loop":
            for x in _walk_nodes(nd[4]):
                yield x
        elif nd[0] == "while":
            for x in _walk_nodes(nd[2]):
                yield x


def _mode_branches(nodes, var, where):
    """if-chain / switch on `var` at the top of `nodes` -> {mode: node list}, the nodes after it"""
    out = {}

    def chain(nd, left):
        c = nd[1]
        ms = set()
        for x, pos in (c[1] if isinstance(c, tuple) and c[0] == "or" else ((c, True),)):
            m = re.fullmatch(re.escape(var) + r"==(\w+)", x) if isinstance(x, str) and pos else None
            if not m or m.group(1) not in MODE_OF:
                raise ExtractFail(where, "condition %r is not a test of the data segment mode" % (c,))
            ms.add(MODE_OF[m.group(1)])
        for mo in ms:
            if mo in out:
                raise ExtractFail(where, "mode `%s` handled twice" % mo)
            out[mo] = nd[2]
        rest = nd[3]
        if len(rest) == 1 and rest[0][0] == "if" and not isinstance(rest[0][1], tuple) or (len(rest) == 1 and rest[0][0] == "if" and isinstance(rest[0][1], tuple) and rest[0][1][0] == "or"):
            try:
                chain(rest[0], left)
                return
            except ExtractFail:
                pass
        out["default"] = rest
    k = 0
    while k < len(nodes) and nodes[k][0] == "do" and re.fullmatch(r"\$v\d+=[\w$]+", nodes[k][1]):
        k += 1              # initialisations of locals (loop counter, file handle)
    if k >= len(nodes) or nodes[k][0] != "if":
        raise ExtractFail(where, "no dispatch on the data segment mode")
    chain(nodes[k], None)
    return out, nodes[:k] + nodes[k + 1:]


def blob_loop(src):
    import cnorm
    body, line = function_body(src, "wasmCWriteDataSegmentsFromSection", C)
    where = "%s:%d" % (C, line)
    nodes = cnorm.normalize(body, where)
    br, rest = _mode_branches(nodes, "mode", where)
    decl = {"gnuld": ['fputs("extern U8 _binary_datasegments_start[];\\n\\n",file)', 'fputs("static U8* ds = _binary_datasegments_start;\\n",file)'],
            "sectcreate1": ['fputs("extern U8 data_segments_data __asm(\\"section$start$__DATA$__datasegments\\");\\n\\n",file)', 'fputs("static U8* ds = &data_segments_data;\\n",file)']}
    for mo, want in decl.items():
        if [x[1] for x in br.get(mo, []) if x[0] == "do"] != want:
            raise ExtractFail(where, "%s: `ds` is no longer declared as the start of the datasegments blob" % mo)
    s2 = [x[1] for x in br.get("sectcreate2", []) if x[0] == "do"]
    if not s2 or 'static char* ds = getsectdata(\\"__DATA\\", \\"__datasegments\\", &len);\\n' not in s2[-1]:
        raise ExtractFail(where, "sectcreate2: `ds` is no longer getsectdata(__DATA, __datasegments)")
    if "arrays" in br:
        raise ExtractFail(where, "the blob writer handles the arrays mode")
    # the file, the loop over all segments, exactly one fwrite of all bytes of the segment per pass
    fvar = None
    for nd in rest:
        m = re.fullmatch(r'(\$v\d+)=fopen\("datasegments","wb"\)', nd[1]) if nd[0] == "do" else None
        if m:
            fvar = m.group(1)
    if fvar is None:
        raise ExtractFail(where, "the blob is no longer written to the file `datasegments`")
    loops_ = [nd for nd in rest if nd[0] in ("loop", "while")]
    if len(loops_) != 1 or loops_[0][0] != "loop" or loops_[0][1:4] != ("$i0", "0", "module->dataSegments.count"):
        raise ExtractFail(where, "blob loop does not run over all segments from index 0")
    leaves = []
    seg = "module->dataSegments.dataSegments[$i0]"
    for nd in loops_[0][4]:
        if nd[0] == "do" and re.fullmatch(r"\$v\d+=fwrite\(%s\.bytes\.data,1,%s\.bytes\.length,%s\)" % (re.escape(seg), re.escape(seg), re.escape(fvar)), nd[1]):
            leaves.append(([], ".writeBytes"))
            wv = nd[1].split("=")[0]
            continue
        if nd[0] == "if" and leaves and nd[1] == "%s==%s.bytes.length" % (wv, seg) and not nd[2] and nd[3] and nd[3][-1] == ("do", "abort()"):
            continue
        raise ExtractFail(where, "blob loop: statement outside the accepted shapes: %r" % (nd[:2],))
    if len(leaves) != 1:
        raise ExtractFail(where, "blob loop does not write the segment bytes exactly once")
    return leaves


def array_loop(src):
    import cnorm
    body, line = function_body(src, "wasmCWriteDataSegments", C)
    where = "%s:%d" % (C, line)
    nodes = cnorm.normalize(body, where)
    br, rest = _mode_branches(nodes, "mode", where)
    arr = br.get("arrays")
    if arr is None:
        raise ExtractFail(where, "arrays case not found")
    if len(arr) != 1 or arr[0][0] != "loop" or arr[0][1:4] != ("$i1", "0", "module->dataSegments.count"):
        raise ExtractFail(where, "array loop does not run over all data segments from index 0")
    seg = "module->dataSegments.dataSegments[$i1]"
    allowed = ("pretty", "DATA_SEGMENT_CHUNK_LENGTH<%s.bytes.length" % seg, "0<$i0", "$i0%DATA_SEGMENT_CHUNK_LENGTH", "%s.bytes.data[$i0]<10" % seg)
    inner = None
    for nd in _walk_nodes(arr[0][4]):
        if nd[0] in ("continue", "break", "return", "while"):
            raise ExtractFail(where, "array loop: `%s` (a segment or a byte may be skipped)" % nd[0])
        if nd[0] == "if" and nd[1] not in allowed:
            raise ExtractFail(where, "array loop: condition %r" % (nd[1],))
        if nd[0] == "loop":
            if inner is not None or nd[1:4] != ("$i0", "0", seg + ".bytes.length"):
                raise ExtractFail(where, "array loop: the byte loop does not run over all bytes of the segment")
            inner = nd
    dos = [nd[1] for nd in arr[0][4] if nd[0] == "do"]
    if dos[:2] != ['fputs("const U8 ",file)', "wasmCWriteFileDataSegmentName(file,$i1)"] or inner is None:
        raise ExtractFail(where, "array loop: `const U8 d<k>[]` declaration / byte loop not found")
    val = "%s.bytes.data[$i0]" % seg
    want = ("if", val + "<10", [("do", 'fprintf(file,"%%u",%s)' % val)], [("do", 'fprintf(file,"0x%%x",%s)' % val)])
    if want not in inner[4]:
        raise ExtractFail(where, "array loop: every byte is no longer printed as %u / 0x%x")
    return [([], ".defineArray")]


# ------------------------------------------------------------------------------- wasmMemoryAllocate
def alloc_steps(view):
    fs = view.funcs()
    if "wasmMemoryAllocate" not in fs:
        raise ExtractFail(H, "wasmMemoryAllocate not found")
    f = fs["wasmMemoryAllocate"]
    where = "%s:%d" % (H, f.line)
    _, params = gen_memfuncs.parse_params(f, where)
    if [n for n, _ in params] != ["initialPages", "maxPages", "shared"]:
        raise ExtractFail(where, "wasmMemoryAllocate(initialPages, maxPages, shared) expected")
    fl = gen_memfuncs.Flattener(where, "memory", params)
    steps = []
    data_bytes = None
    seen_desc = False

    def is_field(e, name):
        return isinstance(e, Member) and e.arrow and isinstance(e.e, Var) and e.e.n == "memory" and e.name == name
    items = gen_memfuncs.body_items(f, where)
    for n, s in enumerate(items):
        if s[0] == "decl" and s[2] in (("u32", 0), ("i32", 0)):
            pre = []
            e = fl.expr(s[3], pre)
            if pre:
                raise ExtractFail(where, "local initialiser reads the descriptor")
            steps.append(".set %d %s" % (fl.declare(s[1], s[2]), e))
        elif s[0] == "decl" and s[1] == "memory" and s[2] == ("wasmMemory", 1):
            e = s[3]
            if not (isinstance(e, Cast) and isinstance(e.e, Call) and e.e.f == "calloc" and len(e.e.args) == 2
                    and isinstance(e.e.args[0], IntLit) and e.e.args[0].value == 1):
                raise ExtractFail(where, "the descriptor is not calloc(1, sizeof(wasmMemory))")
            seen_desc = True
        elif s[0] == "if" and isinstance(s[1], Un) and s[1].op == "lnot" and isinstance(s[1].e, Var) and s[1].e.n == "memory":
            continue          # if (!memory) abort();
        elif s[0] == "expr" and isinstance(s[1], AssignE) and s[1].op == "=" and is_field(s[1].lhs, "data"):
            e = s[1].rhs
            if not (isinstance(e, Cast) and isinstance(e.e, Call) and e.e.f == "calloc" and len(e.e.args) == 2
                    and isinstance(e.e.args[1], IntLit) and e.e.args[1].value == 1):
                raise ExtractFail(where, "memory->data is not calloc(<bytes>, 1) (fresh memories must be zeroed)")
            pre = []
            data_bytes = fl.expr(e.e.args[0], pre)
            if pre:
                raise ExtractFail(where, "data size reads the descriptor")
        elif s[0] == "expr" and isinstance(s[1], AssignE) and s[1].op == "=" and isinstance(s[1].lhs, Member) and s[1].lhs.arrow \
                and isinstance(s[1].lhs.e, Var) and s[1].lhs.e.n == "memory":
            name = s[1].lhs.name
            if name in ("futex", "futexFree"):
                continue
            if name not in ("size", "pages", "maxPages", "shared"):
                raise ExtractFail(where, "assignment to descriptor field `%s` is not modelled" % name)
            pre = []
            e = fl.expr(s[1].rhs, pre)
            if pre:
                raise ExtractFail(where, "descriptor initialiser reads the descriptor")
            steps.append(".write .%s %s" % (name, e))
        elif s[0] == "if" and isinstance(s[1], Var) and s[1].n == "shared":
            continue          # mutex initialisation of a shared memory (or abort without a threads implementation)
        elif s[0] == "ret" and isinstance(s[1], Var) and s[1].n == "memory" and n == len(items) - 1:
            continue
        else:
            raise ExtractFail(where, "wasmMemoryAllocate: statement %d (%s) is outside the accepted shapes" % (n, s[0]))
    written = [re.match(r"\.write \.(\w+)", x).group(1) for x in steps if x.startswith(".write")]
    if sorted(written) != ["maxPages", "pages", "shared", "size"] or data_bytes is None or not seen_desc:
        raise ExtractFail(where, "wasmMemoryAllocate: each of size/pages/maxPages/shared must be assigned exactly once, data calloc'ed")
    # the macro used for shared memories
    try:
        exp = nows(toks_text(view.expand_call("WASM_MEMORY_ALLOCATE_SHARED", ["A", "B"])))
    except Exception as ex:          # noqa: BLE001
        raise ExtractFail(H, "cannot expand WASM_MEMORY_ALLOCATE_SHARED: %s" % ex)
    if exp != "wasmMemoryAllocate(A,B,true)":
        raise ExtractFail(H, "WASM_MEMORY_ALLOCATE_SHARED(a, b) no longer expands to wasmMemoryAllocate(a, b, true): %s" % exp)
    return fl.regs, steps, data_bytes, toks_text(f.body_toks)


# ------------------------------------------------------------------------------- output
def lean_guarded(name, doc, leaves, ty="Leaf"):
    rows = ",\n".join("  ([%s], %s)" % (", ".join(g), x) for g, x in leaves)
    return "/-- %s -/\ndef %s : List (List Guard × %s) := [\n%s\n]" % (doc, name, ty, rows)


def generate(repo):
    src = strip_comments(open(os.path.join(repo, "w2c2", "c.c")).read())
    mleaves, sleaves = init_memories_loops(src)
    bleaves = blob_loop(src)
    aleaves = array_loop(src)
    view = gen_macros.HeaderView(os.path.join(repo, "w2c2", "w2c2_base.h"), gen_macros.configs()["le"])
    aregs, asteps, abytes, asrc = alloc_steps(view)
    out = ["/- GENERATED by tools/extract/gen_initmem.py from w2c2/c.c and w2c2/w2c2_base.h — do not edit. -/",
           "import W2c2Verif.Model.ConcBase",
           "namespace W2c2Verif.Gen.InitMem",
           "open W2c2Verif.Model",
           "",
           "/-- `-d` data segment modes -/",
           "inductive DMode | " + " | ".join(m for _, m in MODES),
           "  deriving DecidableEq, Repr, Inhabited",
           "",
           "/-- the literal text chunks (white space removed) that the two loops of `wasmCWriteInitMemories` print -/",
           "inductive Kw | " + " | ".join(k for _, k in KW),
           "  deriving DecidableEq, Repr, Inhabited",
           "",
           "def Kw.text : Kw → String"]
    for t, k in KW:
        out.append("  | .%s => %s" % (k, lean_str(t)))
    out += ["",
            "/-- one chunk of emitted text -/",
            "inductive Piece",
            "  | kw (k : Kw)",
            "  | memRef            -- wasmCWriteFileMemoryUse(file, module, moduleMemoryIndex, NULL, true): `i-><memory>`",
            "  | memRefParent      -- … \"parent\", true: `parent-><memory>`",
            "  | memMin | memMax   -- %u of memory.min / memory.max",
            "  | segName           -- wasmCWriteFileDataSegmentName(file, dataSegmentIndex): `d<k>`",
            "  | byteOffset        -- %llu of the running byteOffset",
            "  | segMemUse         -- wasmCWriteFileMemoryUse(file, module, dataSegment.memoryIndex, NULL, false): `(*i-><memory>)`",
            "  | offsetExpr        -- wasmCWriteConstantExpr of dataSegment.offset",
            "  | segLen            -- %lu of dataSegment.bytes.length",
            "  deriving DecidableEq, Repr, Inhabited",
            "",
            "inductive Leaf",
            "  | emit (p : Piece)",
            "  | advance           -- byteOffset += dataSegment.bytes.length",
            "  | writeBytes        -- fwrite(dataSegment.bytes.data, 1, dataSegment.bytes.length, <datasegments file>)",
            "  | defineArray       -- const U8 d<k>[] = { every byte of dataSegment.bytes }",
            "  deriving DecidableEq, Repr, Inhabited",
            "",
            "/-- one condition on the path to a leaf -/",
            "inductive Guard",
            "  | memShared (b : Bool)       -- memory.shared",
            "  | segPassive (b : Bool)      -- dataSegment.passive",
            "  | segHasOffset (b : Bool)    -- dataSegment.offset.data != NULL",
            "  | modeIn (ms : List DMode)   -- case labels of `switch (dataSegmentMode)`",
            "  deriving DecidableEq, Repr, Inhabited",
            "",
            lean_guarded("memLoop", "`wasmCWriteInitMemories`: body of the loop over ALL defined memories, index 0 upwards", mleaves),
            "",
            lean_guarded("segLoop", "`wasmCWriteInitMemories`: body of the loop over ALL data segments, index 0 upwards; `byteOffset` starts at 0", sleaves),
            "",
            lean_guarded("blobLoop", "`wasmCWriteDataSegmentsFromSection`: body of the loop over ALL data segments that writes the file `datasegments`; "
                         "`ds` is the start of that blob in the gnu-ld / sectcreate1 / sectcreate2 modes", bleaves),
            "",
            lean_guarded("arrayLoop", "`wasmCWriteDataSegments`, arrays mode: body of the loop over ALL data segments", aleaves),
            "",
            "/-- registers of `wasmMemoryAllocate`: parameters, then scalar locals in declaration order -/",
            "def allocRegs : List String := [" + ", ".join(lean_str(r) for r in aregs) + "]",
            "",
            "/-- `wasmMemoryAllocate`: scalar locals and descriptor field assignments in source order:",
            "    `" + asrc.replace("-/", "- /") + "` -/",
            "def allocSteps : List MStep := [\n" + ",\n".join("  " + s for s in asteps) + "\n]",
            "",
            "/-- bytes requested from calloc for the data block -/",
            "def allocDataBytes : MExpr := " + abytes,
            "",
            "/-- `WASM_MEMORY_ALLOCATE_SHARED(a, b)` = `wasmMemoryAllocate(a, b, true)` (value of the `shared` argument) -/",
            "def allocSharedFlag : Nat := 1",
            "",
            "end W2c2Verif.Gen.InitMem"]
    return "\n".join(out) + "\n"


if __name__ == "__main__":
    import sys
    try:
        sys.stdout.write(generate(sys.argv[1] if len(sys.argv) > 1 else "/repo"))
    except ExtractFail as e:
        print(str(e), file=sys.stderr)
        sys.exit(3)
