"""gen_initmem — regenerate lean/W2c2Verif/Gen/InitMem.lean from /repo/w2c2/c.c and /repo/w2c2/w2c2_base.h.

What `<module>InitMemories` contains is decided by three loops of c.c and one header function; all four are extracted
as DATA (any statement, condition, literal or argument outside the shapes below raises ExtractFail = broken tie):

  * `wasmCWriteInitMemories`: the per-memory loop (`memLoop`) and the per-data-segment loop (`segLoop`), each
    flattened IN SOURCE ORDER into a list of guarded leaves.  A leaf is `emit <piece>` (one chunk of emitted text:
    a whitespace-free literal `Kw`, or a rendered item — memory reference, `d<k>`, the running `byteOffset`, the
    offset constant expression, a length, …) or `advance` (`byteOffset += dataSegment.bytes.length`).  A guard is the
    conjunction of the conditions on the path to the leaf: `memory.shared`, `dataSegment.passive`,
    `code.data != NULL`, and the `switch (dataSegmentMode)` case labels.  `if (pretty)` only changes white space
    (both branches must emit the same pieces; an `if (pretty)` without else must emit nothing but indentation).
    No leaf changes anything a guard reads, so the flattening preserves the meaning.  Also checked: the loops run
    over ALL memories / ALL segments from index 0 upwards, `byteOffset` starts at 0 outside the loop.
  * `wasmCWriteDataSegmentsFromSection`: which segments' bytes go into the `datasegments` blob (`blobLoop`) and that
    `ds` is the start of that blob in each of the three external modes.
  * `wasmCWriteDataSegments`, arrays case: which segments get a `const U8 d<k>[]` array (`arrayLoop`).
  * `wasmMemoryAllocate` (w2c2_base.h, little endian + pthreads configuration): the scalar locals and the descriptor
    field assignments in source order as `MStep`s (`allocSteps`), the byte count passed to calloc for the data block
    (`allocDataBytes`), and the expansion of WASM_MEMORY_ALLOCATE_SHARED (`allocSharedArgs`).
"""
import os
import re

from cfront import ExtractFail, Var, IntLit, Cast, Un, Bin, Cond, Call, Member, AssignE, toks_text, lean_str
import gen_macros
import gen_memfuncs
from gen_instantiate import strip_comments, function_body

GEN_NAME = "InitMem"
C = "w2c2/c.c"
H = "w2c2/w2c2_base.h"

KW = [("if(parent==NULL){", "ifParentNull"), ("=WASM_MEMORY_ALLOCATE_SHARED(", "allocSharedOpen"), (",", "comma"),
      (");", "closeSemi"), ("}else{", "elseOpen"), ("=", "assign"), (";", "semi"), ("}", "closeBrace"),
      ("=wasmMemoryAllocate(", "allocOpen"), (",false);", "falseCloseSemi"), ("LOAD_DATA(", "loadDataOpen"),
      (",ds+", "commaDsPlus"), ("=ds+", "assignDsPlus")]
KW_OF = dict(KW)
MODES = [("wasmDataSegmentModeArrays", "arrays"), ("wasmDataSegmentModeGNULD", "gnuld"),
         ("wasmDataSegmentModeSectcreate1", "sectcreate1"), ("wasmDataSegmentModeSectcreate2", "sectcreate2")]
MODE_OF = dict(MODES)
CONDS = {"memory.shared": "memShared", "dataSegment.passive": "segPassive", "code.data!=NULL": "segHasOffset"}


def nows(s):
    return re.sub(r"\s+", "", s)


# ------------------------------------------------------------------------------- a small statement-tree parser
def _skip_ws(t, k):
    while k < len(t) and t[k].isspace():
        k += 1
    return k


def _match(t, k, open_c, close_c, where):
    """index just after the bracket matching t[k] (strings / char literals skipped)"""
    assert t[k] == open_c
    depth = 0
    n = len(t)
    while k < n:
        c = t[k]
        if c == '"' or c == "'":
            q = c
            k += 1
            while k < n and t[k] != q:
                if t[k] == "\\":
                    k += 1
                k += 1
        elif c == open_c:
            depth += 1
        elif c == close_c:
            depth -= 1
            if depth == 0:
                return k + 1
        k += 1
    raise ExtractFail(where, "unbalanced %s%s" % (open_c, close_c))


def parse_stmts(t, where):
    """statement list -> [('if', cond, then, else|None) | ('switch', expr, [([labels], stmts)]) | ('for', head, body)
    | ('block', stmts) | ('stmt', text)]"""
    out = []
    k = 0
    n = len(t)
    while True:
        k = _skip_ws(t, k)
        if k >= n:
            return out
        st, k = parse_stmt(t, k, where)
        out.append(st)


def parse_stmt(t, k, where):
    k = _skip_ws(t, k)
    m = re.match(r"(if|switch|for|while|do|else|case|default|goto)\b", t[k:])
    kw = m.group(1) if m else None
    if t[k] == "{":
        e = _match(t, k, "{", "}", where)
        return ("block", parse_stmts(t[k + 1:e - 1], where)), e
    if kw in ("if", "switch", "for"):
        p = _skip_ws(t, k + len(kw))
        if t[p] != "(":
            raise ExtractFail(where, "`%s` without parenthesis" % kw)
        pe = _match(t, p, "(", ")", where)
        head = t[p + 1:pe - 1]
        if kw == "switch":
            b = _skip_ws(t, pe)
            if t[b] != "{":
                raise ExtractFail(where, "switch without block")
            be = _match(t, b, "{", "}", where)
            return ("switch", head, parse_cases(t[b + 1:be - 1], where)), be
        body, e = parse_stmt(t, pe, where)
        if kw == "for":
            return ("for", head, body), e
        q = _skip_ws(t, e)
        if re.match(r"else\b", t[q:]):
            eb, e2 = parse_stmt(t, q + 4, where)
            return ("if", head, body, eb), e2
        return ("if", head, body, None), e
    if kw is not None:
        raise ExtractFail(where, "statement keyword `%s` is outside the accepted shapes" % kw)
    # plain statement up to `;` at depth 0
    j = k
    n = len(t)
    depth = 0
    while j < n:
        c = t[j]
        if c == '"' or c == "'":
            q = c
            j += 1
            while j < n and t[j] != q:
                if t[j] == "\\":
                    j += 1
                j += 1
        elif c in "({[":
            depth += 1
        elif c in ")}]":
            depth -= 1
        elif c == ";" and depth == 0:
            return ("stmt", t[k:j].strip()), j + 1
        j += 1
    # `MUST (…)` macro calls have no semicolon: a statement that is exactly one call
    txt = t[k:].strip()
    raise ExtractFail(where, "statement without `;`: %s" % txt[:60])


def parse_cases(t, where):
    """[([labels], stmts)]; every group must end in `break;` (fall-through between non-empty groups is rejected)"""
    groups = []
    k = 0
    n = len(t)
    labels = []
    while True:
        k = _skip_ws(t, k)
        if k >= n:
            break
        m = re.match(r"case\s+(\w+)\s*:", t[k:])
        if m:
            labels.append(m.group(1))
            k += m.end()
            continue
        m = re.match(r"default\s*:", t[k:])
        if m:
            labels.append("default")
            k += m.end()
            continue
        if not labels:
            raise ExtractFail(where, "statement before the first case label")
        body = []
        while True:
            k = _skip_ws(t, k)
            if k >= n or re.match(r"(case\b|default\s*:)", t[k:]):
                break
            st, k = parse_stmt(t, k, where)
            body.append(st)
        groups.append((labels, body))
        labels = []
    if labels:
        raise ExtractFail(where, "case labels without statements")
    return groups


def must_unwrap(text):
    """`MUST (call)` statements carry no semicolon in the source; make them ordinary statements"""
    return re.sub(r"\bMUST\s*\(((?:[^()]|\([^()]*\))*)\)(?!\s*;)", r"MUST(\1);", text)


# ------------------------------------------------------------------------------- leaves
def c_unescape(s):
    return s.replace("\\n", "\n").replace("\\t", "\t").replace('\\"', '"').replace("\\\\", "\\")


def literal_pieces(lit, where):
    t = nows(c_unescape(lit))
    if not t:
        return []
    if t not in KW_OF:
        raise ExtractFail(where, "emitted literal `%s` is not a known chunk of InitMemories" % lit)
    return [".emit (.kw .%s)" % KW_OF[t]]


FMT_ARGS = {("%llu", "byteOffset"): "byteOffset", ("%u", "memory.min"): "memMin", ("%u", "memory.max"): "memMax",
            ("%lu", "(unsignedlong)dataSegmentLength"): "segLen", ("%lu", "(unsignedlong)dataSegment.bytes.length"): "segLen"}


def split_args(s):
    out, depth, cur = [], 0, ""
    k = 0
    while k < len(s):
        c = s[k]
        if c == '"':
            j = k + 1
            while s[j] != '"':
                if s[j] == "\\":
                    j += 1
                j += 1
            cur += s[k:j + 1]
            k = j + 1
            continue
        if c in "([":
            depth += 1
        elif c in ")]":
            depth -= 1
        if c == "," and depth == 0:
            out.append(cur.strip())
            cur = ""
        else:
            cur += c
        k += 1
    if cur.strip():
        out.append(cur.strip())
    return out


def leaf(text, where, aliases):
    """one plain statement of a loop body -> list of leaf terms (strings of Lean `Leaf`), or 'break'"""
    t = nows(text)
    if t == "break":
        return "break"
    if t in ("fputs(indentation,file)", "MUST(stringBuilderReset(&stringBuilder))"):
        return []
    m = re.fullmatch(r'fputs\s*\(\s*"((?:[^"\\]|\\.)*)"\s*,\s*file\s*\)', text, re.S)
    if m:
        return literal_pieces(m.group(1), where)
    m = re.fullmatch(r"fputc\s*\(\s*'((?:[^'\\]|\\.)*)'\s*,\s*file\s*\)", text, re.S)
    if m:
        return literal_pieces(m.group(1), where)
    m = re.fullmatch(r"fprintf\s*\((.*)\)", text, re.S)
    if m:
        args = split_args(m.group(1))
        if len(args) < 2 or nows(args[0]) != "file" or not re.fullmatch(r'"(?:[^"\\]|\\.)*"', args[1]):
            raise ExtractFail(where, "fprintf of an unexpected shape: %s" % text[:60])
        fmt = args[1][1:-1]
        rest = args[2:]
        out = []
        pos = 0
        for sm in re.finditer(r"%(llu|lu|u|s|d|x)", fmt):
            out += literal_pieces(fmt[pos:sm.start()], where)
            pos = sm.end()
            if not rest:
                raise ExtractFail(where, "fprintf: more conversions than arguments")
            a = nows(rest.pop(0))
            key = (sm.group(0), a)
            if key not in FMT_ARGS:
                raise ExtractFail(where, "fprintf conversion `%s` of `%s` is not a known item of InitMemories" % key)
            out.append(".emit .%s" % FMT_ARGS[key])
        out += literal_pieces(fmt[pos:], where)
        if rest:
            raise ExtractFail(where, "fprintf: more arguments than conversions")
        return out
    if t == "wasmCWriteFileMemoryUse(file,module,moduleMemoryIndex,NULL,true)":
        return [".emit .memRef"]
    if t == 'wasmCWriteFileMemoryUse(file,module,moduleMemoryIndex,"parent",true)':
        return [".emit .memRefParent"]
    if t == "wasmCWriteFileMemoryUse(file,module,dataSegment.memoryIndex,NULL,false)":
        return [".emit .segMemUse"]
    if t == "wasmCWriteFileDataSegmentName(file,dataSegmentIndex)":
        return [".emit .segName"]
    if t == "MUST(wasmCWriteConstantExpr(&stringBuilder,module,code))":
        if aliases.get("code") != "dataSegment.offset":
            raise ExtractFail(where, "`code` is not the segment's offset expression")
        return ["%pending-offset"]
    if t == "fputs(stringBuilder.string,file)":
        return ["%flush-offset"]
    if t in ("byteOffset+=dataSegment.bytes.length", "byteOffset+=dataSegmentLength"):
        if t.endswith("dataSegmentLength") and aliases.get("dataSegmentLength") != "dataSegment.bytes.length":
            raise ExtractFail(where, "`dataSegmentLength` is not the segment's length")
        return [".advance"]
    raise ExtractFail(where, "statement outside the accepted shapes of the emitter loops: %s" % text[:80])


DECLS = {
    "constWasmMemorymemory=module->memories.memories[memoryIndex]": None,
    "U32moduleMemoryIndex=assertSizeU32(memoryImportCount)+memoryIndex": None,
    "constWasmDataSegmentdataSegment=module->dataSegments.dataSegments[dataSegmentIndex]": None,
    "constsize_tdataSegmentLength=dataSegment.bytes.length": ("dataSegmentLength", "dataSegment.bytes.length"),
    "constBuffercode=dataSegment.offset": ("code", "dataSegment.offset"),
}


def flatten(stmts, guards, where, aliases, out):
    """appends (guards, leaf) pairs in source order; returns True when the list ended in `break`"""
    for st in stmts:
        k = st[0]
        if k == "block":
            if flatten(st[1], guards, where, aliases, out):
                return True
        elif k == "stmt":
            t = nows(st[1])
            if t in DECLS:
                if DECLS[t]:
                    aliases[DECLS[t][0]] = DECLS[t][1]
                continue
            lv = leaf(st[1], where, aliases)
            if lv == "break":
                return True
            for x in lv:
                out.append((list(guards), x))
        elif k == "if":
            cond = nows(st[1])
            if cond == "pretty":
                a, b = [], []
                if flatten([st[2]], [], where, aliases, a) or (st[3] is not None and flatten([st[3]], [], where, aliases, b)):
                    raise ExtractFail(where, "conditional `break`")
                if st[3] is not None:
                    if a != b:
                        raise ExtractFail(where, "`if (pretty)` branches emit different items: %r vs %r" % (a, b))
                    for g, x in a:
                        out.append((list(guards) + g, x))
                elif a:
                    raise ExtractFail(where, "`if (pretty)` without else emits more than indentation: %r" % (a,))
                continue
            pos, neg = "true", "false"
            if cond.startswith("!") and cond[1:] in CONDS:
                cond, pos, neg = cond[1:], "false", "true"
            if cond not in CONDS:
                raise ExtractFail(where, "condition `%s` is not a known module-shape test" % st[1].strip())
            if flatten([st[2]], guards + [".%s %s" % (CONDS[cond], pos)], where, aliases, out) or \
                    (st[3] is not None and flatten([st[3]], guards + [".%s %s" % (CONDS[cond], neg)], where, aliases, out)):
                raise ExtractFail(where, "conditional `break`")
        elif k == "switch":
            if nows(st[1]) != "dataSegmentMode":
                raise ExtractFail(where, "switch on `%s`" % st[1].strip())
            seen = []
            for labels, body in st[2]:
                for lb in labels:
                    if lb not in MODE_OF:
                        raise ExtractFail(where, "case label `%s` is not a data segment mode" % lb)
                    if lb in seen:
                        raise ExtractFail(where, "case label `%s` twice" % lb)
                    seen.append(lb)
                g = ".modeIn [%s]" % ", ".join("." + MODE_OF[lb] for lb in labels)
                sub = []
                ended = flatten(body, guards + [g], where, aliases, sub)
                if not ended:
                    raise ExtractFail(where, "case group %r does not end in break (fall-through)" % (labels,))
                out.extend(sub)
        else:
            raise ExtractFail(where, "`%s` statement inside an emitter loop" % k)
    return False


def fuse_offset(leaves, where):
    """`MUST(wasmCWriteConstantExpr(&sb, module, code))` immediately followed (same guards) by `fputs(sb.string, file)`
    = the offset expression is emitted there"""
    out = []
    pending = None
    for g, x in leaves:
        if x == "%pending-offset":
            if pending is not None:
                raise ExtractFail(where, "offset expression rendered twice")
            pending = g
        elif x == "%flush-offset":
            if pending is None or pending != g:
                raise ExtractFail(where, "stringBuilder is flushed without / under other conditions than the offset expression")
            out.append((g, ".emit .offsetExpr"))
            pending = None
        else:
            if pending is not None:
                raise ExtractFail(where, "something is emitted between rendering and flushing the offset expression")
            out.append((g, x))
    if pending is not None:
        raise ExtractFail(where, "offset expression rendered but never written")
    return out


def find_for(stmts, head, where, what):
    """the unique `for (head)` among stmts (searching bare blocks); returns (body stmts, statements before it in its block)"""
    hits = []

    def walk(lst):
        for n, st in enumerate(lst):
            if st[0] == "for" and nows(st[1]) == head:
                hits.append((st[2], lst[:n], lst[n + 1:]))
            elif st[0] == "block":
                walk(st[1])
    walk(stmts)
    if len(hits) != 1:
        raise ExtractFail(where, "%s: expected exactly one `for (%s)`, found %d" % (what, head, len(hits)))
    body, before, after = hits[0]
    return (body[1] if body[0] == "block" else [body]), before, after


def init_memories_loops(src):
    body, line = function_body(src, "wasmCWriteInitMemories", C)
    where = "%s:%d" % (C, line)
    top = parse_stmts(must_unwrap(body), where)
    ifs = [s for s in top if s[0] == "if"]
    if len(ifs) != 1 or nows(ifs[0][1]) != "memoryCount>0||module->dataSegments.count>0" or ifs[0][3] is not None:
        raise ExtractFail(where, "outer guard of the InitMemories definition changed")
    if "constU32memoryCount=module->memories.count" not in [nows(s[1]) for s in top if s[0] == "stmt"]:
        raise ExtractFail(where, "memoryCount is not module->memories.count")
    inner = ifs[0][2][1]
    # frame: header line and closing brace
    plain = [nows(s[1]) for s in inner if s[0] == "stmt"]
    hdr = [p for p in plain if p.startswith("fprintf(")]
    if hdr != ['fprintf(file,"staticvoid%sInitMemories(%sInstance*i,%sInstance*parent){\\n",moduleName,moduleName,moduleName)']:
        raise ExtractFail(where, "InitMemories header line changed: %r" % (hdr,))
    if 'fputs("}\\n\\n",file)' not in plain:
        raise ExtractFail(where, "closing brace of InitMemories not found")
    for s in inner:
        if s[0] not in ("stmt", "block"):
            raise ExtractFail(where, "unexpected `%s` statement at the top of the InitMemories emitter" % s[0])
    blocks = [s for s in inner if s[0] == "block"]
    if len(blocks) != 2:
        raise ExtractFail(where, "expected two blocks (memories, data segments) in the InitMemories emitter, found %d" % len(blocks))
    # memory loop
    mbody, mbefore, mafter = find_for(blocks[0][1], ";memoryIndex<memoryCount;memoryIndex++", where, "memory loop")
    if [nows(s[1]) for s in mbefore if s[0] == "stmt"] != ["U32memoryIndex=0"] or mafter or len(mbefore) != 1:
        raise ExtractFail(where, "memory loop does not start at index 0 / has neighbours")
    mleaves = []
    if flatten(mbody, [], where, {}, mleaves):
        raise ExtractFail(where, "`break` in the memory loop")
    # segment loop
    sbody, sbefore, safter = find_for(blocks[1][1], ";dataSegmentIndex<dataSegmentCount;dataSegmentIndex++", where, "data segment loop")
    want = ["constU32dataSegmentCount=module->dataSegments.count", "U32dataSegmentIndex=0", "U64byteOffset=0"]
    if [nows(s[1]) for s in sbefore if s[0] == "stmt"] != want or safter or len(sbefore) != 3:
        raise ExtractFail(where, "data segment loop: expected exactly the declarations %r before the loop" % (want,))
    sleaves = []
    if flatten(sbody, [], where, {}, sleaves):
        raise ExtractFail(where, "`break` in the data segment loop")
    sleaves = fuse_offset(sleaves, where)
    for g, x in mleaves:
        if any("seg" in a or "modeIn" in a for a in g) or x in (".advance", ".emit .segName", ".emit .byteOffset", ".emit .segMemUse",
                                                               ".emit .offsetExpr", ".emit .segLen"):
            raise ExtractFail(where, "memory loop refers to data segments")
    for g, x in sleaves:
        if any("memShared" in a for a in g) or x in (".emit .memRef", ".emit .memRefParent", ".emit .memMin", ".emit .memMax"):
            raise ExtractFail(where, "data segment loop refers to the memory being allocated")
    return mleaves, sleaves


def blob_loop(src):
    body, line = function_body(src, "wasmCWriteDataSegmentsFromSection", C)
    where = "%s:%d" % (C, line)
    flat = nows(body)
    for mode, decl in (("wasmDataSegmentModeGNULD", 'fputs("externU8_binary_datasegments_start[];\\n\\n",file);fputs("staticU8*ds=_binary_datasegments_start;\\n",file);'),
                       ("wasmDataSegmentModeSectcreate1", 'fputs("externU8data_segments_data__asm(\\"section$start$__DATA$__datasegments\\");\\n\\n",file);fputs("staticU8*ds=&data_segments_data;\\n",file);')):
        if "case%s:{%sbreak;}" % (mode, decl) not in flat:
            raise ExtractFail(where, "%s: `ds` is no longer declared as the start of the datasegments blob" % mode)
    if 'staticchar*ds=getsectdata(\\"__DATA\\",\\"__datasegments\\",&len);\\n' not in flat or "casewasmDataSegmentModeSectcreate2:{" not in flat:
        raise ExtractFail(where, "sectcreate2: `ds` is no longer getsectdata(__DATA, __datasegments)")
    if 'staticconstchar*constfilename="datasegments";' not in flat or 'segmentsFile=fopen(filename,"wb");' not in flat:
        raise ExtractFail(where, "the blob is no longer written to the file `datasegments`")
    top = parse_stmts(must_unwrap(body), where)
    lbody, before, after = find_for(top, ";dataSegmentIndex<dataSegmentCount;dataSegmentIndex++", where, "blob loop")
    pl = [nows(s[1]) for s in top if s[0] == "stmt"]
    if "U32dataSegmentIndex=0" not in pl or "constU32dataSegmentCount=module->dataSegments.count" not in pl:
        raise ExtractFail(where, "blob loop does not run over all segments from index 0")
    leaves = []
    for st in lbody:
        t = nows(st[1]) if st[0] == "stmt" else None
        if t in ("constWasmDataSegmentdataSegment=module->dataSegments.dataSegments[dataSegmentIndex]", "constsize_tlength=dataSegment.bytes.length"):
            continue
        if t == "constsize_twritten=fwrite(dataSegment.bytes.data,1,length,segmentsFile)":
            leaves.append(([], ".writeBytes"))
            continue
        if st[0] == "if" and nows(st[1]) == "written!=length" and st[3] is None and nows(body[body.find("written != length"):]).find("abort();") > 0:
            continue
        raise ExtractFail(where, "blob loop: statement outside the accepted shapes: %r" % (st[1][:60] if st[0] in ("stmt", "if") else st[0],))
    if len(leaves) != 1:
        raise ExtractFail(where, "blob loop does not write the segment bytes exactly once")
    return leaves


def array_loop(src):
    body, line = function_body(src, "wasmCWriteDataSegments", C)
    where = "%s:%d" % (C, line)
    top = parse_stmts(must_unwrap(body), where)
    sw = [s for s in top if s[0] == "switch"]
    if len(sw) != 1 or nows(sw[0][1]) != "mode":
        raise ExtractFail(where, "wasmCWriteDataSegments: switch (mode) not found")
    arr = [b for labels, b in sw[0][2] if labels == ["wasmDataSegmentModeArrays"]]
    if len(arr) != 1:
        raise ExtractFail(where, "arrays case not found")
    stmts = arr[0]
    if stmts and stmts[0][0] == "block":
        stmts = stmts[0][1] + stmts[1:]
    lbody, before, after = find_for(stmts, ";dataSegmentIndex<dataSegmentCount;dataSegmentIndex++", where, "array loop")
    if [nows(s[1]) for s in before if s[0] == "stmt"] != ["U32dataSegmentIndex=0"]:
        raise ExtractFail(where, "array loop does not start at index 0")
    flat = nows(body)
    if "constU32dataSegmentCount=module->dataSegments.count;" not in flat:
        raise ExtractFail(where, "array loop bound is not the number of data segments")

    def walk(lst, depth):
        for st in lst:
            if st[0] == "stmt" and re.match(r"(continue|break|return|goto)\b", st[1]):
                raise ExtractFail(where, "array loop: `%s` (a segment may be skipped)" % st[1])
            if st[0] == "block":
                walk(st[1], depth)
            elif st[0] == "for":
                walk(st[2][1] if st[2][0] == "block" else [st[2]], depth + 1)
            elif st[0] == "if":
                c = nows(st[1])
                if c not in ("pretty", "byteCount>DATA_SEGMENT_CHUNK_LENGTH", "byteIndex>0", "byteIndex%DATA_SEGMENT_CHUNK_LENGTH==0", "value<10"):
                    raise ExtractFail(where, "array loop: condition `%s`" % st[1].strip())
                walk([st[2]], depth)
                if st[3] is not None:
                    walk([st[3]], depth)
            elif st[0] == "switch":
                raise ExtractFail(where, "array loop: nested switch")
    walk(lbody, 0)
    lflat = nows(body[body.find("case wasmDataSegmentModeArrays"):body.find("case wasmDataSegmentModeGNULD")])
    for need in ("constsize_tbyteCount=dataSegment.bytes.length;", 'fputs("constU8",file);wasmCWriteFileDataSegmentName(file,dataSegmentIndex);',
                 "U32byteIndex=0;for(;byteIndex<byteCount;byteIndex++){U8value=dataSegment.bytes.data[byteIndex];",
                 'if(value<10){fprintf(file,"%u",value);}else{fprintf(file,"0x%x",value);}'):
        if need not in lflat:
            raise ExtractFail(where, "array loop: `%s` not found" % need)
    return [([], ".defineArray")]


# ------------------------------------------------------------------------------- wasmMemoryAllocate
def alloc_steps(view):
    fs = view.funcs()
    if "wasmMemoryAllocate" not in fs:
        raise ExtractFail(H, "wasmMemoryAllocate not found")
    f = fs["wasmMemoryAllocate"]
    where = "%s:%d" % (H, f.line)
    _, params = gen_memfuncs.parse_params(f, where)
    if [n for n, _ in params] != ["initialPages", "maxPages", "shared"]:
        raise ExtractFail(where, "wasmMemoryAllocate(initialPages, maxPages, shared) expected")
    fl = gen_memfuncs.Flattener(where, "memory", params)
    steps = []
    data_bytes = None
    seen_desc = False

    def is_field(e, name):
        return isinstance(e, Member) and e.arrow and isinstance(e.e, Var) and e.e.n == "memory" and e.name == name
    items = gen_memfuncs.body_items(f, where)
    for n, s in enumerate(items):
        if s[0] == "decl" and s[2] in (("u32", 0), ("i32", 0)):
            pre = []
            e = fl.expr(s[3], pre)
            if pre:
                raise ExtractFail(where, "local initialiser reads the descriptor")
            steps.append(".set %d %s" % (fl.declare(s[1], s[2]), e))
        elif s[0] == "decl" and s[1] == "memory" and s[2] == ("wasmMemory", 1):
            e = s[3]
            if not (isinstance(e, Cast) and isinstance(e.e, Call) and e.e.f == "calloc" and len(e.e.args) == 2
                    and isinstance(e.e.args[0], IntLit) and e.e.args[0].value == 1):
                raise ExtractFail(where, "the descriptor is not calloc(1, sizeof(wasmMemory))")
            seen_desc = True
        elif s[0] == "if" and isinstance(s[1], Un) and s[1].op == "lnot" and isinstance(s[1].e, Var) and s[1].e.n == "memory":
            continue          # if (!memory) abort();
        elif s[0] == "expr" and isinstance(s[1], AssignE) and s[1].op == "=" and is_field(s[1].lhs, "data"):
            e = s[1].rhs
            if not (isinstance(e, Cast) and isinstance(e.e, Call) and e.e.f == "calloc" and len(e.e.args) == 2
                    and isinstance(e.e.args[1], IntLit) and e.e.args[1].value == 1):
                raise ExtractFail(where, "memory->data is not calloc(<bytes>, 1) (fresh memories must be zeroed)")
            pre = []
            data_bytes = fl.expr(e.e.args[0], pre)
            if pre:
                raise ExtractFail(where, "data size reads the descriptor")
        elif s[0] == "expr" and isinstance(s[1], AssignE) and s[1].op == "=" and isinstance(s[1].lhs, Member) and s[1].lhs.arrow \
                and isinstance(s[1].lhs.e, Var) and s[1].lhs.e.n == "memory":
            name = s[1].lhs.name
            if name in ("futex", "futexFree"):
                continue
            if name not in ("size", "pages", "maxPages", "shared"):
                raise ExtractFail(where, "assignment to descriptor field `%s` is not modelled" % name)
            pre = []
            e = fl.expr(s[1].rhs, pre)
            if pre:
                raise ExtractFail(where, "descriptor initialiser reads the descriptor")
            steps.append(".write .%s %s" % (name, e))
        elif s[0] == "if" and isinstance(s[1], Var) and s[1].n == "shared":
            continue          # mutex initialisation of a shared memory (or abort without a threads implementation)
        elif s[0] == "ret" and isinstance(s[1], Var) and s[1].n == "memory" and n == len(items) - 1:
            continue
        else:
            raise ExtractFail(where, "wasmMemoryAllocate: statement %d (%s) is outside the accepted shapes" % (n, s[0]))
    written = [re.match(r"\.write \.(\w+)", x).group(1) for x in steps if x.startswith(".write")]
    if sorted(written) != ["maxPages", "pages", "shared", "size"] or data_bytes is None or not seen_desc:
        raise ExtractFail(where, "wasmMemoryAllocate: each of size/pages/maxPages/shared must be assigned exactly once, data calloc'ed")
    # the macro used for shared memories
    try:
        exp = nows(toks_text(view.expand_call("WASM_MEMORY_ALLOCATE_SHARED", ["A", "B"])))
    except Exception as ex:          # noqa: BLE001
        raise ExtractFail(H, "cannot expand WASM_MEMORY_ALLOCATE_SHARED: %s" % ex)
    if exp != "wasmMemoryAllocate(A,B,true)":
        raise ExtractFail(H, "WASM_MEMORY_ALLOCATE_SHARED(a, b) no longer expands to wasmMemoryAllocate(a, b, true): %s" % exp)
    return fl.regs, steps, data_bytes, toks_text(f.body_toks)


# ------------------------------------------------------------------------------- output
def lean_guarded(name, doc, leaves, ty="Leaf"):
    rows = ",\n".join("  ([%s], %s)" % (", ".join(g), x) for g, x in leaves)
    return "/-- %s -/\ndef %s : List (List Guard × %s) := [\n%s\n]" % (doc, name, ty, rows)


def generate(repo):
    src = strip_comments(open(os.path.join(repo, "w2c2", "c.c")).read())
    mleaves, sleaves = init_memories_loops(src)
    bleaves = blob_loop(src)
    aleaves = array_loop(src)
    view = gen_macros.HeaderView(os.path.join(repo, "w2c2", "w2c2_base.h"), gen_macros.configs()["le"])
    aregs, asteps, abytes, asrc = alloc_steps(view)
    out = ["/- GENERATED by tools/extract/gen_initmem.py from w2c2/c.c and w2c2/w2c2_base.h — do not edit. -/",
           "import W2c2Verif.Model.ConcBase",
           "namespace W2c2Verif.Gen.InitMem",
           "open W2c2Verif.Model",
           "",
           "/-- `-d` data segment modes -/",
           "inductive DMode | " + " | ".join(m for _, m in MODES),
           "  deriving DecidableEq, Repr, Inhabited",
           "",
           "/-- the literal text chunks (white space removed) that the two loops of `wasmCWriteInitMemories` print -/",
           "inductive Kw | " + " | ".join(k for _, k in KW),
           "  deriving DecidableEq, Repr, Inhabited",
           "",
           "def Kw.text : Kw → String"]
    for t, k in KW:
        out.append("  | .%s => %s" % (k, lean_str(t)))
    out += ["",
            "/-- one chunk of emitted text -/",
            "inductive Piece",
            "  | kw (k : Kw)",
            "  | memRef            -- wasmCWriteFileMemoryUse(file, module, moduleMemoryIndex, NULL, true): `i-><memory>`",
            "  | memRefParent      -- … \"parent\", true: `parent-><memory>`",
            "  | memMin | memMax   -- %u of memory.min / memory.max",
            "  | segName           -- wasmCWriteFileDataSegmentName(file, dataSegmentIndex): `d<k>`",
            "  | byteOffset        -- %llu of the running byteOffset",
            "  | segMemUse         -- wasmCWriteFileMemoryUse(file, module, dataSegment.memoryIndex, NULL, false): `(*i-><memory>)`",
            "  | offsetExpr        -- wasmCWriteConstantExpr of dataSegment.offset",
            "  | segLen            -- %lu of dataSegment.bytes.length",
            "  deriving DecidableEq, Repr, Inhabited",
            "",
            "inductive Leaf",
            "  | emit (p : Piece)",
            "  | advance           -- byteOffset += dataSegment.bytes.length",
            "  | writeBytes        -- fwrite(dataSegment.bytes.data, 1, dataSegment.bytes.length, <datasegments file>)",
            "  | defineArray       -- const U8 d<k>[] = { every byte of dataSegment.bytes }",
            "  deriving DecidableEq, Repr, Inhabited",
            "",
            "/-- one condition on the path to a leaf -/",
            "inductive Guard",
            "  | memShared (b : Bool)       -- memory.shared",
            "  | segPassive (b : Bool)      -- dataSegment.passive",
            "  | segHasOffset (b : Bool)    -- dataSegment.offset.data != NULL",
            "  | modeIn (ms : List DMode)   -- case labels of `switch (dataSegmentMode)`",
            "  deriving DecidableEq, Repr, Inhabited",
            "",
            lean_guarded("memLoop", "`wasmCWriteInitMemories`: body of the loop over ALL defined memories, index 0 upwards", mleaves),
            "",
            lean_guarded("segLoop", "`wasmCWriteInitMemories`: body of the loop over ALL data segments, index 0 upwards; `byteOffset` starts at 0", sleaves),
            "",
            lean_guarded("blobLoop", "`wasmCWriteDataSegmentsFromSection`: body of the loop over ALL data segments that writes the file `datasegments`; "
                         "`ds` is the start of that blob in the gnu-ld / sectcreate1 / sectcreate2 modes", bleaves),
            "",
            lean_guarded("arrayLoop", "`wasmCWriteDataSegments`, arrays mode: body of the loop over ALL data segments", aleaves),
            "",
            "/-- registers of `wasmMemoryAllocate`: parameters, then scalar locals in declaration order -/",
            "def allocRegs : List String := [" + ", ".join(lean_str(r) for r in aregs) + "]",
            "",
            "/-- `wasmMemoryAllocate`: scalar locals and descriptor field assignments in source order:",
            "    `" + asrc.replace("-/", "- /") + "` -/",
            "def allocSteps : List MStep := [\n" + ",\n".join("  " + s for s in asteps) + "\n]",
            "",
            "/-- bytes requested from calloc for the data block -/",
            "def allocDataBytes : MExpr := " + abytes,
            "",
            "/-- `WASM_MEMORY_ALLOCATE_SHARED(a, b)` = `wasmMemoryAllocate(a, b, true)` (value of the `shared` argument) -/",
            "def allocSharedFlag : Nat := 1",
            "",
            "end W2c2Verif.Gen.InitMem"]
    return "\n".join(out) + "\n"


if __name__ == "__main__":
    import sys
    try:
        sys.stdout.write(generate(sys.argv[1] if len(sys.argv) > 1 else "/repo"))
    except ExtractFail as e:
        print(str(e), file=sys.stderr)
        sys.exit(3)
