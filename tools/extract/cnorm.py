"""cnorm — a normal form for the statement trees of w2c2's emitter functions, so that the extractors read WHAT a function does and
not HOW it is spelled.  Two functions that differ only by the rewrites below have the same normal form:

    if (c) continue; S…            ≡  if (!c) { S… }                     (inside a loop body)
    if (c) A else B                ≡  if (!c) B else A                   (conditions are made positive: !x, x == 0, x == NULL, x == false,
                                                                          a != b ≡ !(a == b), b > a ≡ a < b, double negation)
    for (init; c; inc) S           ≡  init; while (c) { S; inc }         (a `continue` in S still reaches inc)
    i++, ++i, i += 1, i = i + 1    ≡  i += 1
    switch (e) { case A: case B: S; break; … default: T }   ≡  if (e == A || e == B) S else … else T
    const T x = e; … x …           ≡  … e …                              (single-assignment temporaries without side effects are substituted)
    local names                    free: loop counters are `$i<depth>`, other mutable locals `$v<n>` in order of declaration
    literals                       by value: 0x10 ≡ 16 ≡ 16U, 'X' ≡ 88, "a" "b" ≡ "ab"
    counts as truth values         n.count, n.count != 0, n.count > 0 (… .length, …Count, …Length)  ≡  0 < n.count
    { S }                          ≡  S                                   (bare blocks carry no meaning; declarations are block scoped and renamed)

Normal form (`normalize(body_text, where)` → list of nodes):
    ('do', text)                        expression statement, canonical white-space-free text
    ('if', cond, then, else)            cond = canonical POSITIVE condition text (or ('or', [conds]) / ('and', [conds])); then/else = node lists
    ('loop', var, start, bound, body)   counting loop var = start, start+1, … < bound (var is `$i<depth>` inside body, bound and start are texts)
    ('first', var, start, bound, cond)  a search `for (var = start; var < bound; var++) if (cond) break;`: var = the least index in
                                        [start, bound) with cond, else bound (var keeps its `$v<n>` name: it is read after the loop)
    ('while', cond, body)               any other loop
    ('return', text) | ('break',) | ('continue',)      (`continue` survives only where it cannot be restructured)
Anything the parser does not know raises ExtractFail.
"""
import re

from cfront import ExtractFail

_TOK = re.compile(r'''\s*(?:(?P<str>"(?:[^"\\]|\\.)*")|(?P<chr>'(?:[^'\\]|\\.)*')|(?P<num>0[xX][0-9a-fA-F]+[uUlL]*|\d+[uUlL]*(?![\w.]))|(?P<id>[A-Za-z_$][\w$]*)|(?P<op>->|\+\+|--|<<=|>>=|<<|>>|<=|>=|==|!=|&&|\|\||\+=|-=|\*=|/=|%=|&=|\|=|\^=|.))''', re.S)
_CHR = {"\\0": 0, "\\n": 10, "\\t": 9, "\\\\": 92, "\\'": 39, '\\"': 34, "\\r": 13}


def tokens(text, where="?"):
    out = []
    k = 0
    text = text.strip()
    while k < len(text):
        m = _TOK.match(text, k)
        if not m or m.end() == k:
            raise ExtractFail(where, "cannot tokenise `%s`" % text[k:k + 30])
        k = m.end()
        kind = m.lastgroup
        t = m.group(kind)
        if kind == "num":
            t = str(int(re.sub(r"[uUlL]+$", "", t), 0))
        elif kind == "chr":
            b = t[1:-1]
            if b in _CHR:
                t = str(_CHR[b])
            elif len(b) == 1:
                t = str(ord(b))
            else:
                raise ExtractFail(where, "character literal %s" % t)
            kind = "num"
        out.append((kind, t))
    # adjacent string literals are one literal
    merged = []
    for kind, t in out:
        if kind == "str" and merged and merged[-1][0] == "str":
            merged[-1] = ("str", merged[-1][1][:-1] + t[1:])
        else:
            merged.append((kind, t))
    return merged


def untok(toks):
    out = []
    for kind, t in toks:
        if out and kind in ("id", "num") and out[-1][0] in ("id", "num"):
            out.append((None, " "))
        out.append((kind, t))
    return "".join(t for _, t in out)


def canon(text, where="?"):
    """canonical white-space-free text of an expression (literals by value)"""
    return untok(tokens(text, where))


# ------------------------------------------------------------------------------- statement parser
def _skip(t, k):
    while k < len(t) and t[k].isspace():
        k += 1
    return k


def _match(t, k, o, c, where):
    depth = 0
    n = len(t)
    while k < n:
        ch = t[k]
        if ch in "\"'":
            q = ch
            k += 1
            while k < n and t[k] != q:
                if t[k] == "\\":
                    k += 1
                k += 1
        elif ch == o:
            depth += 1
        elif ch == c:
            depth -= 1
            if depth == 0:
                return k + 1
        k += 1
    raise ExtractFail(where, "unbalanced %s%s" % (o, c))


def must_unwrap(text):
    """`MUST (call)` has no semicolon in the source"""
    return re.sub(r"\bMUST\s*\(((?:[^()]|\([^()]*\)|\((?:[^()]|\([^()]*\))*\))*)\)(?!\s*;)", r"MUST(\1);", text)


def parse(text, where):
    """raw tree: ('block', [..]) ('if', c, then, else|None) ('for', init, cond, inc, body) ('while', c, body) ('switch', e, [([labels], [stmts])])
    ('stmt', text)"""
    out = []
    k = 0
    while True:
        k = _skip(text, k)
        if k >= len(text):
            return out
        st, k = _stmt(text, k, where)
        out.append(st)


def _stmt(t, k, where):
    k = _skip(t, k)
    if t[k] == "{":
        e = _match(t, k, "{", "}", where)
        return ("block", parse(t[k + 1:e - 1], where)), e
    m = re.match(r"(if|switch|for|while|do|else|case|default|goto)\b", t[k:])
    kw = m.group(1) if m else None
    if kw in ("if", "switch", "for", "while"):
        p = _skip(t, k + len(kw))
        if t[p] != "(":
            raise ExtractFail(where, "`%s` without parenthesis" % kw)
        pe = _match(t, p, "(", ")", where)
        head = t[p + 1:pe - 1]
        if kw == "switch":
            b = _skip(t, pe)
            if t[b] != "{":
                raise ExtractFail(where, "switch without block")
            be = _match(t, b, "{", "}", where)
            return ("switch", head, _cases(t[b + 1:be - 1], where)), be
        body, e = _stmt(t, pe, where)
        if kw == "for":
            parts = _split_top(head, ";")
            if len(parts) != 3:
                raise ExtractFail(where, "for head `%s`" % head)
            return ("for", parts[0].strip(), parts[1].strip(), parts[2].strip(), body), e
        if kw == "while":
            return ("while", head, body), e
        q = _skip(t, e)
        if re.match(r"else\b", t[q:]):
            eb, e2 = _stmt(t, q + 4, where)
            return ("if", head, body, eb), e2
        return ("if", head, body, None), e
    if kw is not None:
        raise ExtractFail(where, "statement keyword `%s` is outside the accepted shapes" % kw)
    j = k
    depth = 0
    n = len(t)
    while j < n:
        c = t[j]
        if c in "\"'":
            q = c
            j += 1
            while j < n and t[j] != q:
                if t[j] == "\\":
                    j += 1
                j += 1
        elif c in "({[":
            depth += 1
        elif c in ")}]":
            depth -= 1
        elif c == ";" and depth == 0:
            return ("stmt", t[k:j].strip()), j + 1
        j += 1
    raise ExtractFail(where, "statement without `;`: %s" % t[k:k + 60].strip())


def _split_top(s, sep):
    out, depth, cur, k = [], 0, "", 0
    while k < len(s):
        c = s[k]
        if c in "\"'":
            q = c
            j = k + 1
            while s[j] != q:
                if s[j] == "\\":
                    j += 1
                j += 1
            cur += s[k:j + 1]
            k = j + 1
            continue
        if c in "([{":
            depth += 1
        elif c in ")]}":
            depth -= 1
        if depth == 0 and s.startswith(sep, k):
            out.append(cur)
            cur = ""
            k += len(sep)
            continue
        cur += c
        k += 1
    out.append(cur)
    return out


def _cases(t, where):
    groups, labels, k, n = [], [], 0, len(t)
    while True:
        k = _skip(t, k)
        if k >= n:
            break
        m = re.match(r"case\s+([\w']+|'\\?.')\s*:", t[k:])
        if m:
            labels.append(m.group(1))
            k += m.end()
            continue
        m = re.match(r"default\s*:", t[k:])
        if m:
            labels.append("default")
            k += m.end()
            continue
        if not labels:
            raise ExtractFail(where, "statement before the first case label")
        body = []
        while True:
            k = _skip(t, k)
            if k >= n or re.match(r"(case\b|default\s*:)", t[k:]):
                break
            st, k = _stmt(t, k, where)
            body.append(st)
        groups.append((labels, body))
        labels = []
    if labels:
        groups.append((labels, []))
    return groups


# ------------------------------------------------------------------------------- conditions
def _strip_parens(toks):
    while len(toks) >= 2 and toks[0][1] == "(" and toks[-1][1] == ")":
        depth = 0
        ok = True
        for n, (_, t) in enumerate(toks):
            depth += t == "("
            depth -= t == ")"
            if depth == 0 and n < len(toks) - 1:
                ok = False
                break
        if not ok:
            break
        toks = toks[1:-1]
    return toks


def _split_toks(toks, op):
    parts, depth, cur = [], 0, []
    for kind, t in toks:
        if kind == "op" and t in "([{":
            depth += 1
        elif kind == "op" and t in ")]}":
            depth -= 1
        if depth == 0 and kind == "op" and t == op:
            parts.append(cur)
            cur = []
        else:
            cur.append((kind, t))
    parts.append(cur)
    return parts


_FALSY = ("0", "NULL", "false")


def cond(text, where="?"):
    """(canonical condition, positive?) — the condition is positive; compound conditions are ('or'|'and', [(cond, positive)])"""
    toks = text if isinstance(text, list) else tokens(text, where)
    toks = _strip_parens(toks)
    for op, name in (("||", "or"), ("&&", "and")):
        parts = _split_toks(toks, op)
        if len(parts) > 1:
            return (name, tuple(cond(p, where) for p in parts)), True
    if toks and toks[0] == ("op", "!"):
        c, pos = cond(toks[1:], where)
        return c, not pos
    for op in ("==", "!="):
        parts = _split_toks(toks, op)
        if len(parts) == 2:
            a, b = untok(_strip_parens(parts[0])), untok(_strip_parens(parts[1]))
            if a in _FALSY:
                a, b = b, a
            if b in _FALSY:
                c, pos = cond(tokens(a, where), where)
                return c, (not pos) if op == "==" else pos
            if b == "true":
                c, pos = cond(tokens(a, where), where)
                return c, pos if op == "==" else (not pos)
            if a > b and not re.match(r"[\w$]+$", b):      # symmetric: keep a stable order only for two complex operands
                pass
            return a + "==" + b, op == "=="
    for op, flip in ((">", "<"), (">=", "<=")):
        parts = _split_toks(toks, op)
        if len(parts) == 2:
            return untok(_strip_parens(parts[1])) + flip + untok(_strip_parens(parts[0])), True
    t = untok(toks)
    if re.search(r"(\.count|\.length|Count|Length)$", t) and re.fullmatch(r"[\w$.\->\[\]]+", t):
        return "0<" + t, True               # an (unsigned) count used as a truth value: `n`, `n != 0`, `n > 0` are one condition
    return t, True


# ------------------------------------------------------------------------------- normalisation
_DECL = re.compile(r"^(?:static\s+)?(?:const\s+)?(?:(?:unsigned|signed|struct)\s+)*[A-Za-z_]\w*(?:\s+const)?(?:\s*\*+\s*(?:const\s+)?|\s+)([A-Za-z_]\w*)\s*(?:=\s*(.*))?$", re.S)
_KEYWORDS = ("return", "break", "continue", "goto", "else")
PURE_CALLS = ("assertSizeU32", "wasmOpcodeResultType", "strlen", "sizeof")


def _is_decl(text):
    m = _DECL.match(text.strip())
    if not m:
        return None
    first = text.strip().split()[0]
    if first in _KEYWORDS:
        return None
    return m.group(1), m.group(2)


def _uses(name, toks):
    prev = None
    for kind, t in toks:
        if kind == "id" and t == name and prev not in (".", "->"):
            return True
        prev = t
    return False


def _assigned(name, raw_stmts):
    """does any statement below assign / take the address of `name`?"""
    pat = re.compile(r"(?<![\w.>])(?:\+\+|--)?%s\s*(?:\+\+|--|=(?!=)|\+=|-=|\*=|/=|%%=|&=|\|=|\^=|<<=|>>=)|&\s*%s\b" % (re.escape(name), re.escape(name)))

    def walk(sts):
        for st in sts:
            k = st[0]
            if k == "stmt":
                d = _is_decl(st[1])
                if d and d[0] == name:
                    continue                    # a new variable of the same name in an inner scope is handled by renaming order
                if pat.search(st[1]):
                    return True
            elif k == "block":
                if walk(st[1]):
                    return True
            elif k == "if":
                if walk([st[2]]) or (st[3] is not None and walk([st[3]])):
                    return True
            elif k == "for":
                if any(pat.search(x) for x in st[1:4]) or walk([st[4]]):
                    return True
            elif k == "while":
                if walk([st[2]]):
                    return True
            elif k == "switch":
                if any(walk(b) for _, b in st[2]):
                    return True
        return False
    return walk(raw_stmts)


def _has_side_effect(text):
    for m in re.finditer(r"([A-Za-z_]\w*)\s*\(", text):
        if m.group(1) not in PURE_CALLS:
            return True
    return bool(re.search(r"\+\+|--|(?<![=!<>])=(?!=)", text))


class _Ctx(object):
    def __init__(self, where):
        self.where = where
        self.nvar = 0

    def fresh(self):
        self.nvar += 1
        return "$v%d" % (self.nvar - 1)


def _subst(toks, env):
    """replace identifiers bound in env (name -> token list) unless they are member names"""
    out = []
    prev = None
    for kind, t in toks:
        if kind == "id" and t in env and prev not in (".", "->"):
            rep = env[t]
            simple = all(k in ("id", "num") or x in (".", "->", "[", "]") for k, x in rep) or (len(rep) == 1)
            if not simple:
                out.append(("op", "("))
            out.extend(rep)
            if not simple:
                out.append(("op", ")"))
        else:
            out.append((kind, t))
        prev = t
    return out


def _expr(text, env, ctx):
    return _subst(tokens(text, ctx.where), env)


def _incr(toks):
    """`v++` `++v` `v+=1` `v=v+1` -> v, else None"""
    s = untok(toks)
    for rx in (r"^([\w$.\->\[\]]+)\+\+$", r"^\+\+([\w$.\->\[\]]+)$", r"^([\w$.\->\[\]]+)\+=1$"):
        m = re.match(rx, s)
        if m:
            return m.group(1)
    m = re.match(r"^([\w$.\->\[\]]+)=([\w$.\->\[\]]+)\+1$", s)
    if m and m.group(1) == m.group(2):
        return m.group(1)
    return None


def _norm_list(raw, env, ctx, in_loop):
    """raw statement list -> nodes.  env: name -> token list (substitution / renaming)"""
    env = dict(env)
    out = []
    for n, st in enumerate(raw):
        k = st[0]
        rest = raw[n + 1:]
        if k == "block":
            out += _norm_list(st[1], env, ctx, in_loop)
        elif k == "stmt":
            text = st[1].strip()
            if not text:
                continue
            first = re.match(r"[A-Za-z_]\w*", text)
            word = first.group(0) if first else ""
            if word == "continue":
                out.append(("continue",))
                continue
            if word == "break":
                out.append(("break",))
                continue
            if word == "return":
                out.append(("return", untok(_expr(text[6:], env, ctx)) if text[6:].strip() else ""))
                continue
            d = _is_decl(text)
            if d:
                name, init = d
                if init is not None and not _assigned(name, rest) and not _has_side_effect(init):
                    env[name] = _strip_parens(_expr(init, env, ctx))
                    continue
                v = ctx.fresh()
                if init is not None:
                    out.append(("do", "%s=%s" % (v, untok(_expr(init, env, ctx)))))
                env[name] = [("id", v)]
                continue
            toks = _expr(text, env, ctx)
            inc = _incr(toks)
            out.append(("do", inc + "+=1" if inc else untok(toks)))
        elif k == "if":
            c, pos = cond(_expr(st[1], env, ctx), ctx.where)
            then = _norm_list([st[2]], env, ctx, in_loop)
            els = _norm_list([st[3]], env, ctx, in_loop) if st[3] is not None else []
            if not pos:
                then, els = els, then
            # `if (c) { …; continue; }  S…`  ≡  `if (c) { … } else { S… }` inside a loop body (and the same for the else arm)
            if in_loop and then and then[-1] == ("continue",) and not _has_jump(then[:-1]):
                tail = _norm_list(rest, env, ctx, in_loop)
                out.append(("if", c, then[:-1], els + tail))
                return out
            if in_loop and els and els[-1] == ("continue",) and not _has_jump(els[:-1]):
                tail = _norm_list(rest, env, ctx, in_loop)
                out.append(("if", c, then + tail, els[:-1]))
                return out
            out.append(("if", c, then, els))
        elif k == "switch":
            e = untok(_expr(st[1], env, ctx))
            chain = []
            default = None
            for labels, body in st[2]:
                nodes = _norm_list(body, env, ctx, False)
                if not nodes or nodes[-1] != ("break",):
                    if nodes and (nodes[-1][0] == "return" or nodes[-1] in (("do", "abort()"), ("do", "exit(1)"))):
                        pass                    # the group does not fall through: it leaves the function / the program
                    else:
                        raise ExtractFail(ctx.where, "case group %r does not end in break (fall-through)" % (labels,))
                else:
                    nodes = nodes[:-1]
                if _has_jump([x for x in nodes if x[0] != "return"]):
                    raise ExtractFail(ctx.where, "break/continue inside a case group")
                if "default" in labels:
                    default = nodes
                    labels = [x for x in labels if x != "default"]
                    if not labels:
                        continue
                cs = tuple((e + "==" + untok(tokens(lb, ctx.where)), True) for lb in labels)
                chain.append((cs[0][0] if len(cs) == 1 else ("or", cs), nodes))
            node = default or []
            for c, nodes in reversed(chain):
                node = [("if", c, nodes, node)]
            out += node
        elif k in ("for", "while"):
            pre = []
            if k == "for":
                init, cnd, inc, body = st[1], st[2], st[3], st[4]
                if init:
                    pre = _norm_list([("stmt", init)], env, ctx, in_loop)
                    # a declaration in the for head is visible in the loop only: keep its binding for cond / inc / body
                    d = _is_decl(init)
                    if d:
                        v = pre[-1][1].split("=")[0] if pre and pre[-1][0] == "do" else None
                        if v and v.startswith("$v"):
                            env = dict(env)
                            env[d[0]] = [("id", v)]
                inc_nodes = _norm_list([("stmt", inc)], env, ctx, False) if inc else []
            else:
                cnd, body = st[1], st[2]
                inc_nodes = []
            out += pre
            c, pos = cond(_expr(cnd, env, ctx), ctx.where) if cnd.strip() else ("1", True)
            if not pos:
                c = ("not", c)
            b = _norm_list([body], env, ctx, True) + inc_nodes
            out.append(_loop(c, b, out, ctx))
        else:
            raise ExtractFail(ctx.where, "`%s` statement" % k)
    return out


def _has_jump(nodes):
    for x in nodes:
        if x[0] in ("continue", "break"):
            return True
        if x[0] == "if" and (_has_jump(x[2]) or _has_jump(x[3])):
            return True
    return False


def _rename(node, old, new):
    def r(s):
        return re.sub(r"(?<![\w$.>])%s(?![\w$])" % re.escape(old), new, s) if isinstance(s, str) else s

    def rc(c):
        if isinstance(c, tuple):
            return (c[0], tuple((rc(x), p) for x, p in c[1])) if c[0] in ("or", "and") else (c[0], rc(c[1]))
        return r(c)
    k = node[0]
    if k == "do":
        return ("do", r(node[1]))
    if k == "return":
        return ("return", r(node[1]))
    if k == "if":
        return ("if", rc(node[1]), [_rename(x, old, new) for x in node[2]], [_rename(x, old, new) for x in node[3]])
    if k == "loop":
        return ("loop", node[1], r(node[2]), r(node[3]), [_rename(x, old, new) for x in node[4]])
    if k == "while":
        return ("while", rc(node[1]), [_rename(x, old, new) for x in node[2]])
    if k == "first":
        return ("first", r(node[1]), r(node[2]), r(node[3]), rc(node[4]))
    return node


def _depth(nodes):
    d = 0
    for x in nodes:
        if x[0] == "loop":
            d = max(d, 1 + _depth(x[4]))
        elif x[0] == "while":
            d = max(d, _depth(x[2]))
        elif x[0] == "if":
            d = max(d, _depth(x[2]), _depth(x[3]))
    return d


def _loop(c, body, before, ctx):
    """counting loop `v < bound` whose last statement is `v += 1` and whose counter was set to a start value right before"""
    if isinstance(c, str):
        m = re.match(r"^(\$v\d+)<(.+)$", c)
        if m and body and body[-1] == ("do", m.group(1) + "+=1"):
            v, bound = m.group(1), m.group(2)
            inner = body[:-1]
            if not any(re.search(r"(?<![\w$])%s(\+=|=(?!=)|-=)" % re.escape(v), x[1]) for x in _flat_do(inner)):
                start = None
                for j in range(len(before) - 1, -1, -1):
                    if before[j][0] == "do":
                        ms = re.match(r"^%s=(.+)$" % re.escape(v), before[j][1])
                        if ms:
                            start = ms.group(1)
                            del before[j]
                            break
                    if _mentions(before[j], v):
                        break
                if start is not None and len(inner) == 1 and inner[0][0] == "if" and inner[0][2] == [("break",)] and not inner[0][3]:
                    # a search: v = the least index in [start, bound) with the condition, else bound (v is read after the loop)
                    return ("first", v, start, bound, inner[0][1])
                if start is not None and _has_jump(inner):
                    before.append(("do", "%s=%s" % (v, start)))
                    return ("while", c, body)
                if start is not None:
                    name = "$i%d" % _depth(inner)
                    return ("loop", name, start, bound, [_rename(x, v, name) for x in inner])
    return ("while", c, body)


def _mentions(node, v):
    rx = re.compile(r"(?<![\w$])%s(?![\w$])" % re.escape(v))

    def cm(c):
        if isinstance(c, tuple):
            return any(cm(x[0] if isinstance(x, tuple) and len(x) == 2 and isinstance(x[1], bool) else x) for x in c[1]) if c[0] in ("or", "and") else cm(c[1])
        return bool(rx.search(c))
    k = node[0]
    if k in ("do", "return"):
        return bool(rx.search(node[1]))
    if k == "if":
        return cm(node[1]) or any(_mentions(x, v) for x in node[2] + node[3])
    if k == "loop":
        return bool(rx.search(node[2]) or rx.search(node[3])) or any(_mentions(x, v) for x in node[4])
    if k == "while":
        return cm(node[1]) or any(_mentions(x, v) for x in node[2])
    if k == "first":
        return bool(rx.search(node[1]) or rx.search(node[2]) or rx.search(node[3])) or cm(node[4])
    return False


def _flat_do(nodes):
    for x in nodes:
        if x[0] == "do":
            yield x
        elif x[0] == "if":
            for y in _flat_do(x[2]):
                yield y
            for y in _flat_do(x[3]):
                yield y
        elif x[0] == "loop":
            for y in _flat_do(x[4]):
                yield y
        elif x[0] == "while":
            for y in _flat_do(x[2]):
                yield y


def normalize(body_text, where):
    ctx = _Ctx(where)
    return _norm_list(parse(must_unwrap(body_text), where), {}, ctx, False)


def show(nodes, ind=0):
    out = []
    for x in nodes:
        p = "  " * ind
        if x[0] == "if":
            out.append("%sif %r" % (p, x[1]))
            out += show(x[2], ind + 1)
            if x[3]:
                out.append(p + "else")
                out += show(x[3], ind + 1)
        elif x[0] == "loop":
            out.append("%sloop %s = %s .. < %s" % (p, x[1], x[2], x[3]))
            out += show(x[4], ind + 1)
        elif x[0] == "while":
            out.append("%swhile %r" % (p, x[1]))
            out += show(x[2], ind + 1)
        elif x[0] == "first":
            out.append("%sfirst %s in %s .. < %s with %r" % (p, x[1], x[2], x[3], x[4]))
        else:
            out.append(p + " ".join(str(y) for y in x))
    return out


if __name__ == "__main__":
    import sys
    from gen_instantiate import strip_comments, function_body
    src = strip_comments(open(sys.argv[1]).read())
    body, line = function_body(src, sys.argv[2], sys.argv[1])
    print("\n".join(show(normalize(body, "%s:%d" % (sys.argv[1], line)))))
