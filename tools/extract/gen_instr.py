"""gen_instr — regenerate lean/W2c2Verif/Gen/Instr.lean: how w2c2 decodes the immediates of instructions and how it
looks up the type of a local, from /repo/w2c2/{instruction.c,instruction.h,valuetype.h,locals.h,c.c,opcode.h}.

Extracted (every item stops with EXTRACT-FAIL when the source no longer has the shape the extractor understands):
  * `readers`: for every `wasm…InstructionRead` of instruction.c / instruction.h and `wasmReadBlockType` /
    `wasmReadValueType` of valuetype.h, the buffer primitives it calls, in order (leb128ReadU32 / I32 / U64 / I64,
    bufferReadByte, bufferReadF32 / F64), a primitive inside a `for` loop being a counted step; nested readers are
    inlined; the `switch (opcode)` of wasmConstInstructionRead gives one row per case;
  * `opcodeImm` / `miscOpcodeImm` / `threadsOpcodeImm`: for every `case` of the dispatch switch of
    wasmCWriteFunctionCode (c.c) and of its nested switches, the steps that read `writer->code` after the opcode —
    directly, or in the `wasmCWrite…` function the case calls (transitively, cut at the recursive
    wasmCWriteFunctionCode); the opcode values come from opcode.h;
  * the primitive that reads the sub-opcode after the 0xFC / 0xFE prefix;
  * `localsLookupShape`: the loop of wasmLocalsDeclarationsGetType (locals.h), one of the shapes Model.Instr knows.
"""
import os
import re

from cfront import ExtractFail
from gen_emit import function_body, switch_groups, enum_values, strip_comments
import readernorm as rn
from readernorm import vpat

GEN_NAME = "Instr"

PRIMS = {"leb128ReadU32": "lebU32", "leb128ReadI32": "lebI32", "leb128ReadU64": "lebU64", "leb128ReadI64": "lebI64",
         "bufferReadByte": "byte", "bufferReadF32": "f32", "bufferReadF64": "f64"}


def _read(repo, name):
    """Source without comments and with the contents of string / character literals blanked (a `'}'` must not count
    as a brace)."""
    src = strip_comments(open(os.path.join(repo, "w2c2", name)).read())
    src = re.sub(r'"(?:[^"\\\n]|\\.)*"', lambda m: '"' + "_" * (len(m.group(0)) - 2) + '"', src)
    src = re.sub(r"'(?:[^'\\\n]|\\.)+'", lambda m: "'" + "_" * (len(m.group(0)) - 2) + "'", src)
    return src


def _for_ranges(body):
    """[(start, end)] of the brace blocks that belong to a `for (…)` / `while (…)` header or a `do`."""
    out = []
    for m in re.finditer(r"\bdo\s*\{", body):
        j = m.end() - 1
        d = 0
        k = j
        while k < len(body):
            if body[k] == "{":
                d += 1
            elif body[k] == "}":
                d -= 1
                if d == 0:
                    break
            k += 1
        out.append((j, k))
    for m in re.finditer(r"\b(?:for|while)\s*\(", body):
        i = m.end() - 1
        d = 0
        while i < len(body):
            if body[i] == "(":
                d += 1
            elif body[i] == ")":
                d -= 1
                if d == 0:
                    break
            i += 1
        j = i + 1
        while j < len(body) and body[j] in " \t\r\n":
            j += 1
        if j < len(body) and body[j] == ";":
            continue                      # the `while (…);` that closes a do-loop
        if j >= len(body) or body[j] != "{":
            raise ExtractFail("gen_instr", "loop without a brace block")
        d = 0
        k = j
        while k < len(body):
            if body[k] == "{":
                d += 1
            elif body[k] == "}":
                d -= 1
                if d == 0:
                    break
            k += 1
        out.append((j, k))
    return out


def _steps_of_text(text, arg, known_readers, where, resolve):
    """Steps of the reads of buffer expression `arg` in `text`, in textual order."""
    loops = _for_ranges(text)
    steps = []
    pat = re.compile(r"\b(\w+)\s*\(\s*%s\s*[,)]" % re.escape(arg))
    for m in pat.finditer(text):
        name = m.group(1)
        in_loop = any(a <= m.start() <= b for a, b in loops)
        if name in PRIMS:
            steps.append(("counted" if in_loop else "one", PRIMS[name]))
        elif name in known_readers:
            if in_loop:
                raise ExtractFail(where, f"reader {name} called inside a loop")
            steps += resolve(name)
        else:
            raise ExtractFail(where, f"unknown function `{name}` consumes the code buffer")
    for kind, _ in steps[:1]:
        if kind == "counted":
            raise ExtractFail(where, "a counted read without a preceding count")
    return steps


def reader_rows(repo):
    srcs = {"instruction.c": _read(repo, "instruction.c"), "instruction.h": _read(repo, "instruction.h"),
            "valuetype.h": _read(repo, "valuetype.h")}
    raws = {fn: open(os.path.join(repo, "w2c2", fn)).read() for fn in srcs}
    names = []
    bodies = {}
    for fn, src in srcs.items():
        for m in re.finditer(r"^(wasm\w+InstructionRead|wasmReadBlockType|wasmReadValueType)\s*\(", src, re.M):
            name = m.group(1)
            try:
                function_body(src, name, fn)
            except ExtractFail:
                continue                      # a prototype
            if name not in bodies:
                names.append(name)
                # canonical form (readernorm): for = while, switch = if-chain, … ; the buffer parameter is renamed to
                # `buffer` so that the patterns below need not know its name
                body = rn.canon(raws[fn], name, fn)
                par = rn.param_names(raws[fn], name, fn)
                if not par:
                    raise ExtractFail(fn, f"{name} has no parameters")
                body = re.sub(r"\b%s\b" % re.escape(par[0]), "buffer", body)
                bodies[name] = (fn, body)
    for need in ("wasmLocalInstructionRead", "wasmGlobalInstructionRead", "wasmConstInstructionRead",
                 "wasmMemoryArgumentInstructionRead", "wasmCallInstructionRead", "wasmCallIndirectInstructionRead",
                 "wasmBranchInstructionRead", "wasmBranchTableInstructionRead", "wasmMemoryInstructionRead",
                 "wasmMemoryCopyInstructionRead", "wasmMemoryInitInstructionRead", "wasmReadBlockType"):
        if need not in bodies:
            raise ExtractFail("instruction.c", f"reader {need} not found")
    memo = {}

    def resolve(name):
        if name in memo:
            if memo[name] is None:
                raise ExtractFail(bodies[name][0], f"recursive reader {name}")
            return memo[name]
        memo[name] = None
        fn, body = bodies[name]
        if re.search(r"\bswitch\s*\(", body):
            raise ExtractFail(fn, f"{name}: switch in a reader that is not wasmConstInstructionRead")
        memo[name] = _steps_of_text(body, "buffer", bodies, fn, resolve)
        return memo[name]
    rows = []
    for name in names:
        fn, body = bodies[name]
        if name == "wasmConstInstructionRead":
            sw = body[body.index("switch"):]
            sw = sw[sw.index("{") + 1:]
            seen = 0
            for labels, t in switch_groups(sw):
                if labels == ["default"]:
                    if _steps_of_text(t, "buffer", bodies, fn, resolve):
                        raise ExtractFail(fn, "wasmConstInstructionRead reads in its default case")
                    continue
                st = _steps_of_text(t, "buffer", bodies, fn, resolve)
                for l in labels:
                    if l != "default":
                        rows.append((name + "/" + l, st))
                        seen += 1
            if seen != 4:
                raise ExtractFail(fn, f"wasmConstInstructionRead has {seen} cases, expected the four const opcodes")
            order = ["wasmOpcodeI32Const", "wasmOpcodeI64Const", "wasmOpcodeF32Const", "wasmOpcodeF64Const"]   # opcode order 0x41..0x44
            mine = [r for r in rows if r[0].startswith(name + "/")]
            rows = [r for r in rows if not r[0].startswith(name + "/")] + \
                sorted(mine, key=lambda r: (order.index(r[0].split("/")[1]) if r[0].split("/")[1] in order else 99, r[0]))
        else:
            rows.append((name, resolve(name)))
    return rows, bodies, resolve


def dispatch_rows(repo, reader_bodies, resolve_reader):
    cc = _read(repo, "c.c")
    oh = _read(repo, "opcode.h")
    enums = {}
    for en in ("WasmOpcode", "WasmMiscOpcode", "WasmThreadsOpcode"):
        enums.update(dict(enum_values(oh, en, "opcode.h")))
    fnames = set(re.findall(r"^(wasmC\w+)\s*\(\s*$", cc, re.M))
    memo = {}

    def steps_of_function(name, depth=0):
        if name == "wasmCWriteFunctionCode":
            return []                 # the nested instruction sequence: not an immediate
        if name in memo:
            if memo[name] is None:
                return []             # recursion through block bodies
            return memo[name]
        memo[name] = None
        body = function_body(cc, name, "c.c")
        memo[name] = steps_of_text(body, "c.c:" + name, depth + 1)
        return memo[name]

    tok = re.compile(r"\b(\w+)\s*\(\s*(writer->code|writer)\s*[,)]")

    def steps_of_text(text, where, depth=0):
        if depth > 12:
            raise ExtractFail(where, "call chain too deep")
        loops = _for_ranges(text) if ("for" in text or "while" in text) else []
        steps = []
        for m in tok.finditer(text):
            name, arg = m.group(1), m.group(2)
            if arg == "writer->code":
                in_loop = any(a <= m.start() <= b for a, b in loops)
                if in_loop:
                    raise ExtractFail(where, f"{name} reads the code buffer inside a loop")
                if name in PRIMS:
                    steps.append(("one", PRIMS[name]))
                elif name in reader_bodies and name != "wasmConstInstructionRead":
                    steps += resolve_reader(name)
                elif name == "wasmConstInstructionRead":
                    steps.append(("const", None))
                elif name == "wasmOpcodeRead":
                    if "wasmCWriteFunctionCode" not in where:
                        raise ExtractFail(where, "wasmOpcodeRead outside the instruction loop")
                else:
                    raise ExtractFail(where, f"unknown function `{name}` consumes writer->code")
            elif name in fnames:
                steps += steps_of_function(name, depth)
        return steps

    body = function_body(cc, "wasmCWriteFunctionCode", "c.c")
    sw = body[body.index("switch"):]
    sw = sw[sw.index("{") + 1:]
    rows = {"main": [], "misc": [], "threads": []}
    subop = {}
    const_rows = dict((n.split("/")[1], st) for n, st in READER_ROWS if n.startswith("wasmConstInstructionRead/"))

    def kind_of(label):
        if label.startswith("wasmMiscOpcode"):
            return "misc"
        if label.startswith("wasmThreadsOpcode"):
            return "threads"
        if label.startswith("wasmOpcode"):
            return "main"
        raise ExtractFail("c.c", f"case label {label} of unknown enum")

    def walk(text, where):
        for labels, t in switch_groups(text):
            inner = re.search(r"switch\s*\(([^)]*)\)\s*\{", t)
            if inner:
                pre = t[:inner.start()]
                s = inner.end()
                d = 1
                k = s
                while k < len(t) and d:
                    if t[k] == "{":
                        d += 1
                    elif t[k] == "}":
                        d -= 1
                    k += 1
                pre_steps = steps_of_text(pre, where + " wasmCWriteFunctionCode")
                real = [l for l in labels if l != "default"]
                if real:
                    if len(real) != 1 or len(pre_steps) != 1 or pre_steps[0][0] != "one":
                        raise ExtractFail("c.c", f"prefix case {real}: expected exactly one read of the sub-opcode")
                    subop[real[0]] = pre_steps[0][1]
                    rows["main"].append((real[0], [("subop", pre_steps[0][1])]))
                elif pre_steps:
                    raise ExtractFail("c.c", "reads before a nested switch in a default case")
                walk(t[s:k - 1], where)
                if steps_of_text(t[k:], where + " wasmCWriteFunctionCode"):
                    raise ExtractFail("c.c", "reads after a nested switch")
                continue
            st = steps_of_text(t, where + " wasmCWriteFunctionCode")
            for l in labels:
                if l == "default":
                    if st:
                        raise ExtractFail("c.c", "a default case reads immediates")
                    continue
                mine = []
                for s_ in st:
                    if s_[0] == "const":
                        if l not in const_rows:
                            raise ExtractFail("c.c", f"case {l} calls wasmConstInstructionRead")
                        mine += const_rows[l]
                    else:
                        mine.append(s_)
                rows[kind_of(l)].append((l, mine))
    walk(sw, "c.c")
    out = {}
    for k, rs in rows.items():
        seen = set()
        lst = []
        for l, st in rs:
            if l in seen:
                raise ExtractFail("c.c", f"case {l} occurs twice")
            seen.add(l)
            if l not in enums:
                raise ExtractFail("opcode.h", f"enumerator {l} not found")
            lst.append((l, enums[l], st))
        out[k] = lst
    for need in ("wasmOpcodeMiscPrefix", "wasmOpcodeThreadsPrefix"):
        if need not in subop:
            raise ExtractFail("c.c", f"prefix case {need} not found")
    for need, k in (("wasmOpcodeCallIndirect", "main"), ("wasmOpcodeBrTable", "main"), ("wasmOpcodeI64Const", "main"),
                    ("wasmOpcodeLocalGet", "main"), ("wasmOpcodeI32Load", "main"), ("wasmMiscOpcodeMemoryInit", "misc"),
                    ("wasmThreadsOpcodeAtomicFence", "threads")):
        if need not in [r[0] for r in out[k]]:
            raise ExtractFail("c.c", f"dispatch case {need} not found")
    return out, subop


def locals_shape(repo):
    raw = open(os.path.join(repo, "w2c2", "locals.h")).read()
    body = rn.canon(raw, "wasmLocalsDeclarationsGetType", "locals.h")
    par = rn.param_names(raw, "wasmLocalsDeclarationsGetType", "locals.h")
    if len(par) != 3:
        raise ExtractFail("locals.h", "wasmLocalsDeclarationsGetType: parameters")
    ds, idx, res = par
    sig = rn.function_text(rn.strip_comments(raw), "wasmLocalsDeclarationsGetType", "locals.h")[0]
    if not re.search(r"\bU32\s+" + idx + r"\b", sig):
        raise ExtractFail("locals.h", "wasmLocalsDeclarationsGetType: the index parameter is not a U32")
    lp = re.fullmatch(vpat(r"\{ (?P<decls>(?:U32 \w+ = 0; ){2})while \({i} < " + ds + r"\.declarationCount\) \{ (?P<body>.*) {i} \+= 1; \} return false; \}"), body)
    if lp is None:
        raise ExtractFail("locals.h", "wasmLocalsDeclarationsGetType: loop over the declarations not recognised: " + body[:200])
    i = lp.group("i")
    D = re.escape(f"{ds}.declarations[{i}]")
    hit = r"\{ \*" + res + " = " + D + r"\.type; return true; \}"
    shapes = (
        (r"if \(" + idx + r" < {cnt} \+ " + D + r"\.count\) " + hit + r" {cnt} \+= " + D + r"\.count;", "indexBelowTotalPlusCount"),
        (r"{cnt} \+= " + D + r"\.count; if \(" + idx + r" <= {cnt} - 1\) " + hit, "accumulateThenIndexAtMostTotalMinusOne"),
        (r"{cnt} \+= " + D + r"\.count; if \(" + idx + r" < {cnt}\) " + hit, "accumulateThenIndexBelowTotal"),
    )
    for pat, name in shapes:
        m = re.fullmatch(vpat(pat), lp.group("body"))
        if m:
            cnt = m.group("cnt")
            if sorted(re.findall(r"U32 (\w+) = 0; ", lp.group("decls"))) != sorted([cnt, i]):
                raise ExtractFail("locals.h", "wasmLocalsDeclarationsGetType: the running total / the index are not U32 locals starting at 0")
            return name
    raise ExtractFail("locals.h", "wasmLocalsDeclarationsGetType: loop body not recognised: " + lp.group("body")[:200])


READER_ROWS = []


def _lean_steps(st):
    return "[" + ", ".join((".subop ." + p) if k == "subop" else f".{k} .{p}" for k, p in st) + "]"


def generate(repo):
    global READER_ROWS
    rows, bodies, resolve = reader_rows(repo)
    READER_ROWS = rows
    disp, subop = dispatch_rows(repo, bodies, resolve)
    shape = locals_shape(repo)
    L = []
    L.append("-- GENERATED by tools/extract/gen_instr.py from /repo/w2c2/{instruction.c,instruction.h,valuetype.h,locals.h,c.c,opcode.h} — do not edit.")
    L.append("namespace W2c2Verif.Gen.Instr")
    L.append("")
    L.append("/-- the buffer primitives an immediate reader calls (leb128.h, buffer.h) -/")
    L.append("inductive Prim | lebU32 | lebI32 | lebU64 | lebI64 | byte | f32 | f64")
    L.append("  deriving DecidableEq, Repr")
    L.append("")
    L.append("/-- one read: a single value; a `for` loop reading as many values as the value read just before; the sub-opcode")
    L.append("    after a prefix byte (then the row of that sub-opcode continues) -/")
    L.append("inductive Step | one (p : Prim) | counted (p : Prim) | subop (p : Prim)")
    L.append("  deriving DecidableEq, Repr")
    L.append("")
    L.append("/-- instruction.c / instruction.h / valuetype.h: reader (`function` or `function/case`) → steps, nested readers inlined -/")
    L.append("def readers : List (String × List Step) := [")
    L.append(",\n".join(f'  ("{n}", {_lean_steps(st)})' for n, st in rows) + "]")
    L.append("")
    for k, nm, doc in (("main", "opcodeImm", "c.c wasmCWriteFunctionCode: (opcode enumerator, opcode byte, steps reading the immediates after the opcode)"),
                       ("misc", "miscOpcodeImm", "the nested switch after the 0xFC prefix: (enumerator, sub-opcode, steps after the sub-opcode)"),
                       ("threads", "threadsOpcodeImm", "the nested switch after the 0xFE prefix")):
        L.append(f"/-- {doc} -/")
        L.append(f"def {nm} : List (String × Nat × List Step) := [")
        L.append(",\n".join(f'  ("{l}", {v}, {_lean_steps(st)})' for l, v, st in disp[k]) + "]")
        L.append("")
    L.append("/-- wasmLocalsDeclarationsGetType (locals.h), the loop over the declarations in U32 arithmetic:")
    L.append("    `indexBelowTotalPlusCount`: `if (localIndex < localsCount + count) return type; localsCount += count;`")
    L.append("    `accumulateThenIndexAtMostTotalMinusOne`: `localsCount += count; if (localIndex <= localsCount - 1) return type;`")
    L.append("    `accumulateThenIndexBelowTotal`: `localsCount += count; if (localIndex < localsCount) return type;` -/")
    L.append(f'def localsLookupShape : String := "{shape}"')
    L.append("")
    L.append("end W2c2Verif.Gen.Instr")
    return "\n".join(L) + "\n"


if __name__ == "__main__":
    import sys
    sys.stdout.write(generate(sys.argv[1] if len(sys.argv) > 1 else "/repo"))
