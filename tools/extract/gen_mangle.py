"""gen_mangle — regenerate lean/W2c2Verif/Gen/Mangle.lean from /repo/w2c2/c.c (+ stringbuilder.c).

The C identifier of an import is `esc(module) ++ separator ++ esc(field)`; `esc` exists twice in c.c (`wasmCWriteFileEscaped`
writes to a FILE, `wasmCWriteStringEscaped` to a StringBuilder).  Extracted as DATA, from BOTH copies (they must agree; anything
outside the shape below raises ExtractFail = broken tie):

    static const char escapeChar = '<E>';
    for (; *p != '\\0'; p++) {                       every byte of the name, in order
        const char c = *p;
        if (c == '_') {                              underscore:
            const bool wasUnderscore = p != name && *(p-1) == '_';
            if (wasUnderscore) <write "<DOUBLED>">   … directly after an underscore
            else <write c>
        } else if (<KEEP>) <write c>                 KEEP = conjunction of atoms: `c != escapeChar`, `isalnum((unsigned char) c)`
        else <write escapeChar, then c as %02X>      two upper-case hex digits of (unsigned char) c
    }

  * `escapeChar`, `keepCond` (the atoms of KEEP, in source order), `doubled`, `separator` (wasmImportNameSeparator), and the fact
    that `wasmCWriteFileImportName` / the String variants write <module part>, the separator, esc(name) in this order.
  * the MODULE part (`moduleLeadEscape`): whether ALL import sites send the module name through the wrappers
    `wasmCWrite{File,String}EscapedModule` (since /repo ed458af) and what those do — `if (<conditions on module[0]>) { write escapeChar,
    module[0] as %02X; module++; } <escape the rest>`; on a tree without the wrappers (or where no site uses them) the list is empty
    = the old rule esc(module).  Sites that disagree with each other, wrappers that disagree, any other shape: ExtractFail.
Model/Mangle.lean interprets these; Props/C04Mangle.lean proves the mangling injective (and that Model/Render.lean's hand-written
`escapeName`, which emit-tokens ties to the real output, is this rule).
"""
import os
import re

from cfront import ExtractFail
from gen_instantiate import strip_comments, function_body

GEN_NAME = "Mangle"
C = "w2c2/c.c"
ATOMS = {"c!=escapeChar": "notEscapeChar", "isalnum((unsignedchar)c)": "alnum"}


def nows(s):
    return re.sub(r"\s+", "", s)


def c_char(lit, where):
    m = re.fullmatch(r"'(\\.|[^'\\])'", lit)
    if not m:
        raise ExtractFail(where, "not a character literal: %s" % lit)
    t = m.group(1)
    if t.startswith("\\"):
        esc = {"\\0": 0, "\\n": 10, "\\t": 9, "\\\\": 92, "\\'": 39}
        if t not in esc:
            raise ExtractFail(where, "character escape %s" % t)
        return esc[t]
    return ord(t)


def c_string(lit, where):
    m = re.fullmatch(r'"((?:[^"\\])*)"', lit)
    if not m:
        raise ExtractFail(where, "not a plain string literal: %s" % lit)
    return [ord(ch) for ch in m.group(1)]


def parse_escaped(src, fname, kind):
    """kind 'file' | 'string' -> dict(escapeChar, keep, doubled)"""
    body, line = function_body(src, fname, C)
    where = "%s:%d (%s)" % (C, line, fname)
    t = nows(body)
    if kind == "file":
        W_DOUBLED = r'fputs\(("[^"]*"),file\);'
        W_C = r"fputc\(c,file\);"
        W_HEX = r'fprintf\(file,"%c%02X",escapeChar,\(unsignedchar\)c\);'
        tail = r"\}"
    else:
        W_DOUBLED = r'MUST\(stringBuilderAppend\(builder,("[^"]*")\)\)'
        W_C = r"MUST\(stringBuilderAppendChar\(builder,c\)\)"
        W_HEX = r"MUST\(stringBuilderAppendChar\(builder,escapeChar\)\)MUST\(stringBuilderAppendCharHex\(builder,c\)\)"
        tail = r"\}returntrue;"
    rx = (r"staticconstcharescapeChar=('(?:\\.|[^'\\])');constchar\*p=name;for\(;\*p!='\\0';p\+\+\)\{constcharc=\*p;"
          r"if\(c==('(?:\\.|[^'\\])')\)\{constboolwasUnderscore=p!=name&&\*\(p-1\)==('(?:\\.|[^'\\])');"
          r"if\(wasUnderscore\)\{" + W_DOUBLED + r"\}else\{" + W_C + r"\}"
          r"\}elseif\((.*?)\)\{" + W_C + r"\}else\{" + W_HEX + r"\}" + tail)
    m = re.fullmatch(rx, t)
    if not m:
        raise ExtractFail(where, "the escaping loop has an unexpected shape")
    esc = c_char(m.group(1), where)
    us1, us2 = c_char(m.group(2), where), c_char(m.group(3), where)
    if us1 != us2:
        raise ExtractFail(where, "the doubled character (%r) is not the one tested for repetition (%r)" % (us1, us2))
    keep = []
    for part in m.group(5).split("&&"):
        if part not in ATOMS:
            raise ExtractFail(where, "unknown atom `%s` in the keep condition" % part)
        keep.append(ATOMS[part])
    if len(set(keep)) != len(keep):
        raise ExtractFail(where, "atom repeated in the keep condition")
    return {"escapeChar": esc, "underscore": us1, "keep": keep, "doubled": c_string(m.group(4), where)}


def check_hex_appender(repo):
    p = os.path.join(repo, "w2c2", "stringbuilder.c")
    src = strip_comments(open(p).read())
    body, line = function_body(src, "stringBuilderAppendCharHex", "w2c2/stringbuilder.c")
    if nows(body) != 'charbuffer[3];constintlength=sprintf(buffer,"%02X",(unsignedchar)value);returnstringBuilderAppendSized(stringBuilder,buffer,(size_t)length);':
        raise ExtractFail("w2c2/stringbuilder.c:%d" % line, "stringBuilderAppendCharHex is no longer `%02X` of (unsigned char) value")


LEAD_ATOMS = {"isdigit((unsignedchar)module[0])": "digit"}


def module_wrapper(src, fname, kind, escape_char):
    """`wasmCWrite{File,String}EscapedModule` if it exists: [atoms] — disjunction of the conditions on module[0] under which that first
    byte is written as escapeChar + %02X before the REST of the name goes through the escaping routine (as a fresh name); None when
    the function does not exist (the module part is written by the escaping routine directly)"""
    if not re.search(r"^%s\(" % re.escape(fname), src, re.M):
        return None
    body, line = function_body(src, fname, C)
    where = "%s:%d (%s)" % (C, line, fname)
    t = nows(body)
    if kind == "file":
        rx = (r"if\((.*?)\)\{fprintf\(file,\"(.)%02X\",\(unsignedchar\)module\[0\]\);module\+\+;\}wasmCWriteFileEscaped\(file,module\);")
    else:
        rx = (r"if\((.*?)\)\{MUST\(stringBuilderAppendChar\(builder,'(.)'\)\)MUST\(stringBuilderAppendCharHex\(builder,module\[0\]\)\)module\+\+;\}"
              r"returnwasmCWriteStringEscaped\(builder,module\);")
    m = re.fullmatch(rx, t)
    if not m:
        raise ExtractFail(where, "the module-name wrapper has an unexpected shape")
    if ord(m.group(2)) != escape_char:
        raise ExtractFail(where, "the wrapper escapes with %r, the escaping routine with %r" % (m.group(2), chr(escape_char)))
    atoms = []
    for part in m.group(1).split("||"):
        if part not in LEAD_ATOMS:
            raise ExtractFail(where, "unknown condition `%s` on the first byte of the module name" % part)
        atoms.append(LEAD_ATOMS[part])
    return atoms


def check_import_name(src, escape_char):
    """(separator, lead atoms): an import's identifier is <module part>, separator, esc(name) — in the FILE writer and in every
    String-builder use; the module part is esc(module) or, when every site goes through the wrappers, what the wrappers write"""
    m = re.search(r'static\s+const\s+char\*\s*wasmImportNameSeparator\s*=\s*("[^"]*")\s*;', src)
    if not m:
        raise ExtractFail(C, "wasmImportNameSeparator not found")
    sep = c_string(m.group(1), C)
    wf = module_wrapper(src, "wasmCWriteFileEscapedModule", "file", escape_char)
    ws = module_wrapper(src, "wasmCWriteStringEscapedModule", "string", escape_char)
    body, line = function_body(src, "wasmCWriteFileImportName", C)
    mm = re.fullmatch(r"(wasmCWriteFileEscaped|wasmCWriteFileEscapedModule)\(file,module\);fputs\(wasmImportNameSeparator,file\);wasmCWriteFileEscaped\(file,name\);", nows(body))
    if not mm:
        raise ExtractFail("%s:%d" % (C, line), "wasmCWriteFileImportName no longer writes <module part>, separator, esc(name)")
    file_wrapped = mm.group(1).endswith("Module")
    if file_wrapped and wf is None:
        raise ExtractFail("%s:%d" % (C, line), "wasmCWriteFileEscapedModule is called but not defined")
    flat = nows(src)
    uses = re.findall(r"MUST\((wasmCWriteStringEscaped|wasmCWriteStringEscapedModule)\(builder,(\w+)\.module\)\)(.*?)MUST\(wasmCWriteStringEscaped\(builder,(\w+)\.name\)\)", flat)
    if not uses:
        raise ExtractFail(C, "no String-builder import name found")
    for fn, a, mid, b in uses:
        if a != b or mid != "MUST(stringBuilderAppend(builder,wasmImportNameSeparator))":
            raise ExtractFail(C, "a String-builder import name is not <module part>, separator, esc(name): %s…%s" % (a, b))
    wrapped = set(fn.endswith("Module") for fn, a, mid, b in uses) | {file_wrapped}
    if len(wrapped) != 1:
        raise ExtractFail(C, "the module part of an import name goes through the wrapper at some sites and not at others")
    wrapped = wrapped.pop()
    if wrapped and (ws is None or wf != ws):
        raise ExtractFail(C, "the FILE and String-builder module-name wrappers differ: %r vs %r" % (wf, ws))
    n_mod = len(re.findall(r"wasmCWriteStringEscaped(?:Module)?\(builder,\w+\.module\)", flat))
    n_name = len(re.findall(r"wasmCWriteStringEscaped\(builder,\w+\.name\)", flat))
    n_all = len(re.findall(r"wasmCWriteStringEscaped\(builder,", flat))
    n_inner = 1 if ws is not None else 0           # the wrapper's own call `wasmCWriteStringEscaped(builder, module)`
    if n_mod != len(uses) or n_name != len(uses) or n_all != (0 if wrapped else len(uses)) + len(uses) + n_inner:
        raise ExtractFail(C, "wasmCWriteStringEscaped is used outside the module/separator/name triples (%d uses, %d triples)" % (n_all, len(uses)))
    eb, eline = function_body(src, "wasmCWriteExportName", C)
    if nows(eb) != 'fprintf(file,"%s_",moduleName);wasmCWriteFileEscaped(file,name);':
        raise ExtractFail("%s:%d" % (C, eline), "wasmCWriteExportName is no longer `<module>_` followed by esc(name)")
    n_file = len(re.findall(r"wasmCWriteFileEscaped\(file,", flat))
    if n_file != 3 + (1 if (wf is not None and not file_wrapped) else 0):
        raise ExtractFail(C, "wasmCWriteFileEscaped is used outside wasmCWriteFileImportName / the module wrapper / wasmCWriteExportName (%d uses)" % n_file)
    n_wf = len(re.findall(r"wasmCWriteFileEscapedModule\(file,", flat))
    if n_wf != (1 if file_wrapped else 0):
        raise ExtractFail(C, "wasmCWriteFileEscapedModule is used outside wasmCWriteFileImportName (%d uses)" % n_wf)
    return sep, (wf if wrapped else [])


def lean_nats(xs):
    return "[" + ", ".join(str(x) for x in xs) + "]"


def generate(repo):
    src = strip_comments(open(os.path.join(repo, "w2c2", "c.c")).read())
    a = parse_escaped(src, "wasmCWriteFileEscaped", "file")
    b = parse_escaped(src, "wasmCWriteStringEscaped", "string")
    if a != b:
        raise ExtractFail(C, "the two copies of the escaping routine differ: FILE %r vs StringBuilder %r" % (a, b))
    check_hex_appender(repo)
    sep, lead = check_import_name(src, a["escapeChar"])
    out = ["/- GENERATED by tools/extract/gen_mangle.py from w2c2/c.c — do not edit. -/",
           "namespace W2c2Verif.Gen.Mangle",
           "",
           "/-- `static const char escapeChar` of wasmCWriteFileEscaped / wasmCWriteStringEscaped (both copies agree) -/",
           "def escapeChar : Nat := %d" % a["escapeChar"],
           "",
           "/-- the character written once, or as `doubled` when it directly follows itself -/",
           "def underscore : Nat := %d" % a["underscore"],
           "def doubled : List Nat := %s" % lean_nats(a["doubled"]),
           "",
           "/-- atoms of the condition under which any other byte is copied unchanged -/",
           "inductive KeepAtom | notEscapeChar | alnum",
           "  deriving DecidableEq, Repr, Inhabited",
           "",
           "/-- `else if (<conjunction of these>) <write c>`; every remaining byte is written as escapeChar followed by `%02X` -/",
           "def keepCond : List KeepAtom := [%s]" % ", ".join("." + k for k in a["keep"]),
           "",
           "/-- `wasmImportNameSeparator`: an import's identifier is <module part>, this, esc(field) -/",
           "def separator : List Nat := %s" % lean_nats(sep),
           "",
           "/-- conditions on the FIRST byte of the module name -/",
           "inductive LeadAtom | digit",
           "  deriving DecidableEq, Repr, Inhabited",
           "",
           "/-- the module part: when one of these holds for the first byte (`wasmCWrite{File,String}EscapedModule`), that byte is written as",
           "    escapeChar followed by `%02X` and the REST goes through the escaping routine as a name of its own; otherwise (and always when",
           "    the list is empty: no wrapper at the import sites) the whole module name goes through the escaping routine -/",
           "def moduleLeadEscape : List LeadAtom := [%s]" % ", ".join("." + x for x in lead),
           "",
           "end W2c2Verif.Gen.Mangle"]
    return "\n".join(out) + "\n"


if __name__ == "__main__":
    import sys
    print(generate(sys.argv[1] if len(sys.argv) > 1 else "/repo"))
