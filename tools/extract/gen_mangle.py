"""gen_mangle — regenerate lean/W2c2Verif/Gen/Mangle.lean from /repo/w2c2/c.c (+ stringbuilder.c).

The C identifier of an import is `esc(module) ++ separator ++ esc(field)`; `esc` exists twice in c.c (`wasmCWriteFileEscaped`
writes to a FILE, `wasmCWriteStringEscaped` to a StringBuilder).  Extracted as DATA, from BOTH copies (they must agree; anything
outside the shape below raises ExtractFail = broken tie).  The routines are read on the normal form of tools/extract/cnorm.py: parameter
and local names are free, temporaries (`c`, `wasUnderscore`, `escapeChar`) are substituted, literals go by value, and the walk over
the name may be by pointer or by index:

    static const char escapeChar = '<E>';
    for (; *p != '\\0'; p++) {                       every byte of the name, in order
        const char c = *p;
        if (c == '_') {                              underscore:
            const bool wasUnderscore = p != name && *(p-1) == '_';
            if (wasUnderscore) <write "<DOUBLED>">   … directly after an underscore
            else <write c>
        } else if (<KEEP>) <write c>                 KEEP = conjunction of atoms: `c != escapeChar`, `isalnum((unsigned char) c)`
        else <write escapeChar, then c as %02X>      two upper-case hex digits of (unsigned char) c
    }

  * `escapeChar`, `keepCond` (the atoms of KEEP, in source order), `doubled`, `separator` (wasmImportNameSeparator), and the fact
    that `wasmCWriteFileImportName` / the String variants write <module part>, the separator, esc(name) in this order.
  * the MODULE part (`moduleLeadEscape`): whether ALL import sites send the module name through the wrappers
    `wasmCWrite{File,String}EscapedModule` (since /repo ed458af) and what those do — `if (<conditions on module[0]>) { write escapeChar,
    module[0] as %02X; module++; } <escape the rest>`; on a tree without the wrappers (or where no site uses them) the list is empty
    = the old rule esc(module).  Sites that disagree with each other, wrappers that disagree, any other shape: ExtractFail.
Model/Mangle.lean interprets these; Props/C04Mangle.lean proves the mangling injective (and that Model/Render.lean's hand-written
`escapeName`, which emit-tokens ties to the real output, is this rule).
"""
import os
import re

from cfront import ExtractFail
from gen_instantiate import strip_comments, function_body

GEN_NAME = "Mangle"
C = "w2c2/c.c"


def nows(s):
    return re.sub(r"\s+", "", s)


def c_char(lit, where):
    m = re.fullmatch(r"'(\\.|[^'\\])'", lit)
    if not m:
        raise ExtractFail(where, "not a character literal: %s" % lit)
    t = m.group(1)
    if t.startswith("\\"):
        esc = {"\\0": 0, "\\n": 10, "\\t": 9, "\\\\": 92, "\\'": 39}
        if t not in esc:
            raise ExtractFail(where, "character escape %s" % t)
        return esc[t]
    return ord(t)


def c_string(lit, where):
    m = re.fullmatch(r'"((?:[^"\\])*)"', lit)
    if not m:
        raise ExtractFail(where, "not a plain string literal: %s" % lit)
    return [ord(ch) for ch in m.group(1)]


def _map_node(nd, f):
    """apply f to every text of a normal-form node"""
    def fc(c):
        if isinstance(c, tuple):
            return (c[0], tuple((fc(x), p) for x, p in c[1])) if c[0] in ("or", "and") else (c[0], fc(c[1]))
        return f(c)
    k = nd[0]
    if k in ("do", "return"):
        return (k, f(nd[1]))
    if k == "if":
        return ("if", fc(nd[1]), [_map_node(x, f) for x in nd[2]], [_map_node(x, f) for x in nd[3]])
    if k == "while":
        return ("while", fc(nd[1]), [_map_node(x, f) for x in nd[2]])
    return nd


def _normal(src, fname):
    """normal form (cnorm) of `fname` with its parameters renamed by position to P0_, P1_, …"""
    import cnorm
    import gen_alloc
    body, line = function_body(src, fname, C)
    where = "%s:%d (%s)" % (C, line, fname)
    names = gen_alloc.params_of(src, fname, where)
    return cnorm.normalize(gen_alloc.rename_params(body, names), where), where


def parse_escaped(src, fname, kind):
    """kind 'file' | 'string' -> dict(escapeChar, keep, doubled).  Read on the normal form: the walk over the bytes of the name may be a
    pointer walk (`p = name; *p != 0; p++`, current byte `*p`, previous `*(p-1)`, not-first `p != name`) or an index walk (`k = 0;
    name[k] != 0; k++`, `name[k]`, `name[k-1]`, `k != 0`); local and parameter names are free, temporaries substituted, literals by value"""
    nodes, where = _normal(src, fname)
    if kind == "string":
        if not nodes or nodes[-1] != ("return", "true"):
            raise ExtractFail(where, "the routine does not end in `return true`")
        nodes = nodes[:-1]
    if len(nodes) != 2 or nodes[0][0] != "do" or nodes[1][0] != "while":
        raise ExtractFail(where, "the escaping routine is not one walk over the name")
    m = re.fullmatch(r"(\$v\d+)=(P1_|0)", nodes[0][1])
    if not m:
        raise ExtractFail(where, "the walk does not start at the first byte of the name: %s" % nodes[0][1])
    v = m.group(1)
    if m.group(2) == "P1_":
        cur, prev, head = ["(*%s)" % v, "*%s" % v], "*(%s-1)" % v, [("%s==P1_" % v, False)]
    else:
        cur, prev, head = ["P1_[%s]" % v], "P1_[%s-1]" % v, [(v, True), ("0<" + v, True)]
    if nodes[1][1] != cur[-1] or not nodes[1][2] or nodes[1][2][-1] != ("do", v + "+=1"):
        raise ExtractFail(where, "the walk does not visit every byte up to the terminating NUL, one at a time")

    def canon(t):
        t = t.replace(prev, "PREV")
        for c_ in cur:
            t = t.replace(c_, "c")
        return t
    body = [_map_node(x, canon) for x in nodes[1][2][:-1]]
    if kind == "file":
        w_c = [("do", "fputc(c,P0_)")]
        doubled_rx = r'fputs\(("[^"]*"),P0_\)'
        hex_rx = [r'fprintf\(P0_,"%c%02X",(\d+),\(unsigned char\)c\)']
    else:
        w_c = [("do", "MUST(stringBuilderAppendChar(P0_,c))")]
        doubled_rx = r'MUST\(stringBuilderAppend\(P0_,("[^"]*")\)\)'
        hex_rx = [r"MUST\(stringBuilderAppendChar\(P0_,(\d+)\)\)", r"MUST\(stringBuilderAppendCharHex\(P0_,c\)\)"]
    if len(body) != 1 or body[0][0] != "if":
        raise ExtractFail(where, "the escaping loop has an unexpected shape")
    _, c_us, us_then, rest = body[0]
    mu = re.fullmatch(r"c==(\d+)", c_us) if isinstance(c_us, str) else None
    if not mu or len(us_then) != 1 or us_then[0][0] != "if" or len(rest) != 1 or rest[0][0] != "if":
        raise ExtractFail(where, "the escaping loop has an unexpected shape")
    us1 = int(mu.group(1))
    _, c_was, dbl, single = us_then[0]
    ok = isinstance(c_was, tuple) and c_was[0] == "and" and len(c_was[1]) == 2 and c_was[1][0] in head
    mp = re.fullmatch(r"PREV==(\d+)", c_was[1][1][0]) if ok and c_was[1][1][1] and isinstance(c_was[1][1][0], str) else None
    if not mp:
        raise ExtractFail(where, "the test for a preceding underscore has an unexpected shape: %r" % (c_was,))
    us2 = int(mp.group(1))
    if us1 != us2:
        raise ExtractFail(where, "the doubled character (%r) is not the one tested for repetition (%r)" % (us1, us2))
    md = re.fullmatch(doubled_rx, dbl[0][1]) if len(dbl) == 1 and dbl[0][0] == "do" else None
    if not md or single != w_c:
        raise ExtractFail(where, "an underscore is not written as the doubled text after an underscore / as itself otherwise")
    _, c_keep, kept, escd = rest[0]
    if kept != w_c or len(escd) != len(hex_rx) or any(x[0] != "do" for x in escd):
        raise ExtractFail(where, "kept bytes are not written as themselves / escaped bytes not as escapeChar + %02X")
    mh = [re.fullmatch(rx, x[1]) for rx, x in zip(hex_rx, escd)]
    if not all(mh):
        raise ExtractFail(where, "escaped bytes are not written as escapeChar followed by %%02X of (unsigned char) c: %r" % (escd,))
    esc = int(mh[0].group(1))
    keep = []
    for x, pos in (c_keep[1] if isinstance(c_keep, tuple) and c_keep[0] == "and" else ((c_keep, True),)):
        if (x, pos) == ("c==%d" % esc, False):
            keep.append("notEscapeChar")
        elif (x, pos) == ("isalnum((unsigned char)c)", True):
            keep.append("alnum")
        else:
            raise ExtractFail(where, "unknown atom %r in the keep condition" % ((x, pos),))
    if len(set(keep)) != len(keep):
        raise ExtractFail(where, "atom repeated in the keep condition")
    return {"escapeChar": esc, "underscore": us1, "keep": keep, "doubled": c_string(md.group(1), where)}


def check_hex_appender(repo):
    p = os.path.join(repo, "w2c2", "stringbuilder.c")
    src = strip_comments(open(p).read())
    body, line = function_body(src, "stringBuilderAppendCharHex", "w2c2/stringbuilder.c")
    if nows(body) != 'charbuffer[3];constintlength=sprintf(buffer,"%02X",(unsignedchar)value);returnstringBuilderAppendSized(stringBuilder,buffer,(size_t)length);':
        raise ExtractFail("w2c2/stringbuilder.c:%d" % line, "stringBuilderAppendCharHex is no longer `%02X` of (unsigned char) value")


def module_wrapper(src, fname, kind, escape_char):
    """`wasmCWrite{File,String}EscapedModule` if it exists: [atoms] — disjunction of the conditions on module[0] under which that first
    byte is written as escapeChar + %02X before the REST of the name goes through the escaping routine (as a fresh name); None when
    the function does not exist (the module part is written by the escaping routine directly).  Read on the normal form."""
    if not re.search(r"^%s\(" % re.escape(fname), src, re.M):
        return None
    nodes, where = _normal(src, fname)
    if kind == "file":
        first = [r'fprintf\(P0_,"(.)%02X",\(unsigned char\)P1_\[0\]\)']
        rest = ("do", "wasmCWriteFileEscaped(P0_,P1_)")
    else:
        first = [r"MUST\(stringBuilderAppendChar\(P0_,(\d+)\)\)", r"MUST\(stringBuilderAppendCharHex\(P0_,P1_\[0\]\)\)"]
        rest = ("return", "wasmCWriteStringEscaped(P0_,P1_)")
    if len(nodes) != 2 or nodes[0][0] != "if" or nodes[0][3] or nodes[1] != rest:
        raise ExtractFail(where, "the module-name wrapper has an unexpected shape")
    then = nodes[0][2]
    if len(then) != len(first) + 1 or then[-1] != ("do", "P1_+=1") or any(x[0] != "do" for x in then):
        raise ExtractFail(where, "the module-name wrapper has an unexpected shape")
    ms = [re.fullmatch(rx, x[1]) for rx, x in zip(first, then)]
    if not all(ms):
        raise ExtractFail(where, "the first byte is not written as escapeChar followed by %02X of (unsigned char) module[0]")
    e = ord(ms[0].group(1)) if kind == "file" else int(ms[0].group(1))
    if e != escape_char:
        raise ExtractFail(where, "the wrapper escapes with %r, the escaping routine with %r" % (chr(e), chr(escape_char)))
    c = nodes[0][1]
    atoms = []
    for x, pos in (c[1] if isinstance(c, tuple) and c[0] == "or" else ((c, True),)):
        if (x, pos) != ("isdigit((unsigned char)P1_[0])", True):
            raise ExtractFail(where, "unknown condition %r on the first byte of the module name" % ((x, pos),))
        atoms.append("digit")
    return atoms


def check_import_name(src, escape_char):
    """(separator, lead atoms): an import's identifier is <module part>, separator, esc(name) — in the FILE writer and in every
    String-builder use; the module part is esc(module) or, when every site goes through the wrappers, what the wrappers write"""
    m = re.search(r'static\s+const\s+char\*\s*wasmImportNameSeparator\s*=\s*("[^"]*")\s*;', src)
    if not m:
        raise ExtractFail(C, "wasmImportNameSeparator not found")
    sep = c_string(m.group(1), C)
    wf = module_wrapper(src, "wasmCWriteFileEscapedModule", "file", escape_char)
    ws = module_wrapper(src, "wasmCWriteStringEscapedModule", "string", escape_char)
    body, line = function_body(src, "wasmCWriteFileImportName", C)
    mm = re.fullmatch(r"(wasmCWriteFileEscaped|wasmCWriteFileEscapedModule)\(file,module\);fputs\(wasmImportNameSeparator,file\);wasmCWriteFileEscaped\(file,name\);", nows(body))
    if not mm:
        raise ExtractFail("%s:%d" % (C, line), "wasmCWriteFileImportName no longer writes <module part>, separator, esc(name)")
    file_wrapped = mm.group(1).endswith("Module")
    if file_wrapped and wf is None:
        raise ExtractFail("%s:%d" % (C, line), "wasmCWriteFileEscapedModule is called but not defined")
    flat = nows(src)
    uses = re.findall(r"MUST\((wasmCWriteStringEscaped|wasmCWriteStringEscapedModule)\(builder,(\w+)\.module\)\)(.*?)MUST\(wasmCWriteStringEscaped\(builder,(\w+)\.name\)\)", flat)
    if not uses:
        raise ExtractFail(C, "no String-builder import name found")
    for fn, a, mid, b in uses:
        if a != b or mid != "MUST(stringBuilderAppend(builder,wasmImportNameSeparator))":
            raise ExtractFail(C, "a String-builder import name is not <module part>, separator, esc(name): %s…%s" % (a, b))
    wrapped = set(fn.endswith("Module") for fn, a, mid, b in uses) | {file_wrapped}
    if len(wrapped) != 1:
        raise ExtractFail(C, "the module part of an import name goes through the wrapper at some sites and not at others")
    wrapped = wrapped.pop()
    if wrapped and (ws is None or wf != ws):
        raise ExtractFail(C, "the FILE and String-builder module-name wrappers differ: %r vs %r" % (wf, ws))
    n_mod = len(re.findall(r"wasmCWriteStringEscaped(?:Module)?\(builder,\w+\.module\)", flat))
    n_name = len(re.findall(r"wasmCWriteStringEscaped\(builder,\w+\.name\)", flat))
    n_all = len(re.findall(r"wasmCWriteStringEscaped\(builder,", flat))
    n_inner = 1 if ws is not None else 0           # the wrapper's own call `wasmCWriteStringEscaped(builder, module)`
    if n_mod != len(uses) or n_name != len(uses) or n_all != (0 if wrapped else len(uses)) + len(uses) + n_inner:
        raise ExtractFail(C, "wasmCWriteStringEscaped is used outside the module/separator/name triples (%d uses, %d triples)" % (n_all, len(uses)))
    eb, eline = function_body(src, "wasmCWriteExportName", C)
    if nows(eb) != 'fprintf(file,"%s_",moduleName);wasmCWriteFileEscaped(file,name);':
        raise ExtractFail("%s:%d" % (C, eline), "wasmCWriteExportName is no longer `<module>_` followed by esc(name)")
    n_file = len(re.findall(r"wasmCWriteFileEscaped\(file,", flat))
    if n_file != 3 + (1 if (wf is not None and not file_wrapped) else 0):
        raise ExtractFail(C, "wasmCWriteFileEscaped is used outside wasmCWriteFileImportName / the module wrapper / wasmCWriteExportName (%d uses)" % n_file)
    n_wf = len(re.findall(r"wasmCWriteFileEscapedModule\(file,", flat))
    if n_wf != (1 if file_wrapped else 0):
        raise ExtractFail(C, "wasmCWriteFileEscapedModule is used outside wasmCWriteFileImportName (%d uses)" % n_wf)
    return sep, (wf if wrapped else [])


def lean_nats(xs):
    return "[" + ", ".join(str(x) for x in xs) + "]"


def generate(repo):
    src = strip_comments(open(os.path.join(repo, "w2c2", "c.c")).read())
    a = parse_escaped(src, "wasmCWriteFileEscaped", "file")
    b = parse_escaped(src, "wasmCWriteStringEscaped", "string")
    if a != b:
        raise ExtractFail(C, "the two copies of the escaping routine differ: FILE %r vs StringBuilder %r" % (a, b))
    check_hex_appender(repo)
    sep, lead = check_import_name(src, a["escapeChar"])
    out = ["/- GENERATED by tools/extract/gen_mangle.py from w2c2/c.c — do not edit. -/",
           "namespace W2c2Verif.Gen.Mangle",
           "",
           "/-- `static const char escapeChar` of wasmCWriteFileEscaped / wasmCWriteStringEscaped (both copies agree) -/",
           "def escapeChar : Nat := %d" % a["escapeChar"],
           "",
           "/-- the character written once, or as `doubled` when it directly follows itself -/",
           "def underscore : Nat := %d" % a["underscore"],
           "def doubled : List Nat := %s" % lean_nats(a["doubled"]),
           "",
           "/-- atoms of the condition under which any other byte is copied unchanged -/",
           "inductive KeepAtom | notEscapeChar | alnum",
           "  deriving DecidableEq, Repr, Inhabited",
           "",
           "/-- `else if (<conjunction of these>) <write c>`; every remaining byte is written as escapeChar followed by `%02X` -/",
           "def keepCond : List KeepAtom := [%s]" % ", ".join("." + k for k in a["keep"]),
           "",
           "/-- `wasmImportNameSeparator`: an import's identifier is <module part>, this, esc(field) -/",
           "def separator : List Nat := %s" % lean_nats(sep),
           "",
           "/-- conditions on the FIRST byte of the module name -/",
           "inductive LeadAtom | digit",
           "  deriving DecidableEq, Repr, Inhabited",
           "",
           "/-- the module part: when one of these holds for the first byte (`wasmCWrite{File,String}EscapedModule`), that byte is written as",
           "    escapeChar followed by `%02X` and the REST goes through the escaping routine as a name of its own; otherwise (and always when",
           "    the list is empty: no wrapper at the import sites) the whole module name goes through the escaping routine -/",
           "def moduleLeadEscape : List LeadAtom := [%s]" % ", ".join("." + x for x in lead),
           "",
           "end W2c2Verif.Gen.Mangle"]
    return "\n".join(out) + "\n"


if __name__ == "__main__":
    import sys
    print(generate(sys.argv[1] if len(sys.argv) > 1 else "/repo"))
