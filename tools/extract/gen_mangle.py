"""gen_mangle — regenerate lean/W2c2Verif/Gen/Mangle.lean from /repo/w2c2/c.c (+ stringbuilder.c).

The C identifier of an import is `esc(module) ++ separator ++ esc(field)`; `esc` exists twice in c.c (`wasmCWriteFileEscaped`
writes to a FILE, `wasmCWriteStringEscaped` to a StringBuilder).  Extracted as DATA, from BOTH copies (they must agree; anything
outside the shape below raises ExtractFail = broken tie):

    static const char escapeChar = '<E>';
    for (; *p != '\\0'; p++) {                       every byte of the name, in order
        const char c = *p;
        if (c == '_') {                              underscore:
            const bool wasUnderscore = p != name && *(p-1) == '_';
            if (wasUnderscore) <write "<DOUBLED>">   … directly after an underscore
            else <write c>
        } else if (<KEEP>) <write c>                 KEEP = conjunction of atoms: `c != escapeChar`, `isalnum((unsigned char) c)`
        else <write escapeChar, then c as %02X>      two upper-case hex digits of (unsigned char) c
    }

  * `escapeChar`, `keepCond` (the atoms of KEEP, in source order), `doubled`, `separator` (wasmImportNameSeparator), and the fact
    that `wasmCWriteFileImportName` / the String variants write esc(module), the separator, esc(name) in this order.
Model/Mangle.lean interprets these; Props/C04Mangle.lean proves the mangling injective (and that Model/Render.lean's hand-written
`escapeName`, which emit-tokens ties to the real output, is this rule).
"""
import os
import re

from cfront import ExtractFail
from gen_instantiate import strip_comments, function_body

GEN_NAME = "Mangle"
C = "w2c2/c.c"
ATOMS = {"c!=escapeChar": "notEscapeChar", "isalnum((unsignedchar)c)": "alnum"}


def nows(s):
    return re.sub(r"\s+", "", s)


def c_char(lit, where):
    m = re.fullmatch(r"'(\\.|[^'\\])'", lit)
    if not m:
        raise ExtractFail(where, "not a character literal: %s" % lit)
    t = m.group(1)
    if t.startswith("\\"):
        esc = {"\\0": 0, "\\n": 10, "\\t": 9, "\\\\": 92, "\\'": 39}
        if t not in esc:
            raise ExtractFail(where, "character escape %s" % t)
        return esc[t]
    return ord(t)


def c_string(lit, where):
    m = re.fullmatch(r'"((?:[^"\\])*)"', lit)
    if not m:
        raise ExtractFail(where, "not a plain string literal: %s" % lit)
    return [ord(ch) for ch in m.group(1)]


def parse_escaped(src, fname, kind):
    """kind 'file' | 'string' -> dict(escapeChar, keep, doubled)"""
    body, line = function_body(src, fname, C)
    where = "%s:%d (%s)" % (C, line, fname)
    t = nows(body)
    if kind == "file":
        W_DOUBLED = r'fputs\(("[^"]*"),file\);'
        W_C = r"fputc\(c,file\);"
        W_HEX = r'fprintf\(file,"%c%02X",escapeChar,\(unsignedchar\)c\);'
        tail = r"\}"
    else:
        W_DOUBLED = r'MUST\(stringBuilderAppend\(builder,("[^"]*")\)\)'
        W_C = r"MUST\(stringBuilderAppendChar\(builder,c\)\)"
        W_HEX = r"MUST\(stringBuilderAppendChar\(builder,escapeChar\)\)MUST\(stringBuilderAppendCharHex\(builder,c\)\)"
        tail = r"\}returntrue;"
    rx = (r"staticconstcharescapeChar=('(?:\\.|[^'\\])');constchar\*p=name;for\(;\*p!='\\0';p\+\+\)\{constcharc=\*p;"
          r"if\(c==('(?:\\.|[^'\\])')\)\{constboolwasUnderscore=p!=name&&\*\(p-1\)==('(?:\\.|[^'\\])');"
          r"if\(wasUnderscore\)\{" + W_DOUBLED + r"\}else\{" + W_C + r"\}"
          r"\}elseif\((.*?)\)\{" + W_C + r"\}else\{" + W_HEX + r"\}" + tail)
    m = re.fullmatch(rx, t)
    if not m:
        raise ExtractFail(where, "the escaping loop has an unexpected shape")
    esc = c_char(m.group(1), where)
    us1, us2 = c_char(m.group(2), where), c_char(m.group(3), where)
    if us1 != us2:
        raise ExtractFail(where, "the doubled character (%r) is not the one tested for repetition (%r)" % (us1, us2))
    keep = []
    for part in m.group(5).split("&&"):
        if part not in ATOMS:
            raise ExtractFail(where, "unknown atom `%s` in the keep condition" % part)
        keep.append(ATOMS[part])
    if len(set(keep)) != len(keep):
        raise ExtractFail(where, "atom repeated in the keep condition")
    return {"escapeChar": esc, "underscore": us1, "keep": keep, "doubled": c_string(m.group(4), where)}


def check_hex_appender(repo):
    p = os.path.join(repo, "w2c2", "stringbuilder.c")
    src = strip_comments(open(p).read())
    body, line = function_body(src, "stringBuilderAppendCharHex", "w2c2/stringbuilder.c")
    if nows(body) != 'charbuffer[3];constintlength=sprintf(buffer,"%02X",(unsignedchar)value);returnstringBuilderAppendSized(stringBuilder,buffer,(size_t)length);':
        raise ExtractFail("w2c2/stringbuilder.c:%d" % line, "stringBuilderAppendCharHex is no longer `%02X` of (unsigned char) value")


def check_import_name(src):
    """esc(module), separator, esc(name) — in the FILE writer and in every String use"""
    m = re.search(r'static\s+const\s+char\*\s*wasmImportNameSeparator\s*=\s*("[^"]*")\s*;', src)
    if not m:
        raise ExtractFail(C, "wasmImportNameSeparator not found")
    sep = c_string(m.group(1), C)
    body, line = function_body(src, "wasmCWriteFileImportName", C)
    if nows(body) != "wasmCWriteFileEscaped(file,module);fputs(wasmImportNameSeparator,file);wasmCWriteFileEscaped(file,name);":
        raise ExtractFail("%s:%d" % (C, line), "wasmCWriteFileImportName no longer writes esc(module), separator, esc(name)")
    flat = nows(src)
    uses = re.findall(r"MUST\(wasmCWriteStringEscaped\(builder,(\w+)\.module\)\)(.*?)MUST\(wasmCWriteStringEscaped\(builder,(\w+)\.name\)\)", flat)
    if not uses:
        raise ExtractFail(C, "no String-builder import name found")
    for a, mid, b in uses:
        if a != b or mid != "MUST(stringBuilderAppend(builder,wasmImportNameSeparator))":
            raise ExtractFail(C, "a String-builder import name is not esc(module), separator, esc(name): %s…%s" % (a, b))
    n_mod = len(re.findall(r"wasmCWriteStringEscaped\(builder,\w+\.module\)", flat))
    n_all = len(re.findall(r"wasmCWriteStringEscaped\(builder,", flat))
    if n_mod != len(uses) or n_all != 2 * len(uses) + 0:
        # every String-builder use of the escaping routine is part of such a triple (definition excluded: it has `StringBuilder*builder,`)
        raise ExtractFail(C, "wasmCWriteStringEscaped is used outside the module/separator/name triple (%d uses, %d triples)" % (n_all, len(uses)))
    eb, eline = function_body(src, "wasmCWriteExportName", C)
    if nows(eb) != 'fprintf(file,"%s_",moduleName);wasmCWriteFileEscaped(file,name);':
        raise ExtractFail("%s:%d" % (C, eline), "wasmCWriteExportName is no longer `<module>_` followed by esc(name)")
    n_file = len(re.findall(r"wasmCWriteFileEscaped\(file,", flat))
    if n_file != 3:
        raise ExtractFail(C, "wasmCWriteFileEscaped is used outside wasmCWriteFileImportName / wasmCWriteExportName (%d uses)" % n_file)
    return sep


def lean_nats(xs):
    return "[" + ", ".join(str(x) for x in xs) + "]"


def generate(repo):
    src = strip_comments(open(os.path.join(repo, "w2c2", "c.c")).read())
    a = parse_escaped(src, "wasmCWriteFileEscaped", "file")
    b = parse_escaped(src, "wasmCWriteStringEscaped", "string")
    if a != b:
        raise ExtractFail(C, "the two copies of the escaping routine differ: FILE %r vs StringBuilder %r" % (a, b))
    check_hex_appender(repo)
    sep = check_import_name(src)
    out = ["/- GENERATED by tools/extract/gen_mangle.py from w2c2/c.c — do not edit. -/",
           "namespace W2c2Verif.Gen.Mangle",
           "",
           "/-- `static const char escapeChar` of wasmCWriteFileEscaped / wasmCWriteStringEscaped (both copies agree) -/",
           "def escapeChar : Nat := %d" % a["escapeChar"],
           "",
           "/-- the character written once, or as `doubled` when it directly follows itself -/",
           "def underscore : Nat := %d" % a["underscore"],
           "def doubled : List Nat := %s" % lean_nats(a["doubled"]),
           "",
           "/-- atoms of the condition under which any other byte is copied unchanged -/",
           "inductive KeepAtom | notEscapeChar | alnum",
           "  deriving DecidableEq, Repr, Inhabited",
           "",
           "/-- `else if (<conjunction of these>) <write c>`; every remaining byte is written as escapeChar followed by `%02X` -/",
           "def keepCond : List KeepAtom := [%s]" % ", ".join("." + k for k in a["keep"]),
           "",
           "/-- `wasmImportNameSeparator`: an import's identifier is esc(module), this, esc(field) -/",
           "def separator : List Nat := %s" % lean_nats(sep),
           "",
           "end W2c2Verif.Gen.Mangle"]
    return "\n".join(out) + "\n"


if __name__ == "__main__":
    import sys
    print(generate(sys.argv[1] if len(sys.argv) > 1 else "/repo"))
