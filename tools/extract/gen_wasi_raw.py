"""gen_wasi_raw — regenerate lean/W2c2Verif/Gen/WasiRaw.lean from /repo/wasi/wasi.c (+ wasi.h, w2c2/w2c2_base.h).

Property C19 for the WASI host: wasi.c reads and writes guest linear memory.  Every 16/32/64-bit field must go through
the endian-aware accessor functions of w2c2_base.h (which byte-swap on a big-endian host); `memory->data` may be touched
directly only for BYTE data.  This extractor enumerates, over the comment-stripped text of ALL preprocessor branches,

  * every raw (non-accessor) touch of guest memory: every occurrence of `<wasmMemory variable>->data`, and every later
    use of a pointer alias made from it (`char* path = (char*) memory->data + pathPointer` … `resolvePath(…, path, …)`,
    followed into callees defined in wasi.c), with: enclosing function, operation (memcpy/memset/strncpy/iov_base
    assignment/alias/element access/call of a byte-buffer function …), direction, and the C type of the OTHER operand
    resolved from its declaration in that function (byte buffer vs. address of / pointer to a wider object);
  * every accessor call (iNN_load*/iNN_store*) with its width (read from the DEFINE_LOAD/STORE lines of w2c2_base.h),
    base pointer and offset.

Nothing is skipped: every use of a wasmMemory variable must be an accessor call, a `->data`, or a hand-over to a wasi.c
function whose parameter is a `wasmMemory*`; every `->data` / alias use must have one of the shapes below.  Any other
shape raises ExtractFail (the tie is then reported broken) — an unclassifiable raw touch is never ignored.
"""
import os
import re
from cfront import ExtractFail
from gen_wasi import strip_comments, macros_of, eval_const

GEN_NAME = "WasiRaw"
W = "wasi.c"

KEYWORDS = {"if", "while", "for", "switch", "return", "sizeof", "else", "do", "case", "goto", "break", "continue", "default"}
TYPE_QUALS = {"const", "volatile", "static", "register", "extern", "struct", "union", "enum", "unsigned", "signed", "W2C2_INLINE"}
BYTE_BASES = {"char", "signed char", "unsigned char", "U8", "I8", "void", "uint8_t", "int8_t", "BYTE"}
WIDTHS = {"U16": 2, "I16": 2, "short": 2, "unsigned short": 2, "uint16_t": 2, "int16_t": 2,
          "U32": 4, "I32": 4, "int": 4, "unsigned": 4, "unsigned int": 4, "F32": 4, "float": 4, "uint32_t": 4, "int32_t": 4,
          "U64": 8, "I64": 8, "F64": 8, "double": 8, "size_t": 8, "ssize_t": 8, "off_t": 8, "long": 8, "unsigned long": 8,
          "long long": 8, "unsigned long long": 8, "time_t": 8, "uint64_t": 8, "int64_t": 8}
# libc / system functions that take BYTE buffers: name -> {argument index: parameter type}
BYTE_CALLS = {
    "read": {1: "void*"}, "write": {1: "const void*"}, "pread": {1: "void*"}, "pwrite": {1: "const void*"},
    "readlink": {0: "const char*", 1: "char*"}, "getentropy": {0: "void*"}, "CryptGenRandom": {2: "BYTE*"},
    "memchr": {0: "const void*"}, "strlen": {0: "const char*"}, "strnlen": {0: "const char*"}, "strchr": {0: "const char*"},
    "strndup": {0: "const char*"}, "strdup": {0: "const char*"},
}
# two-pointer byte movers / comparers: (destination index, source index)
MOVERS = {"memcpy": (0, 1), "memmove": (0, 1), "strncpy": (0, 1), "strcpy": (0, 1), "strncat": (0, 1), "strcat": (0, 1),
          "memcmp": (None, None), "strncmp": (None, None), "strcmp": (None, None)}

TOKEN = re.compile(r'[A-Za-z_]\w*|\d[\w.]*|"(?:\\.|[^"\\\n])*"|\'(?:\\.|[^\'\\\n])*\'|->|\+\+|--|<<=|>>=|<<|>>|<=|>=|==|!=|&&|\|\||[-+*/%&|^]=|[-+*/%&|^!~<>=?:;,.(){}\[\]]')


class T:
    __slots__ = ("s", "line")

    def __init__(self, s, line):
        self.s, self.line = s, line

    def __repr__(self):
        return self.s


def fail(why):
    raise ExtractFail(W, why)


def is_ident(s):
    return bool(re.fullmatch(r"[A-Za-z_]\w*", s)) and s not in KEYWORDS


def tokenize(text):
    """C tokens with line numbers.  Preprocessor directives (with continuation lines) are dropped — after checking that
    no #define in this file mentions guest memory (a macro could otherwise hide a raw touch)."""
    lines = text.split("\n")
    out = []
    i = 0
    while i < len(lines):
        ln = lines[i]
        if ln.lstrip().startswith("#"):
            j = i
            full = ln
            while lines[j].rstrip().endswith("\\") and j + 1 < len(lines):
                j += 1
                full += "\n" + lines[j]
            if re.match(r"\s*#\s*define\b", full) and re.search(r"(->|\.)\s*data\b|\bwasmMemory\b|\bwasiMemory\b|\bi(32|64)_(load|store)", full):
                fail("line %d: a #define mentions guest memory (`%s`); raw touches hidden in macros are not modelled" % (i + 1, " ".join(full.split())[:100]))
            i = j + 1
            continue
        pos = 0
        while pos < len(ln):
            if ln[pos].isspace():
                pos += 1
                continue
            m = TOKEN.match(ln, pos)
            if not m:
                fail("line %d: cannot tokenise `%s`" % (i + 1, ln[pos:pos + 20]))
            out.append(T(m.group(0), i + 1))
            pos = m.end()
        i += 1
    return out


def match_table(toks):
    m = {}
    st = []
    pairs = {")": "(", "]": "[", "}": "{"}
    for i, t in enumerate(toks):
        if t.s in "([{":
            st.append(i)
        elif t.s in pairs:
            if not st or toks[st[-1]].s != pairs[t.s]:
                fail("line %d: unbalanced `%s`" % (t.line, t.s))
            j = st.pop()
            m[i] = j
            m[j] = i
    if st:
        fail("line %d: unclosed `%s`" % (toks[st[-1]].line, toks[st[-1]].s))
    return m


def txt(toks, lo, hi):
    """source-like text of toks[lo..hi]"""
    out = ""
    for k in range(lo, hi + 1):
        s = toks[k].s
        if out and (re.match(r"\w", s) and re.search(r"\w$", out)):
            out += " "
        elif out and s in ("+", "-", "*", "=", "==", "!=", "?", ":") and toks[k - 1].s not in ("(", "[") and not (s == "*" and k + 1 <= hi and toks[k - 1].s in TYPE_QUALS | {"char", "void"}):
            out += " "
        elif out and toks[k - 1].s in ("+", "-", "=", "==", "!=", ",", "?", ":") and k - 1 > lo and out.endswith(toks[k - 1].s):
            out += " "
        out += s
    return out


class Func:
    def __init__(self, name, toks, p_lo, p_hi, b_lo, b_hi):
        self.name = name
        self.toks = toks
        self.p_lo, self.p_hi = p_lo, p_hi        # parameter list tokens (inside the parentheses)
        self.b_lo, self.b_hi = b_lo, b_hi        # body tokens (inside the braces)
        self.params = []                         # [(type tokens as text, name or None, is function-pointer prototype text)]


def find_functions(toks, match):
    """Top-level function definitions and WASI_*IMPORT bodies -> {name: Func}.  A top-level brace block that is not a
    recognised function but mentions guest memory is an ExtractFail."""
    funcs = {}
    i = 0
    depth_paren = 0
    n = len(toks)
    while i < n:
        t = toks[i]
        if t.s in ("WASI_IMPORT", "WASI_PREVIEW1_IMPORT", "WASI_UNSTABLE_IMPORT") and i + 1 < n and toks[i + 1].s == "(":
            close = match[i + 1]
            # ( returnType , name , ( params ) , { body } )
            if not (toks[i + 3].s == "," and toks[i + 5].s == "," and toks[i + 6].s == "("):
                fail("line %d: unexpected %s shape" % (t.line, t.s))
            name = toks[i + 4].s
            p_open = i + 6
            p_close = match[p_open]
            if not (toks[p_close + 1].s == "," and toks[p_close + 2].s == "{" and match[p_close + 2] == close - 1):
                fail("line %d: unexpected %s(%s) shape" % (t.line, t.s, name))
            abi = {"WASI_IMPORT": "", "WASI_PREVIEW1_IMPORT": "p1:", "WASI_UNSTABLE_IMPORT": "un:"}[t.s]
            f = Func(abi + name, toks, p_open + 1, p_close - 1, p_close + 3, close - 2)
            if f.name in funcs:
                fail("import %s defined twice" % f.name)
            funcs[f.name] = f
            i = close + 1
            continue
        if t.s == "{":
            close = match[i]
            # header: ... name ( params ) {
            j = i - 1
            f = None
            if j >= 0 and toks[j].s == ")":
                p_open = match[j]
                if p_open >= 1 and is_ident(toks[p_open - 1].s):
                    f = Func(toks[p_open - 1].s, toks, p_open + 1, j - 1, i + 1, close - 1)
            if f is not None:
                if f.name in funcs:
                    # the same function defined under different preprocessor branches: keep both under distinct keys
                    k = 2
                    while "%s#%d" % (f.name, k) in funcs:
                        k += 1
                    f.name = "%s#%d" % (f.name, k)
                funcs[f.name] = f
            else:
                blk = " ".join(x.s for x in toks[i:close + 1])
                if re.search(r"-> data\b|\. data\b|\bwasmMemory\b|\bwasiMemory\b|\bi(32|64)_(load|store)", blk):
                    fail("line %d: a top-level block that is not a recognised function mentions guest memory" % t.line)
            i = close + 1
            continue
        i += 1
    return funcs


def split_commas(toks, match, lo, hi):
    """top-level comma split of toks[lo..hi] -> [(lo, hi)]"""
    out = []
    s = lo
    k = lo
    while k <= hi:
        if toks[k].s in "([{":
            k = match[k] + 1
            continue
        if toks[k].s == ",":
            out.append((s, k - 1))
            s = k + 1
        k += 1
    if s <= hi or out:
        out.append((s, hi))
    return out


def parse_type(toks, lo, hi):
    """type tokens (qualifiers, base names, stars) -> (base, stars) or None"""
    names = []
    stars = 0
    for k in range(lo, hi + 1):
        s = toks[k].s
        if s == "*":
            stars += 1
        elif s in ("const", "volatile", "static", "register", "extern", "W2C2_INLINE"):
            if stars:
                pass
        elif re.fullmatch(r"[A-Za-z_]\w*", s) and s not in KEYWORDS:
            if stars:
                return None
            names.append(s)
        else:
            return None
    if not names:
        return None
    return " ".join(names), stars


class Decl:
    def __init__(self, base, stars, array, is_param, line, proto=None):
        self.base, self.stars, self.array, self.is_param, self.line, self.proto = base, stars, array, is_param, line, proto

    def ctype(self):
        return self.base + "*" * self.stars + ("[]" if self.array else "")

    def key(self):
        return (self.base, self.stars, self.array)


def declarations(f, match):
    """name -> [Decl] for the parameters and locals of f"""
    toks = f.toks
    decls = {}

    def add(name, d):
        decls.setdefault(name, []).append(d)
    # parameters
    if f.p_lo <= f.p_hi:
        for lo, hi in split_commas(toks, match, f.p_lo, f.p_hi):
            if lo > hi:
                continue
            if hi == lo and toks[lo].s == "void":
                continue
            if all(toks[x].s == "." for x in range(lo, hi + 1)):
                continue      # variadic `...`
            # T UNUSED(name)
            if toks[hi].s == ")" and toks[match[hi] - 1].s == "UNUSED" and match[hi] + 2 == hi:
                ty = parse_type(toks, lo, match[hi] - 2)
                if ty is None:
                    fail("%s: parameter `%s` not understood" % (f.name, txt(toks, lo, hi)))
                add(toks[hi - 1].s, Decl(ty[0], ty[1], False, True, toks[lo].line))
                continue
            # function-pointer style parameter:  ret name(proto)
            if toks[hi].s == ")" and is_ident(toks[match[hi] - 1].s) and match[hi] - 1 > lo:
                add(toks[match[hi] - 1].s, Decl("<function>", 0, False, True, toks[lo].line, proto=txt(toks, match[hi] + 1, hi - 1)))
                continue
            end = hi
            array = False
            if toks[end].s == "]":
                array = True
                end = match[end] - 1
            if not is_ident(toks[end].s) or end == lo:
                fail("%s: parameter `%s` not understood" % (f.name, txt(toks, lo, hi)))
            ty = parse_type(toks, lo, end - 1)
            if ty is None:
                fail("%s: parameter `%s` not understood" % (f.name, txt(toks, lo, hi)))
            add(toks[end].s, Decl(ty[0], ty[1], array, True, toks[lo].line))
    # locals:  <boundary> type-tokens name ( = | ; | , | [ )
    k = f.b_lo
    while k <= f.b_hi:
        s = toks[k].s
        if is_ident(s) and k + 1 <= f.b_hi + 1 and toks[k + 1].s in ("=", ";", ",", "[") and k - 1 >= f.b_lo:
            j = k - 1
            if toks[j].s == "}":
                # struct { … } name;   /   union tag { … } name;
                o = match[j]
                h = o - 1
                if is_ident(toks[h].s) and toks[h].s not in ("struct", "union"):
                    h -= 1
                if toks[h].s in ("struct", "union"):
                    add(s, Decl(toks[h].s + " {…}", 0, toks[k + 1].s == "[", False, toks[k].line))
                k += 1
                continue
            while j >= f.b_lo and (toks[j].s == "*" or (re.fullmatch(r"[A-Za-z_]\w*", toks[j].s) and toks[j].s not in KEYWORDS)):
                j -= 1
            boundary_ok = j < f.b_lo or toks[j].s in (";", "{", "}")
            if boundary_ok and j + 1 <= k - 1:
                ty = parse_type(toks, j + 1, k - 1)
                if ty is not None:
                    array = toks[k + 1].s == "["
                    add(s, Decl(ty[0], ty[1], array, False, toks[k].line))
        k += 1
    return decls


def lookup(f, decls, name, why):
    ds = decls.get(name)
    if not ds:
        fail("%s: no declaration of `%s` found (%s)" % (f.name, name, why))
    keys = {d.key() for d in ds}
    if len(keys) > 1:
        fail("%s: `%s` is declared with different types %s (%s)" % (f.name, name, sorted(d.ctype() for d in ds), why))
    return ds[0]


class Ctx:
    """whole-file context"""

    def __init__(self, repo):
        cpath = os.path.join(repo, "wasi", "wasi.c")
        self.text = strip_comments(open(cpath).read())
        self.toks = tokenize(self.text)
        self.match = match_table(self.toks)
        self.funcs = find_functions(self.toks, self.match)
        self.decls = {n: declarations(f, self.match) for n, f in self.funcs.items()}
        htexts = {}
        for h in ("wasi.h", "mac.h", "win32.h"):
            p = os.path.join(repo, "wasi", h)
            if os.path.exists(p):
                htexts[h] = strip_comments(open(p).read())
                if re.search(r"(->|\.)\s*data\b|\bwasiMemory\b|\bi(32|64)_(load|store)", htexts[h]) or (h != "wasi.h" and "wasmMemory" in htexts[h]):
                    raise ExtractFail(h, "a header of the WASI host mentions guest memory; only wasi.c is modelled")
        self.htext = htexts.get("wasi.h", "")
        self.macros = macros_of(self.htext)
        self.macros.update(macros_of(self.text))
        for m in re.finditer(r"static\s+const\s+size_t\s+(\w+)\s*=\s*(\d+)\s*;", self.text):
            self.macros[m.group(1)] = m.group(2)
        # typedefs of wasi.h / wasi.c:  typedef <base> <name>;
        self.typedefs = {}
        for src in (self.htext, self.text):
            for m in re.finditer(r"\btypedef\s+((?:unsigned\s+|signed\s+)?\w+)\s+(\w+)\s*;", src):
                self.typedefs[m.group(2)] = m.group(1)
        base = strip_comments(open(os.path.join(repo, "w2c2", "w2c2_base.h")).read())
        # accessor functions and their widths:  DEFINE_LOAD16(i32_load16_s, I16, I32, U32) / DEFINE_STORE32(i32_store, U32, U32)
        self.accessors = {}
        for m in re.finditer(r"^\s*DEFINE_(LOAD|STORE)(8|16|32|64)\s*\(\s*(\w+)\s*,", base, flags=re.M):
            self.accessors[m.group(3)] = ("load" if m.group(1) == "LOAD" else "store", int(m.group(2)) // 8)
        if len(self.accessors) < 20:
            raise ExtractFail("w2c2_base.h", "fewer than 20 DEFINE_LOAD/DEFINE_STORE accessor definitions found")
        m = re.search(r"typedef\s+struct\s+wasmMemory\s*\{(.*?)\}\s*wasmMemory\s*;", base, flags=re.S)
        if not m or not re.search(r"\bU8\s*\*\s*data\s*;", m.group(1)):
            raise ExtractFail("w2c2_base.h", "struct wasmMemory with `U8* data` not found")
        # other functions of w2c2_base.h that take a wasmMemory* (bulk operations): not accepted in wasi.c
        self.raw = []
        self.acc = []
        self.seen_alias = set()

    def resolve(self, base):
        seen = 0
        while base in self.typedefs and seen < 10:
            base = self.typedefs[base]
            seen += 1
        return base

    def width_of(self, base, stars):
        """-> (is_byte, width) of an object of type base + stars"""
        if stars > 0:
            return False, 8
        b = self.resolve(base)
        if b in BYTE_BASES:
            return True, 1
        return False, WIDTHS.get(b, 0)

    def pointee(self, d):
        """type pointed to by an expression naming declaration d (pointer or array)"""
        if d.array and d.stars == 0:
            return d.base, 0
        if d.stars >= 1 and not d.array:
            return d.base, d.stars - 1
        return None


def is_cast(ctx, toks, open_i, close_i):
    """( type * ) -> (base, stars) ; requires at least one star (pointer cast)"""
    if close_i - open_i < 2:
        return None
    ty = parse_type(toks, open_i + 1, close_i - 1)
    if ty is None or ty[1] == 0:
        return None
    return ty


def call_context(ctx, f, lo, hi):
    """toks[lo..hi] is a complete argument of a call -> (callee, arg index, [(lo,hi) of all args], open paren) or None"""
    toks, match = f.toks, ctx.match
    k = lo - 1
    depth = 0
    while k >= f.b_lo:
        s = toks[k].s
        if s in ")]}":
            k = match[k] - 1
            continue
        if s == "(":
            break
        if s in (";", "{", "}"):
            return None
        k -= 1
    else:
        return None
    open_i = k
    close_i = match[open_i]
    args = split_commas(toks, match, open_i + 1, close_i - 1)
    idx = None
    for n, (a, b) in enumerate(args):
        if a == lo and b == hi:
            idx = n
    if idx is None:
        return None
    callee = toks[open_i - 1].s
    if callee == "(" and toks[open_i - 2].s == "WASI_TRACE" and match[open_i - 1] == close_i + 1:
        return "WASI_TRACE", idx, args, open_i
    if not is_ident(callee):
        return None
    return callee, idx, args, open_i


def operand(ctx, f, lo, hi, why):
    """Classify the OTHER operand toks[lo..hi] of a byte mover -> (lean Operand, C type text)"""
    toks, match = f.toks, ctx.match
    decls = ctx.decls[f.name]
    # strip grouping parentheses and pointer casts
    while True:
        if toks[lo].s == "(" and match[lo] == hi:
            lo, hi = lo + 1, hi - 1
            continue
        if toks[lo].s == "(" and is_cast(ctx, toks, lo, match[lo]) and match[lo] < hi:
            lo = match[lo] + 1
            continue
        break
    s = toks[lo].s
    if s.startswith('"'):
        return ".bytes", "string literal"
    addr = False
    if s == "&":
        addr = True
        lo += 1
        s = toks[lo].s
    if not is_ident(s):
        fail("%s line %d: operand `%s` not understood (%s)" % (f.name, toks[lo].line, txt(toks, lo, hi), why))
    # guest memory on both sides (guest-to-guest byte move)
    if s in wasm_memories(ctx, f) and lo + 2 <= hi and toks[lo + 1].s == "->" and toks[lo + 2].s == "data":
        return ".bytes", "U8* (guest memory)"
    d = lookup(f, decls, s, why)
    rest_lo = lo + 1
    if d.proto is not None:
        fail("%s: operand `%s` is a function (%s)" % (f.name, s, why))
    if rest_lo <= hi and toks[rest_lo].s in (".", "->"):
        fail("%s line %d: struct member operand `%s` is not modelled (%s)" % (f.name, toks[lo].line, txt(toks, lo, hi), why))
    if addr:
        if rest_lo <= hi and toks[rest_lo].s == "[":
            if match[rest_lo] != hi:
                fail("%s line %d: operand `&%s` not understood (%s)" % (f.name, toks[lo].line, txt(toks, lo, hi), why))
            pt = ctx.pointee(d)
            if pt is None:
                fail("%s: `&%s[…]` of a non-array (%s)" % (f.name, s, why))
            byte, w = ctx.width_of(*pt)
            ty = pt[0] + "*" * pt[1]
            return (".bytes" if byte else ".object %d" % w), "&(" + ty + ")[…]"
        if rest_lo <= hi:
            fail("%s line %d: operand `&%s` not understood (%s)" % (f.name, toks[lo].line, txt(toks, lo, hi), why))
        if d.array:
            byte, w = ctx.width_of(d.base, d.stars)
            return (".bytes" if byte else ".object %d" % w), "&" + d.ctype()
        byte, w = ctx.width_of(d.base, d.stars)
        return (".bytes" if byte else ".object %d" % w), "&" + d.ctype()
    # name [+ expr]
    if rest_lo <= hi and toks[rest_lo].s not in ("+", "-"):
        fail("%s line %d: operand `%s` not understood (%s)" % (f.name, toks[lo].line, txt(toks, lo, hi), why))
    pt = ctx.pointee(d)
    if pt is None:
        fail("%s: operand `%s` of type %s is neither a pointer nor an array (%s)" % (f.name, s, d.ctype(), why))
    byte, w = ctx.width_of(*pt)
    if not byte:
        return ".object %d" % w, d.ctype()
    if not d.array and not d.is_param:
        # a local byte pointer: where does it point?  every value assigned to it must not be the address of a wider object
        prov = provenance(ctx, f, s)
        if prov is not None:
            return prov, d.ctype() + " pointing to an object of %s bytes" % prov.split()[-1]
    return ".bytes", d.ctype()


def provenance(ctx, f, name):
    """assignments `name = RHS;` in f: returns a lean `.object w` if some RHS is (a cast of) the address of / a pointer to an
    object wider than a byte, else None"""
    toks, match = f.toks, ctx.match
    decls = ctx.decls[f.name]
    k = f.b_lo
    while k <= f.b_hi:
        if toks[k].s == name and toks[k + 1].s == "=" and toks[k - 1].s not in (".", "->"):
            lo = k + 2
            hi = lo
            while toks[hi].s != ";":
                if toks[hi].s in "([{":
                    hi = match[hi]
                hi += 1
            hi -= 1
            while True:
                if toks[lo].s == "(" and match[lo] == hi:
                    lo, hi = lo + 1, hi - 1
                    continue
                if toks[lo].s == "(" and is_cast(ctx, toks, lo, match[lo]) and match[lo] < hi:
                    lo = match[lo] + 1
                    continue
                break
            if toks[lo].s == "&" and is_ident(toks[lo + 1].s) and toks[lo + 1].s in decls:
                d = lookup(f, decls, toks[lo + 1].s, "provenance of " + name)
                if lo + 1 == hi:
                    byte, w = ctx.width_of(d.base, d.stars)
                    if not byte:
                        return ".object %d" % w
                elif toks[lo + 2].s == "[":
                    pt = ctx.pointee(d)
                    if pt:
                        byte, w = ctx.width_of(*pt)
                        if not byte:
                            return ".object %d" % w
            elif is_ident(toks[lo].s) and toks[lo].s in decls and (lo == hi or toks[lo + 1].s in ("+", "-")):
                d = lookup(f, decls, toks[lo].s, "provenance of " + name)
                pt = ctx.pointee(d) if d.proto is None else None
                if pt:
                    byte, w = ctx.width_of(*pt)
                    if not byte:
                        return ".object %d" % w
        k += 1
    return None


def wasm_memories(ctx, f):
    """names of the wasmMemory* variables of f (parameters, and locals initialised with wasiMemory(instance))"""
    ds = ctx.decls[f.name]
    return {n for n, l in ds.items() if any(d.base == "wasmMemory" and d.stars == 1 and not d.array for d in l)}


def const_value(ctx, toks, lo, hi):
    e = txt(toks, lo, hi)
    try:
        return eval_const(e, ctx.macros, W)
    except Exception:
        return None


def emit_raw(ctx, f, line, op, direction, guest, other_expr, other_ty, other, length=None):
    ctx.raw.append({"fn": f.name, "line": line, "op": op, "dir": direction, "guest": guest, "otherExpr": other_expr,
                    "otherTy": other_ty, "other": other, "len": length})


def analyse_pointer(ctx, f, lo, hi, pointee, origin):
    """toks[lo..hi] denotes a pointer into guest memory (`M->data` or an alias); pointee = (base, stars) of what it points
    to.  Widen to the whole pointer expression and classify what is done with it."""
    toks, match = f.toks, ctx.match
    start_line = toks[lo].line
    while True:
        nxt = toks[hi + 1].s
        prv = toks[lo - 1].s
        if nxt == "[":
            close = match[hi + 1]
            if prv == "&":
                lo -= 1
                hi = close
                continue
            byte, w = ctx.width_of(*pointee)
            after = toks[close + 1].s
            store = after in ("=", "+=", "-=", "|=", "&=", "^=", "++", "--")
            emit_raw(ctx, f, start_line, "element", ".toGuest" if store else ".fromGuest", txt(toks, lo, close), "", pointee[0] + "*" * pointee[1],
                     ".byteElem" if byte else ".object %d" % w)
            return
        if nxt in ("+", "-"):
            k = hi + 2
            while toks[k].s not in (",", ";", ")", "]", "?", ":", "=", "==", "!=", "<", ">", "<=", ">=", "&&", "||", "}"):
                if toks[k].s in "([{":
                    k = match[k]
                k += 1
            hi = k - 1
            continue
        if prv == ")" and match[lo - 1] >= f.b_lo:
            c = is_cast(ctx, toks, match[lo - 1], lo - 1)
            if c is not None:
                pointee = (c[0], c[1] - 1)
                lo = match[lo - 1]
                continue
        if prv == "*" and (toks[lo - 2].s in ("(", ",", ";", "{", "}", "=", "==", "!=", "+", "-", "&&", "||", "!", "return") or toks[lo - 2].s in KEYWORDS):
            byte, w = ctx.width_of(*pointee)
            emit_raw(ctx, f, start_line, "dereference", ".na", txt(toks, lo - 1, hi), "", pointee[0] + "*" * pointee[1],
                     ".byteElem" if byte else ".object %d" % w)
            return
        if prv == "(" and nxt == ")" and match[lo - 1] == hi + 1 and not is_ident(toks[lo - 2].s) and toks[lo - 2].s not in KEYWORDS \
                and not (toks[lo - 2].s == "(" and toks[lo - 3].s == "WASI_TRACE"):
            lo -= 1
            hi += 1
            continue
        break
    gtxt = txt(toks, lo, hi)
    byte, w = ctx.width_of(*pointee)
    pty = pointee[0] + "*" * (pointee[1] + 1)
    if not byte:
        # the guest pointer has been cast to a pointer to a wider object: whatever follows is a wide raw access
        emit_raw(ctx, f, start_line, "cast", ".na", gtxt, "", pty, ".object %d" % w)
        return
    prv, nxt = toks[lo - 1].s, toks[hi + 1].s
    # comparison with NULL / truth test
    if nxt in ("==", "!=") or prv in ("==", "!=", "!"):
        return
    # assignment / initialisation:  LHS = <ptr> ;
    if prv == "=" and nxt == ";":
        k = lo - 2
        while k >= f.b_lo and toks[k].s not in (";", "{", "}"):
            if toks[k].s in ")]":
                k = match[k]
            k -= 1
        l_lo, l_hi = k + 1, lo - 2
        # iovecs[i].iov_base = …
        if l_hi - l_lo >= 4 and toks[l_hi].s == "iov_base" and toks[l_hi - 1].s == "." and toks[l_hi - 2].s == "]" and match[l_hi - 2] == l_lo + 1 and is_ident(toks[l_lo].s):
            arr = toks[l_lo].s
            d = lookup(f, ctx.decls[f.name], arr, "iov_base assignment")
            if d.base != "struct iovec" or d.stars != 1:
                fail("%s line %d: `%s` is not a struct iovec*" % (f.name, start_line, arr))
            handed = check_iovec_uses(ctx, f, arr)
            emit_raw(ctx, f, start_line, "iov_base", ".na", gtxt, txt(toks, l_lo, l_hi) + " -> " + handed, "struct iovec* handed to " + handed, ".iovBase")
            return
        # T* name = …   |   name = …
        if is_ident(toks[l_hi].s) and (l_hi == l_lo or parse_type(toks, l_lo, l_hi - 1) is not None):
            name = toks[l_hi].s
            d = lookup(f, ctx.decls[f.name], name, "alias of guest memory")
            pt = ctx.pointee(d)
            if pt is None or d.array:
                fail("%s line %d: guest pointer assigned to `%s` of type %s" % (f.name, start_line, name, d.ctype()))
            abyte, aw = ctx.width_of(*pt)
            emit_raw(ctx, f, start_line, "alias", ".na", gtxt, name, d.ctype(), ".alias" if abyte else ".object %d" % aw)
            if abyte:
                follow_alias(ctx, f, name, pt, hi + 1)
            return
        fail("%s line %d: guest pointer `%s` assigned to `%s`: shape not modelled" % (f.name, start_line, gtxt, txt(toks, l_lo, l_hi)))
    cc = call_context(ctx, f, lo, hi)
    if cc is None:
        fail("%s line %d: use of guest pointer `%s` in `… %s %s %s …` not classified" % (f.name, start_line, gtxt, prv, gtxt, nxt))
    callee, idx, args, open_i = cc
    if callee == "WASI_TRACE":
        emit_raw(ctx, f, start_line, "trace", ".fromGuest", gtxt, "", "printf %s argument", ".hostBytes \"WASI_TRACE\"")
        return
    if callee == "memset":
        if idx != 0 or len(args) != 3:
            fail("%s line %d: memset with guest memory not as destination" % (f.name, start_line))
        n = const_value(ctx, toks, args[2][0], args[2][1])
        emit_raw(ctx, f, start_line, "memset", ".toGuest", gtxt, txt(toks, args[1][0], args[1][1]), "fill value, length " + txt(toks, args[2][0], args[2][1]), ".fill", n)
        return
    if callee in MOVERS:
        if idx not in (0, 1) or len(args) < 2:
            fail("%s line %d: guest pointer is argument %d of %s" % (f.name, start_line, idx, callee))
        o_lo, o_hi = args[1 - idx]
        dst, src = MOVERS[callee]
        direction = ".fromGuest" if dst is None or idx == src else ".toGuest"
        other, oty = operand(ctx, f, o_lo, o_hi, "%s at line %d" % (callee, start_line))
        emit_raw(ctx, f, start_line, callee, direction, gtxt, txt(toks, o_lo, o_hi), oty, other)
        return
    if callee in BYTE_CALLS:
        if idx not in BYTE_CALLS[callee]:
            fail("%s line %d: guest pointer is argument %d of %s, which is not a byte buffer parameter" % (f.name, start_line, idx, callee))
        pty_ = BYTE_CALLS[callee][idx]
        emit_raw(ctx, f, start_line, "call " + callee, ".fromGuest" if "const" in pty_ else ".toGuest", gtxt, "parameter %d of %s" % (idx, callee), pty_, ".hostBytes \"%s\"" % callee)
        return
    if callee in ctx.funcs:
        g = ctx.funcs[callee]
        plist = [p for p in split_commas(g.toks, ctx.match, g.p_lo, g.p_hi)] if g.p_lo <= g.p_hi else []
        if idx >= len(plist):
            fail("%s line %d: %s has no parameter %d" % (f.name, start_line, callee, idx))
        p_lo, p_hi = plist[idx]
        end = p_hi
        arr = False
        if g.toks[end].s == "]":
            arr = True
            end = ctx.match[end] - 1
        pname = g.toks[end].s
        d = lookup(g, ctx.decls[callee], pname, "parameter of " + callee)
        pt = ctx.pointee(d)
        if pt is None:
            fail("%s line %d: guest pointer passed to %s as non-pointer parameter `%s`" % (f.name, start_line, callee, pname))
        cbyte, cw = ctx.width_of(*pt)
        emit_raw(ctx, f, start_line, "call " + callee, ".na", gtxt, "parameter `%s` of %s" % (pname, callee), d.ctype(),
                 (".hostBytes \"%s\"" % callee) if cbyte else ".object %d" % cw)
        if cbyte and (callee, pname) not in ctx.seen_alias:
            ctx.seen_alias.add((callee, pname))
            follow_alias(ctx, g, pname, pt, g.b_lo)
        return
    fail("%s line %d: guest pointer `%s` passed to `%s`, whose parameter types are not known to the extractor" % (f.name, start_line, gtxt, callee))


def check_iovec_uses(ctx, f, arr):
    """every use of the struct iovec array: declaration, malloc, NULL test, free, .iov_base/.iov_len assignment, and being
    handed to ONE function(-pointer) whose prototype has `const struct iovec*` there.  Returns that callee's description."""
    toks, match = f.toks, ctx.match
    handed = None
    for k in range(f.b_lo, f.b_hi + 1):
        if toks[k].s != arr or toks[k - 1].s in (".", "->"):
            continue
        nxt, prv = toks[k + 1].s, toks[k - 1].s
        if nxt == "[":
            c = match[k + 1]
            if toks[c + 1].s == "." and toks[c + 2].s in ("iov_base", "iov_len") and toks[c + 3].s == "=":
                continue
            fail("%s line %d: use of iovec array `%s` not modelled" % (f.name, toks[k].line, arr))
        if nxt == "=" or nxt in ("==", "!=") or prv in ("==", "!="):
            continue
        if prv == "*" or nxt == ";":
            continue      # declaration
        cc = call_context(ctx, f, k, k)
        if cc is None:
            fail("%s line %d: use of iovec array `%s` not modelled" % (f.name, toks[k].line, arr))
        callee, idx, args, _ = cc
        if callee == "free":
            continue
        d = ctx.decls[f.name].get(callee)
        if d and d[0].proto is not None:
            protos = [p.strip() for p in d[0].proto.split(",")]
            if idx < len(protos) and re.fullmatch(r"const struct iovec\s*\*", protos[idx]):
                handed = "%s(%s)" % (callee, d[0].proto)
                continue
        fail("%s line %d: iovec array `%s` handed to `%s`: not a function parameter with a `const struct iovec*` there" % (f.name, toks[k].line, arr, callee))
    if handed is None:
        fail("%s: iovec array `%s` is never handed to a reader/writer" % (f.name, arr))
    return handed


def follow_alias(ctx, f, name, pointee, start):
    """every later use of the alias `name` (a byte pointer into guest memory) inside f"""
    toks = f.toks
    k = start
    while k <= f.b_hi:
        if toks[k].s == name and toks[k - 1].s not in (".", "->"):
            nxt = toks[k + 1].s
            if nxt == "=" and toks[k + 2].s != "=":
                # re-assignment: from guest memory again (classified at that site) or NULL
                j = k + 2
                rhs = []
                while toks[j].s != ";":
                    rhs.append(toks[j].s)
                    j += 1
                if rhs == ["NULL"] or ("->" in rhs and "data" in rhs):
                    k = j
                    continue
                fail("%s line %d: alias `%s` of guest memory re-assigned from `%s`" % (f.name, toks[k].line, name, " ".join(rhs)))
            if nxt in (";", ",") and toks[k - 1].s in ("*",) and parse_type(toks, k - 2, k - 1) is not None:
                k += 1
                continue      # a (re)declaration without initialiser
            analyse_pointer(ctx, f, k, k, pointee, "alias")
        k += 1


def analyse_function(ctx, f):
    toks, match = f.toks, ctx.match
    mems = wasm_memories(ctx, f)
    k = f.b_lo
    while k <= f.b_hi:
        s = toks[k].s
        if s in ("wasmMemory", "wasiMemory"):
            # only:  wasmMemory * M = wasiMemory ( instance ) ;
            if s == "wasmMemory":
                if not (toks[k + 1].s == "*" and is_ident(toks[k + 2].s) and toks[k + 3].s == "=" and toks[k + 4].s == "wasiMemory"
                        and toks[k + 5].s == "(" and toks[match[k + 5] + 1].s == ";"):
                    fail("%s line %d: unexpected use of wasmMemory" % (f.name, toks[k].line))
                k = match[k + 5] + 1
                continue
            fail("%s line %d: wasiMemory() used outside `wasmMemory* m = wasiMemory(instance);`" % (f.name, toks[k].line))
        if s == "data" and toks[k - 1].s in ("->", "."):
            if not (toks[k - 1].s == "->" and toks[k - 2].s in mems and toks[k - 3].s not in (".", "->")):
                fail("%s line %d: `%s%sdata` — member `data` of something that is not a wasmMemory* variable of this function" % (f.name, toks[k].line, toks[k - 2].s, toks[k - 1].s))
        if s in mems and toks[k - 1].s not in (".", "->"):
            nxt = toks[k + 1].s
            if nxt == "->":
                if toks[k + 2].s != "data":
                    fail("%s line %d: `%s->%s`: only `->data` is modelled" % (f.name, toks[k].line, s, toks[k + 2].s))
                analyse_pointer(ctx, f, k, k + 2, ("U8", 0), "memory")
                k += 3
                continue
            cc = call_context(ctx, f, k, k)
            if cc is None:
                fail("%s line %d: use of wasmMemory variable `%s` not classified (`%s %s %s`)" % (f.name, toks[k].line, s, toks[k - 1].s, s, nxt))
            callee, idx, args, open_i = cc
            if callee in ctx.accessors:
                if idx != 0:
                    fail("%s line %d: wasmMemory is argument %d of %s" % (f.name, toks[k].line, idx, callee))
                kind, width = ctx.accessors[callee]
                if len(args) != (2 if kind == "load" else 3):
                    fail("%s line %d: %s called with %d arguments" % (f.name, toks[k].line, callee, len(args)))
                a_lo, a_hi = args[1]
                base, off = parse_address(ctx, f, a_lo, a_hi)
                ctx.acc.append({"fn": f.name, "line": toks[open_i].line, "accessor": callee, "kind": kind, "width": width, "base": base, "off": off,
                                "addr": txt(toks, a_lo, a_hi), "value": txt(toks, args[2][0], args[2][1]) if kind == "store" else ""})
            elif callee in ctx.funcs:
                g = ctx.funcs[callee]
                plist = split_commas(g.toks, match, g.p_lo, g.p_hi)
                ok = False
                if idx < len(plist):
                    ty = parse_type(g.toks, plist[idx][0], plist[idx][1] - 1)
                    ok = ty == ("wasmMemory", 1)
                if not ok:
                    fail("%s line %d: wasmMemory handed to %s, whose parameter %d is not a wasmMemory*" % (f.name, toks[k].line, callee, idx))
            else:
                fail("%s line %d: wasmMemory variable handed to `%s` (neither an accessor of w2c2_base.h nor a function of wasi.c)" % (f.name, toks[k].line, callee))
        elif s in ctx.accessors and toks[k + 1].s == "(":
            args = split_commas(toks, match, k + 2, match[k + 1] - 1)
            if not args or not (args[0][0] == args[0][1] and toks[args[0][0]].s in mems):
                fail("%s line %d: %s called on something that is not a wasmMemory* variable of this function" % (f.name, toks[k].line, s))
        k += 1


def parse_address(ctx, f, lo, hi):
    """base | base + N | base + i * sizeof(T) | base + i * N  -> (base, lean Off)"""
    toks = f.toks
    if not is_ident(toks[lo].s):
        return txt(toks, lo, hi), ".dyn"
    base = toks[lo].s
    if lo == hi:
        return base, ".const 0"
    if toks[lo + 1].s != "+":
        return txt(toks, lo, hi), ".dyn"
    rest = [t.s for t in toks[lo + 2:hi + 1]]
    if len(rest) == 1 and re.fullmatch(r"\d+", rest[0]):
        return base, ".const %d" % int(rest[0])
    if len(rest) >= 3 and is_ident(rest[0]) and rest[1] == "*":
        if len(rest) == 3 and re.fullmatch(r"\d+", rest[2]):
            return base, ".index %d" % int(rest[2])
        if len(rest) == 6 and rest[2] == "sizeof" and rest[3] == "(" and rest[5] == ")":
            byte, w = ctx.width_of(rest[4], 0)
            if w:
                return base, ".index %d" % w
    return base, ".dyn"


def lean_str(s):
    return '"' + s.replace("\\", "\\\\").replace('"', '\\"') + '"'


def collect(repo):
    ctx = Ctx(repo)
    for name in ctx.funcs:
        analyse_function(ctx, ctx.funcs[name])
    # de-duplicate rows produced twice (a callee parameter followed from several call sites is analysed once; an alias
    # site is reached once) and order by line
    seen = set()
    raw = []
    for r in sorted(ctx.raw, key=lambda r: (r["line"], r["op"], r["guest"])):
        key = (r["fn"], r["line"], r["op"], r["guest"], r["otherExpr"])
        if key not in seen:
            seen.add(key)
            raw.append(r)
    ctx.raw = raw
    ctx.acc.sort(key=lambda a: a["line"])
    return ctx


def generate(repo):
    ctx = collect(repo)
    if not ctx.raw or not ctx.acc:
        fail("no raw touches / accessor calls found: the extractor no longer understands wasi.c")
    L = []
    w = L.append
    w("-- GENERATED by tools/extract/gen_wasi_raw.py from /repo/wasi/wasi.c, wasi.h and w2c2/w2c2_base.h — do not edit.")
    w("import W2c2Verif.Spec.WasiAbi")
    w("namespace W2c2Verif.Gen.WasiRaw")
    w("open W2c2Verif.Spec.WasiAbi")
    w("")
    w("/-- EVERY place where wasi.c touches guest linear memory other than through an accessor function: every `memory->data`")
    w("    and every use of a pointer alias made from it (all preprocessor branches), in source order. -/")
    w("def rawTouches : List RawTouch := [")
    rows = []
    for r in ctx.raw:
        rows.append("  { fn := %s, line := %d, op := %s, dir := %s, guest := %s, otherExpr := %s, otherTy := %s, other := %s, len := %s }"
                    % (lean_str(r["fn"]), r["line"], lean_str(r["op"]), r["dir"], lean_str(r["guest"]), lean_str(r["otherExpr"]), lean_str(r["otherTy"]),
                       r["other"], "none" if r["len"] is None else "some %d" % r["len"]))
    w(",\n".join(rows) + "]")
    w("")
    w("/-- every call of an accessor function of w2c2_base.h in wasi.c (width in bytes from its DEFINE_LOAD/DEFINE_STORE line) -/")
    w("def accessorCalls : List AccessorCall := [")
    rows = []
    for a in ctx.acc:
        rows.append("  { fn := %s, line := %d, accessor := %s, kind := .%s, width := %d, base := %s, off := %s, addr := %s, value := %s }"
                    % (lean_str(a["fn"]), a["line"], lean_str(a["accessor"]), a["kind"], a["width"], lean_str(a["base"]), a["off"], lean_str(a["addr"]), lean_str(a["value"])))
    w(",\n".join(rows) + "]")
    w("")
    w("/-- the accessor functions of w2c2_base.h: (name, width in bytes) -/")
    w("def accessorWidths : List (String × Nat) := [" + ", ".join("(%s, %d)" % (lean_str(n), ctx.accessors[n][1]) for n in sorted(ctx.accessors)) + "]")
    w("")
    w("end W2c2Verif.Gen.WasiRaw")
    return "\n".join(L) + "\n"


if __name__ == "__main__":
    import sys
    sys.stdout.write(generate(sys.argv[1] if len(sys.argv) > 1 else "/repo"))
