"""gen_hashrange — regenerate lean/W2c2Verif/Gen/HashRange.lean: WHICH BYTES of a code-section entry wasmReadCodeSection hands to
SHA1 for the function fingerprint that `-r REF` compares (C09: "a function is classified static only if the reference module
contains a byte-identical body" — the body of a code entry is its locals vector followed by its instructions).

wasmReadCodeSection (reader.c) is parsed with tools/extract/cmini.py and its loop body is walked in execution order with a symbolic
state (local names are free, temporaries substituted, casts transparent):
  * the reader position `reader->buffer.data` is `bodyStart` until wasmReadCodeLocalsDeclarations has been called and `codeStart`
    afterwards (a copy taken earlier keeps its value);
  * the size read by the first leb128ReadU32 of the loop body is `bodySize`; after `size -= (position - <bodyStart copy>)` with the
    position at `codeStart` it is `codeLength`;
  * `function->code.data` / `function->code.length` have the values stored into them.
The single call `SHA1(P, N, function->hash)` gives the facts `sha1Start` (role of P), `sha1Length` (role of N) and that the digest goes to
the function's hash member.  Props/C09Hash proves from them that the fingerprint covers the whole body and the body-level statement of
the property; with the hash taken over the instruction bytes only (seeded change C09/12) `hash_covers_whole_body` is false.
"""
import os

import cmini as C

GEN_NAME = "HashRange"
FN = "wasmReadCodeSection"
TYPES = ("WasmModuleReader", "WasmModuleReaderError", "WasmFunction", "Buffer")


class ExtractFail(Exception):
    pass


def _fail(what):
    raise ExtractFail("EXTRACT-FAIL gen_hashrange: reader.c " + FN + ": " + what)


class Walk:
    def __init__(self, reader):
        self.reader = reader
        self.pos = ("member", ("member", ("id", reader), "buffer"), "data")
        self.locals_read = False
        self.size_var = None
        self.env = {}               # local -> role
        self.fn_var = None          # the WasmFunction* local
        self.code = {}              # "data"/"length" -> role
        self.calls = []             # (startRole, lengthRole, digest-is-hash-member)

    def val(self, e):
        e = C.strip_casts(e)
        if e == self.pos:
            return "codeStart" if self.locals_read else "bodyStart"
        if e[0] == "id":
            return self.env.get(e[1], "other")
        if e[0] == "member" and e[1][0] == "member" and e[1][1] == ("id", self.fn_var) and e[1][2] == "code":
            return self.code.get(e[2], "other")
        if e[0] == "bin" and e[1] == "-":
            a, b = self.val(e[2]), self.val(e[3])
            if a == "codeStart" and b == "bodyStart":
                return "localsLength"
            if a == "bodySize" and b == "localsLength":
                return "codeLength"
            if a == b and a in ("bodyStart", "codeStart"):
                return "zero"
            if a == "bodySize" and b == "zero":
                return "bodySize"
        return "other"

    def scan_calls(self, e):
        if not isinstance(e, tuple):
            return
        if e[0] == "call" and e[1][0] == "id":
            name = e[1][1]
            if name == "SHA1":
                if len(e[2]) != 3:
                    _fail("SHA1 call with %d arguments" % len(e[2]))
                dig = C.strip_casts(e[2][2])
                self.calls.append((self.val(e[2][0]), self.val(e[2][1]), dig == ("member", ("id", self.fn_var), "hash")))
            elif name == "wasmReadCodeLocalsDeclarations":
                self.locals_read = True
            elif name == "leb128ReadU32" and len(e[2]) == 2 and self.in_loop and self.size_var is None:
                a = C.strip_casts(e[2][1])
                if a[0] == "un" and a[1] == "&" and a[2][0] == "id":
                    self.size_var = a[2][1]
                    self.env[a[2][1]] = "bodySize"
        for x in e[1:]:
            if isinstance(x, tuple):
                self.scan_calls(x)
            elif isinstance(x, list):
                for y in x:
                    self.scan_calls(y)

    in_loop = False

    def stmts(self, body):
        for s in body:
            k = s[0]
            if k == "decl":
                if s[1] == "WasmFunction*" and self.in_loop:
                    self.fn_var = s[2]
                if s[3] is not None and s[3][0] != "braces":
                    self.scan_calls(s[3])
                    self.env[s[2]] = self.val(s[3])
            elif k == "assign":
                self.scan_calls(s[3])
                tgt = s[1]
                rhs = s[3]
                if s[2] != "=":
                    rhs = ("bin", s[2][:-1], tgt, s[3])
                v = self.val(rhs)
                if tgt[0] == "id":
                    self.env[tgt[1]] = v
                elif tgt[0] == "member" and tgt[1][0] == "member" and tgt[1][1] == ("id", self.fn_var) and tgt[1][2] == "code":
                    self.code[tgt[2]] = v
            elif k in ("expr", "return"):
                if s[1] is not None:
                    self.scan_calls(s[1])
            elif k == "if":
                self.scan_calls(s[1])
                # the branches of the reader are error returns; a branch that does not leave must not touch the tracked state
                snapshot = (dict(self.env), dict(self.code), self.locals_read)
                self.stmts(s[2])
                if s[3] is not None:
                    self.stmts(s[3])
                leaves = bool(s[2]) and s[2][-1][0] == "return" and s[3] is None
                if leaves:
                    self.env, self.code = snapshot[0], snapshot[1]
                    # a call made in the condition (wasmReadCodeLocalsDeclarations) stays made
                elif (dict(self.env), dict(self.code)) != (snapshot[0], snapshot[1]):
                    _fail("a conditional that changes the position / size bookkeeping is outside the accepted shape")
            elif k == "block":
                self.stmts(s[1])
            elif k in ("for", "while"):
                if self.in_loop:
                    _fail("a nested loop in the code loop is outside the accepted shape")
                self.in_loop = True
                body = s[4] if k == "for" else s[2]
                self.stmts(body)
                self.in_loop = False
            elif k in ("break", "continue", "goto", "label"):
                pass
            else:
                _fail("statement `%s` is outside the accepted grammar" % k)


def extract(repo):
    src = C.subst_defines(C.strip_comments(open(os.path.join(repo, "w2c2", "reader.c")).read()))
    try:
        ptxt, btxt = C.find_function_text(src, FN, "reader.c " + FN)
        body = C.parse_body(btxt, "reader.c " + FN, TYPES)
    except C.ParseFail as e:
        raise ExtractFail("EXTRACT-FAIL gen_hashrange: " + str(e))
    import re
    m = re.search(r"WasmModuleReader\s*\*\s*(\w+)", ptxt)
    if not m:
        _fail("no WasmModuleReader* parameter")
    w = Walk(m.group(1))
    w.stmts(C.norm_incr(body))
    if len(w.calls) != 1:
        _fail("expected exactly one SHA1 call in the code loop, found %d" % len(w.calls))
    # no other fingerprint of functions anywhere in the translator
    for f in sorted(os.listdir(os.path.join(repo, "w2c2"))):
        if f.endswith(".c") and f not in ("sha1.c",) and not f.endswith("_test.c") and f != "test.c":
            txt = C.strip_comments(open(os.path.join(repo, "w2c2", f)).read())
            n = len(re.findall(r"\bSHA1\s*\(|\bSHA1(?:Init|Update|Final)\s*\(", txt))
            if n != (1 if f == "reader.c" else 0):
                _fail("%s contains %d SHA-1 calls (expected %d): a fingerprint the model does not know" % (f, n, 1 if f == "reader.c" else 0))
    return w.calls[0]


LEAN_POS = {"bodyStart": ".bodyStart", "codeStart": ".codeStart"}
LEAN_LEN = {"bodySize": ".bodySize", "codeLength": ".codeLength", "localsLength": ".localsLength"}


def generate(repo):
    start, length, to_hash = extract(repo)
    L = []
    A = L.append
    A("/- GENERATED by tools/extract/gen_hashrange.py from /repo/w2c2/reader.c — do not edit. -/")
    A("namespace W2c2Verif.Gen.HashRange")
    A("")
    A("/-- a position inside a code-section entry: `bodyStart` = first byte after the entry's size (the locals vector begins here),")
    A("    `codeStart` = first instruction byte (after the locals vector) -/")
    A("inductive Pos | bodyStart | codeStart | other\n  deriving Repr, DecidableEq")
    A("/-- a length: `bodySize` = the entry's declared size (locals vector + instructions), `codeLength` = bodySize − length of the")
    A("    locals vector, `localsLength` = length of the locals vector -/")
    A("inductive Len | bodySize | codeLength | localsLength | other\n  deriving Repr, DecidableEq")
    A("")
    A("/-- wasmReadCodeSection: `SHA1(sha1Start, sha1Length, function->hash)` -/")
    A("def sha1Start : Pos := " + LEAN_POS.get(start, ".other"))
    A("def sha1Length : Len := " + LEAN_LEN.get(length, ".other"))
    A("/-- the digest is written to the function's `hash` member (the one main.c sorts and merges on) -/")
    A("def digestIsFunctionHash : Bool := " + str(bool(to_hash)).lower())
    A("")
    A("end W2c2Verif.Gen.HashRange")
    return "\n".join(L) + "\n"


if __name__ == "__main__":
    import sys
    print(generate(sys.argv[1] if len(sys.argv) > 1 else "/repo"), end="")
