"""srcscan — whole-translator source scan shared by gen_threads (C09) and gen_envcalls (C07).

The translator's translation units (w2c2/*.c without the tests) are preprocessed by the REAL preprocessor
(`gcc -E` with the HAS_* configuration the checks build with), so conditional compilation, includes and macros
(MUST, ARRAY_TYPE-generated functions, …) are exactly what is compiled.  Only tokens that originate from files
of the repository (line markers) are kept; they are split into top-level items:

  * function definitions  `… name ( params ) { body }`           -> Func(name, file, line, body tokens)
  * every other top-level declaration ending in `;`              -> candidate objects with static storage duration
  * `static` declarations inside function bodies                  -> static locals

For each object: is the OBJECT ITSELF const-qualified (for pointers: `* const name`), is it an array.  For every
function: which identifiers it mentions (call graph edges = mentions of defined functions, so function pointers
are covered; external calls = `name (` of anything that is neither defined here nor declared in the function).
Anything the scanner cannot classify raises ExtractFail (a broken tie), it never guesses.
"""
import os
import re
import subprocess

from cfront import ExtractFail, lex

DEFS = ["-DHAS_PTHREAD=1", "-DHAS_UNISTD=1", "-DHAS_GETOPT=1", "-DHAS_LIBGEN=1", "-DHAS_STRDUP=1", "-DHAS_GLOB=1"]
ASSIGN_OPS = {"=", "+=", "-=", "*=", "/=", "%=", "&=", "|=", "^=", "<<=", ">>="}
KEYWORDS = {"if", "while", "for", "switch", "return", "sizeof", "do", "else", "case", "goto", "break", "continue", "default",
            "__extension__", "__attribute__", "__asm__", "asm", "__typeof__", "__builtin_offsetof", "__alignof__"}
TYPEWORDS = {"void", "char", "short", "int", "long", "float", "double", "signed", "unsigned", "const", "volatile", "struct",
             "union", "enum", "static", "extern", "register", "inline", "__inline", "__inline__", "_Bool", "restrict", "__restrict"}


class Func(object):
    def __init__(self, name, file, line, body, static, head):
        self.name, self.file, self.line, self.body, self.static, self.head = name, file, line, body, static, head


class Obj(object):
    def __init__(self, name, file, line, func, is_const, is_array, is_static, text):
        self.name, self.file, self.line, self.func = name, file, line, func
        self.is_const, self.is_array, self.is_static, self.text = is_const, is_array, is_static, text

    def key(self):
        return (self.name, self.func, self.file)


def translation_units(repo):
    d = os.path.join(repo, "w2c2")
    return [f for f in sorted(os.listdir(d)) if f.endswith(".c") and not f.endswith("_test.c") and f != "test.c"]


def preprocess(repo, fname):
    """-> list of (file relative to w2c2/, Tok) for the tokens that come from repository files"""
    d = os.path.join(repo, "w2c2")
    p = subprocess.run(["gcc", "-E", "-O0", "-w"] + DEFS + [os.path.join(d, fname)], stdout=subprocess.PIPE,
                       stderr=subprocess.PIPE, text=True, cwd=d)
    if p.returncode != 0:
        raise ExtractFail(fname, "gcc -E failed: " + p.stderr[-400:])
    out = []
    cur = None
    real = os.path.realpath(d)
    chunk = []
    chunk_file = None
    chunk_line = 1

    def flush():
        if chunk_file is not None and chunk:
            text = "\n".join(chunk)
            for ln in lex(text, chunk_file):
                for t in ln:
                    t.line += chunk_line - 1
                    out.append((chunk_file, t))
    for line in p.stdout.splitlines():
        m = re.match(r'^# (\d+) "([^"]*)"', line)
        if m:
            flush()
            chunk = []
            path = m.group(2)
            rp = os.path.realpath(path if os.path.isabs(path) else os.path.join(d, path))
            chunk_file = os.path.relpath(rp, real) if (rp.startswith(real + os.sep)) else None
            chunk_line = int(m.group(1))
            continue
        chunk.append(line)
    flush()
    return out


def _match(toks, i, open_t, close_t, where):
    d = 0
    k = i
    while k < len(toks):
        if toks[k].text == open_t:
            d += 1
        elif toks[k].text == close_t:
            d -= 1
            if d == 0:
                return k
        k += 1
    raise ExtractFail(where, "unbalanced " + open_t)


def split_top(ftoks, where):
    """[(file, Tok)] -> (functions, top-level declaration items [(file, [Tok])])"""
    toks = [t for _, t in ftoks]
    files = [f for f, _ in ftoks]
    funcs, items = [], []
    i, n, start = 0, len(toks), 0
    while i < n:
        t = toks[i]
        if t.text == "{":
            j = i - 1
            if j >= 0 and toks[j].text == ")":
                d, k = 0, j
                while k >= 0:
                    if toks[k].text == ")":
                        d += 1
                    elif toks[k].text == "(":
                        d -= 1
                        if d == 0:
                            break
                    k -= 1
                if k >= 1 and toks[k - 1].kind == "id" and toks[k - 1].text not in KEYWORDS:
                    e = _match(toks, i, "{", "}", where)
                    head = toks[start:k - 1]
                    funcs.append(Func(toks[k - 1].text, files[k - 1], toks[k - 1].line, toks[i + 1:e],
                                      any(h.text == "static" for h in head), toks[start:i]))
                    i = e + 1
                    start = i
                    continue
            i = _match(toks, i, "{", "}", where) + 1      # struct / enum / initialiser block
            continue
        if t.text == ";":
            if i > start:
                items.append((files[start], toks[start:i]))
            start = i + 1
        i += 1
    return funcs, items


def _split_commas(toks, where):
    out, d = [[]], 0
    for t in toks:
        if t.text in "([{":
            d += 1
        elif t.text in ")]}":
            d -= 1
        if t.text == "," and d == 0:
            out.append([])
        else:
            out[-1].append(t)
    return out


def parse_object_decl(toks, file, func, where):
    """One declaration (without the final `;`).  -> [Obj] (empty for typedefs, prototypes, pure type declarations,
    `extern` declarations without initialiser)."""
    # attributes / asm labels / __extension__ carry no declarator
    clean, k = [], 0
    while k < len(toks):
        if toks[k].text in ("__attribute__", "__asm__", "asm") and k + 1 < len(toks) and toks[k + 1].text == "(":
            k = _match(toks, k + 1, "(", ")", where) + 1
            continue
        if toks[k].text != "__extension__":
            clean.append(toks[k])
        k += 1
    toks = clean
    if not toks:
        return []
    texts = [t.text for t in toks]
    if "typedef" in texts[:3]:
        return []
    # specifiers: everything up to the first declarator.  A struct/union/enum body belongs to the specifiers.
    i = 0
    spec = []
    while i < len(toks):
        t = toks[i]
        if t.text in ("struct", "union", "enum"):
            spec.append(t)
            i += 1
            if i < len(toks) and toks[i].kind == "id":
                spec.append(toks[i])
                i += 1
            if i < len(toks) and toks[i].text == "{":
                e = _match(toks, i, "{", "}", where)
                i = e + 1
            continue
        if t.text in TYPEWORDS or t.text == "__attribute__":
            spec.append(t)
            i += 1
            if t.text == "__attribute__" and i < len(toks) and toks[i].text == "(":
                i = _match(toks, i, "(", ")", where) + 1
            continue
        break
    rest = toks[i:]
    if not rest:
        return []                         # `struct X {...};` / `enum {...};`
    # the first identifier of `rest` may be a typedef name (the type) when no basic type word was seen
    has_base = any(s.text in ("void", "char", "short", "int", "long", "float", "double", "signed", "unsigned", "_Bool", "struct", "union", "enum")
                   for s in spec)
    if not has_base:
        if rest[0].kind != "id":
            raise ExtractFail(where, "declaration without a type: " + " ".join(texts)[:120])
        spec.append(rest[0])
        rest = rest[1:]
        # qualifiers after the type name (`T const x`)
        while rest and rest[0].text in ("const", "volatile"):
            spec.append(rest[0])
            rest = rest[1:]
    if not rest:
        return []
    is_static = any(s.text == "static" for s in spec)
    is_extern = any(s.text == "extern" for s in spec)
    spec_const = any(s.text == "const" for s in spec)
    objs = []
    for decl in _split_commas(rest, where):
        # split declarator / initialiser at the top-level `=`
        d, eq = 0, None
        for k, t in enumerate(decl):
            if t.text in "([{":
                d += 1
            elif t.text in ")]}":
                d -= 1
            elif t.text == "=" and d == 0:
                eq = k
                break
        dtor = decl[:eq] if eq is not None else decl
        if not dtor:
            continue
        dt = [t.text for t in dtor]
        if "(" in dt:
            # function prototype `name ( … )` or function pointer `( * name ) ( … )`
            m = re.match(r"^(?:\* ?)*\( \* (?:const )?(\w+) \) \(", " ".join(dt))
            if not m:
                continue                  # prototype: not an object
            name = m.group(1)
            is_const = bool(re.match(r"^(?:\* ?)*\( \* const ", " ".join(dt)))
            is_array = False
        else:
            ids, depth = [], 0
            for k, t in enumerate(dtor):
                if t.text == "[":
                    depth += 1
                elif t.text == "]":
                    depth -= 1
                elif depth == 0 and t.kind == "id" and t.text not in ("const", "volatile", "restrict", "__restrict"):
                    ids.append(k)
            if len(ids) != 1:
                raise ExtractFail(where, "cannot find the declared name in `%s`" % " ".join(dt)[:120])
            k = ids[0]
            name = dtor[k].text
            before = dt[:k]
            after = dt[k + 1:]
            if any(x not in ("*", "const", "volatile", "restrict", "__restrict") for x in before):
                raise ExtractFail(where, "unexpected declarator `%s`" % " ".join(dt)[:120])
            if after and after[0] != "[":
                raise ExtractFail(where, "unexpected declarator suffix `%s`" % " ".join(dt)[:120])
            is_array = bool(after)
            if "*" in before:
                last = len(before) - 1 - before[::-1].index("*")
                is_const = "const" in before[last + 1:]
            else:
                is_const = spec_const or "const" in before
        if is_extern and eq is None:
            continue                      # a declaration; the definition is found in its own translation unit
        objs.append(Obj(name, file, dtor[0].line, func, is_const, is_array, is_static,
                        " ".join(t.text for t in toks)[:160]))
    return objs


def static_locals(f, where):
    """`static` declarations inside a function body"""
    out = []
    b = f.body
    i = 0
    while i < len(b):
        if b[i].text == "static" and (i == 0 or b[i - 1].text in ("{", ";", "}", ":")):
            e = i
            d = 0
            while e < len(b):
                if b[e].text in "([{":
                    d += 1
                elif b[e].text in ")]}":
                    d -= 1
                elif b[e].text == ";" and d == 0:
                    break
                e += 1
            out += [(o, i, e) for o in parse_object_decl(b[i:e], f.file, f.name, "%s:%s" % (where, f.name))]
            i = e
        i += 1
    return out


def classify_use(b, i, obj):
    """how the identifier at b[i] (naming obj) is used: 'write' | 'addr' | 'read'"""
    prev = b[i - 1].text if i > 0 else ""
    prev2 = b[i - 2].text if i > 1 else ""
    if prev in ("++", "--"):
        return "write"
    # skip postfix chains  [ … ]  . f  -> f
    k = i + 1
    sub = False
    while k < len(b):
        if b[k].text == "[":
            k = _match(b, k, "[", "]", "use") + 1
            sub = True
        elif b[k].text in (".", "->") and k + 1 < len(b):
            k += 2
            sub = True
        else:
            break
    nxt = b[k].text if k < len(b) else ""
    if nxt in ASSIGN_OPS or nxt in ("++", "--"):
        return "write"
    if prev == "sizeof" or (prev == "(" and prev2 == "sizeof"):
        return "read"
    if prev == "&" and (i < 2 or b[i - 2].kind not in ("id", "num") and b[i - 2].text not in (")", "]")):
        return "addr"
    if obj.is_array and not (i + 1 < len(b) and b[i + 1].text == "["):
        return "addr"                     # the array decays to a pointer to its (mutable) elements
    if obj.is_array and nxt not in ASSIGN_OPS:
        # element read `a[i]`; `&a[i]` is caught above only for the bare name: check the `&` in front
        if prev == "&":
            return "addr"
    return "read"


class Scan(object):
    """Result of scanning the whole translator."""

    def __init__(self, repo):
        self.funcs = {}          # name -> [Func]   (static functions of different units may share a name)
        self.objects = []        # [Obj]  file scope and static locals, de-duplicated across translation units
        self.local_span = {}     # Obj.key() -> set of (file, line) of its declaration tokens
        seen_obj = set()
        seen_fn = set()
        self.units = translation_units(repo)
        for tu in self.units:
            ftoks = preprocess(repo, tu)
            funcs, items = split_top(ftoks, tu)
            for file, toks in items:
                for o in parse_object_decl(toks, file, "", "%s:%d" % (file, toks[0].line)):
                    if (o.name, o.file, o.line) not in seen_obj:
                        seen_obj.add((o.name, o.file, o.line))
                        self.objects.append(o)
            for f in funcs:
                if (f.name, f.file, f.line) in seen_fn:
                    continue
                seen_fn.add((f.name, f.file, f.line))
                self.funcs.setdefault(f.name, []).append(f)
                f.statics = static_locals(f, tu)
                for o, a, e in f.statics:
                    self.objects.append(o)
        self.objects.sort(key=lambda o: (o.file, o.line, o.name))

    def all_funcs(self):
        return [f for fs in self.funcs.values() for f in fs]

    def mentions(self, f):
        return set(t.text for t in f.body if t.kind == "id")

    def reachable(self, roots):
        for r in roots:
            if r not in self.funcs:
                raise ExtractFail("srcscan", "root function %s is not defined in the translator" % r)
        seen = set(roots)
        todo = list(roots)
        while todo:
            g = todo.pop()
            for f in self.funcs[g]:
                for nm in self.mentions(f):
                    if nm in self.funcs and nm not in seen:
                        seen.add(nm)
                        todo.append(nm)
        return seen

    def local_names(self, f):
        """identifiers declared inside f (parameters and block-scope variables, approximately: `T name [=;,[)]` patterns)"""
        names = set()
        # parameters
        head = f.head
        for k, t in enumerate(head):
            if t.kind == "id" and k + 1 < len(head) and head[k + 1].text in (",", ")", "["):
                names.add(t.text)
        b = f.body
        for k, t in enumerate(b):
            if t.kind == "id" and k > 0 and k + 1 < len(b) and b[k + 1].text in ("=", ";", ",", "[", ")") and \
                    (b[k - 1].kind == "id" and b[k - 1].text not in KEYWORDS or b[k - 1].text in ("*", "const")):
                if b[k - 1].kind == "id" or b[k - 1].text == "const" or (k > 1 and (b[k - 2].kind == "id" or b[k - 2].text in ("*", "const"))):
                    names.add(t.text)
        return names

    def uses_of(self, f, obj):
        """[(kind, line)] uses of obj inside f (declaration tokens of a static local excluded)"""
        skip = set()
        for o, a, e in getattr(f, "statics", []):
            # declarators and static initialisers (of this and of same-named statics in sibling blocks) are not run-time accesses
            skip.update(range(a, e + 1))
        if obj.func and obj.func != f.name:
            return []
        if not obj.func and obj.name in self.shadowed(f):
            return []
        res = []
        b = f.body
        for i, t in enumerate(b):
            if t.kind == "id" and t.text == obj.name and i not in skip and not (i > 0 and b[i - 1].text in (".", "->")):
                res.append((classify_use(b, i, obj), t.line))
        return res

    def shadowed(self, f):
        if not hasattr(f, "_shadow"):
            f._shadow = self.local_names(f)
        return f._shadow

    def extern_calls(self, f):
        """names called like functions in f that the translator does not define (libc, pthread, compiler builtins)"""
        out = set()
        b = f.body
        loc = self.shadowed(f)
        for i, t in enumerate(b):
            if t.kind == "id" and i + 1 < len(b) and b[i + 1].text == "(" and t.text not in KEYWORDS and t.text not in TYPEWORDS \
                    and t.text not in self.funcs and t.text not in loc and not (i > 0 and b[i - 1].text in (".", "->")):
                out.add(t.text)
        return out
