"""gen_emit — regenerate lean/W2c2Verif/Gen/EmitTable.lean from /repo/w2c2/{c.c,opcode.h,opcode.c}.

Extracted (all by parsing the C source, nothing hard-coded):
  * opcode enums with their byte values (opcode.h);
  * wasmOpcodeResultType / wasmOpcodeParameter1Type tables (opcode.c);
  * the name tables of c.c (valueTypeNames, signedTypeNames, shiftMaskStrings,
    valueTypeStackNames, name prefixes);
  * for every numeric opcode `case` of the dispatch switch of wasmCWriteFunctionCode (and the
    0xFC saturating truncations): which emitter is called with which result type / operator
    string / assignment flag;
  * load / store opcode → runtime function name and result type.
"""
import os
import re
import sys
from cfront import ExtractFail, lean_str

GEN_NAME = "EmitTable"


def strip_comments(text):
    return re.sub(r"/\*.*?\*/", "", text, flags=re.S)


def function_body(text, name, where):
    """Text of the body of the (last) definition of function `name` (brace matched)."""
    best = None
    for m in re.finditer(r"\b%s\s*\(" % re.escape(name), text):
        # find the closing paren, then expect '{'
        i = m.end() - 1
        d = 0
        while i < len(text):
            if text[i] == "(":
                d += 1
            elif text[i] == ")":
                d -= 1
                if d == 0:
                    break
            i += 1
        j = i + 1
        while j < len(text) and text[j] in " \t\r\n":
            j += 1
        if j < len(text) and text[j] == "{":
            d = 0
            k = j
            while k < len(text):
                if text[k] == "{":
                    d += 1
                elif text[k] == "}":
                    d -= 1
                    if d == 0:
                        break
                k += 1
            best = text[j + 1:k]
    if best is None:
        raise ExtractFail(where, f"function {name} not found")
    return best


def switch_groups(body):
    """Split a switch body into [(labels, text)] — consecutive `case X:` labels share the text
    up to the next label at the same nesting level."""
    groups = []
    i = 0
    n = len(body)
    depth = 0
    cur_labels = []
    cur_start = None
    pending = []
    tok = re.compile(r"case\s+(-?\w+)\s*:|default\s*:|[{}]")
    last_end = 0
    items = []
    for m in tok.finditer(body):
        t = m.group(0)
        if t == "{":
            depth += 1
        elif t == "}":
            depth -= 1
        else:
            items.append((m.start(), m.end(), depth, m.group(1) if m.group(1) else "default"))
    if not items:
        return groups
    base = min(d for _, _, d, _ in items)
    items = [it for it in items if it[2] == base]
    k = 0
    while k < len(items):
        labels = [items[k][3]]
        end = items[k][1]
        k2 = k + 1
        while k2 < len(items) and body[end:items[k2][0]].strip() == "":
            labels.append(items[k2][3])
            end = items[k2][1]
            k2 += 1
        nxt = items[k2][0] if k2 < len(items) else len(body)
        groups.append((labels, body[end:nxt]))
        k = k2
    return groups


def enum_values(text, enum_name, where):
    m = re.search(r"typedef\s+enum\s+%s\s*\{(.*?)\}\s*%s\s*;" % (enum_name, enum_name), text, re.S)
    if not m:
        raise ExtractFail(where, f"enum {enum_name} not found")
    vals = []
    cur = -1
    for item in m.group(1).split(","):
        item = item.strip()
        if not item:
            continue
        if "=" in item:
            n, v = [x.strip() for x in item.split("=")]
            cur = int(v, 0)
        else:
            n = item
            cur += 1
        vals.append((n, cur))
    return vals


def type_table(text, fname, where):
    body = function_body(text, fname, where)
    sw = body[body.index("switch"):]
    sw = sw[sw.index("{") + 1:]
    res = {}
    for labels, t in switch_groups(sw):
        m = re.search(r"return\s+wasmValueType(\w+)\s*;", t)
        if not m:
            continue
        for l in labels:
            if l != "default":
                res[l] = m.group(1).lower()
    return res


VT = {"wasmValueTypeI32": "i32", "wasmValueTypeI64": "i64", "wasmValueTypeF32": "f32", "wasmValueTypeF64": "f64"}


def numeric_rows(cc, where):
    body = function_body(cc, "wasmCWriteFunctionCode", where)
    rows = []
    pat = re.compile(r"MUST\s*\(\s*wasmCWrite(\w+)Expr\s*\(\s*writer\s*(?:,\s*(.*?))?\)\s*\)", re.S)
    seen = set()

    def walk(text):
        for labels, t in switch_groups(text):
            # nested switch (threads / misc prefix, or the default: numeric switch)
            inner = re.search(r"switch\s*\([^)]*\)\s*\{", t)
            if inner:
                # body of nested switch
                s = inner.end()
                d = 1
                k = s
                while k < len(t) and d:
                    if t[k] == "{":
                        d += 1
                    elif t[k] == "}":
                        d -= 1
                    k += 1
                walk(t[s:k - 1])
                continue
            m = pat.search(t)
            if not m:
                continue
            kind = m.group(1)
            args = [a.strip() for a in re.split(r",(?![^()]*\))", m.group(2) or "") if a.strip()]
            for l in labels:
                if l == "default" or l in seen:
                    continue
                seen.add(l)
                rows.append((l, kind, args, t))
    sw = body[body.index("switch"):]
    sw = sw[sw.index("{") + 1:]
    walk(sw)
    return rows


def load_store_rows(cc, fname, where):
    body = function_body(cc, fname, where)
    sw = body[body.index("switch"):]
    sw = sw[sw.index("{") + 1:]
    rows = []
    for labels, t in switch_groups(sw):
        fn = re.search(r'functionName\s*=\s*"(\w+)"', t)
        rt = re.search(r"resultType\s*=\s*(wasmValueType\w+)", t)
        if fn:
            for l in labels:
                rows.append((l, fn.group(1), VT[rt.group(1)] if rt else None))
    return rows


def string_array(cc, name, where):
    m = re.search(r"%s\s*\[[^\]]*\]\s*=\s*\{(.*?)\}" % name, cc, re.S)
    if not m:
        raise ExtractFail(where, f"array {name} not found")
    return re.findall(r'"([^"]*)"|\'(.)\'', m.group(1))


def un_shape(lit, where):
    """Parse the C string literal of a unary operator: "!", "-", identifier, or "(T1)(T2)…"."""
    op = lit.strip()
    if not (op.startswith('"') and op.endswith('"')):
        raise ExtractFail(where, f"unary operator is not a string literal: {lit}")
    op = op[1:-1]
    if op == "!":
        return ".lnot"
    if op == "-":
        return ".neg"
    if re.fullmatch(r"[A-Za-z_]\w*", op):
        return f"(.call {lean_str(op)})"
    m = re.fullmatch(r"(?:\((?:U8|I8|U16|I16|U32|I32|U64|I64|F32|F64)\))+", op)
    if m:
        ts = re.findall(r"\((\w+)\)", op)
        return "(.casts [" + ", ".join("." + t.lower() for t in ts) + "])"
    raise ExtractFail(where, f"unary operator string {op!r} is neither !, -, an identifier nor a cast chain")


def generate(repo):
    W = "c.c"
    cc = strip_comments(open(os.path.join(repo, "w2c2", "c.c")).read())
    oh = strip_comments(open(os.path.join(repo, "w2c2", "opcode.h")).read())
    oc = strip_comments(open(os.path.join(repo, "w2c2", "opcode.c")).read())
    out = ["-- GENERATED by tools/extract/gen_emit.py from /repo/w2c2/{c.c,opcode.h,opcode.c} — do not edit.",
           "import W2c2Verif.CSem.Value", "namespace W2c2Verif.Gen", ""]
    out.append("inductive VT | i32 | i64 | f32 | f64 deriving DecidableEq, Repr, Inhabited")
    out.append("")
    out.append("/-- the operator string of a unary emitter, parsed: `!`, `-`, an identifier (call) or a cast chain (outermost first) -/")
    out.append("inductive UnShape | lnot | neg | call (name : String) | casts (ts : List CTy)")
    out.append("  deriving DecidableEq, Repr, Inhabited")
    out.append("")
    out.append("/-- which emitter of c.c a numeric opcode is dispatched to, with its arguments -/")
    out.append("inductive EmitKind")
    out.append("  | infix (rt : VT) (op : String) (assign : Bool)   -- wasmCWriteInfixBinaryExpr")
    out.append("  | signedInfix (op : String)                        -- wasmCWriteSignedInfixBinaryExpr")
    out.append("  | prefixBinary (rt : VT) (name : String)           -- wasmCWritePrefixBinaryExpr")
    out.append("  | unary (rt : VT) (op : String) (shape : UnShape)  -- wasmCWriteUnaryExpr; shape = parse of `op`")
    out.append("  | shl | shrS | shrU                                -- the three shift emitters")
    out.append("  deriving DecidableEq, Repr, Inhabited")
    out.append("")
    # enums
    for en, ln in (("WasmOpcode", "opcodes"), ("WasmMiscOpcode", "miscOpcodes"), ("WasmThreadsOpcode", "threadsOpcodes")):
        vals = enum_values(oh, en, "opcode.h")
        out.append(f"def {ln} : List (String × Nat) := [")
        out.append(",\n".join(f"  ({lean_str(n)}, {v})" for n, v in vals))
        out.append("]")
        out.append("")
    # result / parameter-1 type tables
    for fn, ln in (("wasmOpcodeResultType", "opcodeResultType"), ("wasmOpcodeParameter1Type", "opcodeParam1Type")):
        tab = type_table(oc, fn, "opcode.c")
        out.append(f"def {ln} : List (String × VT) := [")
        out.append(",\n".join(f"  ({lean_str(n)}, .{t})" for n, t in sorted(tab.items())))
        out.append("]")
        out.append("")
    # name tables
    vtn = [a for a, b in string_array(cc, "valueTypeNames", W)]
    stn = [a for a, b in string_array(cc, "signedTypeNames", W)]
    sms = [a for a, b in string_array(cc, "shiftMaskStrings", W)]
    vsn = [b for a, b in string_array(cc, "valueTypeStackNames", W)]
    if len(vtn) != 4 or len(stn) != 2 or len(sms) != 2 or len(vsn) != 4:
        raise ExtractFail(W, "unexpected name table sizes")
    out.append("def valueTypeNames : List String := [" + ", ".join(lean_str(x) for x in vtn) + "]")
    out.append("def signedTypeNames : List String := [" + ", ".join(lean_str(x) for x in stn) + "]")
    out.append("def shiftMaskStrings : List String := [" + ", ".join(lean_str(x) for x in sms) + "]")
    out.append("def shiftMaskValues : List Nat := [" + ", ".join(str(int(x)) for x in sms) + "]")
    out.append("def valueTypeStackNames : List Char := [" + ", ".join("'%s'" % x for x in vsn) + "]")
    for pn in ("localNamePrefix", "globalNamePrefix", "memoryNamePrefix", "dataSegmentNamePrefix",
               "tableNamePrefix", "stackNamePrefix", "labelNamePrefix"):
        m = re.search(r"%s\s*=\s*'(.)'" % pn, cc)
        if not m:
            raise ExtractFail(W, f"{pn} not found")
        out.append(f"def {pn} : Char := '{m.group(1)}'")
    out.append("")
    # numeric emit table
    rows = numeric_rows(cc, W)
    kinds = {"InfixBinary", "SignedInfixBinary", "PrefixBinary", "Unary", "ShiftLeft", "SignedShiftRight",
             "UnsignedShiftRight"}
    emit = []
    other = []
    for label, kind, args, _ in rows:
        if kind not in kinds:
            other.append((label, kind))
            continue
        if kind == "InfixBinary":
            if len(args) != 3 or args[0] not in VT:
                raise ExtractFail(W, f"unexpected arguments for {label}: {args}")
            emit.append((label, f".infix .{VT[args[0]]} {args[1]} {args[2]}"))
        elif kind == "SignedInfixBinary":
            emit.append((label, f".signedInfix {args[1]}"))
        elif kind == "PrefixBinary":
            emit.append((label, f".prefixBinary .{VT[args[0]]} {args[1]}"))
        elif kind == "Unary":
            emit.append((label, f".unary .{VT[args[0]]} {args[1]} {un_shape(args[1], W)}"))
        elif kind == "ShiftLeft":
            emit.append((label, ".shl"))
        elif kind == "SignedShiftRight":
            emit.append((label, ".shrS"))
        elif kind == "UnsignedShiftRight":
            emit.append((label, ".shrU"))
    if len(emit) < 120:
        raise ExtractFail(W, f"only {len(emit)} numeric opcode rows found in the dispatch switch")
    out.append("def emitTable : List (String × EmitKind) := [")
    out.append(",\n".join(f"  ({lean_str(l)}, {k})" for l, k in emit))
    out.append("]")
    out.append("")
    out.append("/-- opcodes dispatched to the structural emitters (control, calls, memory, atomics …) -/")
    out.append("def otherDispatch : List (String × String) := [")
    out.append(",\n".join(f"  ({lean_str(l)}, {lean_str(k)})" for l, k in other))
    out.append("]")
    out.append("")
    loads = load_store_rows(cc, "wasmCWriteLoadExpr", W)
    stores = load_store_rows(cc, "wasmCWriteStoreExpr", W)
    if len(loads) != 14 or len(stores) != 9:
        raise ExtractFail(W, f"expected 14 loads / 9 stores, found {len(loads)} / {len(stores)}")
    out.append("def loadTable : List (String × String × VT) := [")
    out.append(",\n".join(f"  ({lean_str(l)}, {lean_str(f)}, .{t})" for l, f, t in loads))
    out.append("]")
    out.append("def storeTable : List (String × String) := [")
    out.append(",\n".join(f"  ({lean_str(l)}, {lean_str(f)})" for l, f, t in stores))
    out.append("]")
    out.append("")
    out.append("end W2c2Verif.Gen")
    return "\n".join(out) + "\n"


if __name__ == "__main__":
    repo = sys.argv[1] if len(sys.argv) > 1 else "/repo"
    try:
        sys.stdout.write(generate(repo))
    except ExtractFail as e:
        print(str(e), file=sys.stderr)
        sys.exit(3)
