"""gen_instantiate — regenerate lean/W2c2Verif/Gen/Instantiate.lean from /repo/w2c2/c.c.

Extracted as DATA (an unexpected shape raises ExtractFail = broken tie):
  * the ordered sequence of initialisation steps that `wasmCWriteInstantiateFunction` and
    `wasmCWriteNewChildFunction` emit into `<module>Instantiate` / `<module>NewChild`
    (InitImports, InitMemories, InitTables, InitGlobals, call of the start function) and the guard under
    which each call is emitted (disjunction of module-shape atoms: `memories.count > 0`,
    `dataSegments.count > 0`, `tables.count > 0`, `elementSegments.count > 0`, `globals.count > 0`,
    `hasStartFunction`);
  * the guard under which the *definitions* of InitMemories / InitTables / InitGlobals are emitted
    (a call without a definition would not compile);
  * the arguments of the emitted allocation call `wasmMemoryAllocate(min, max, false)` /
    `wasmTableAllocate(&t, min, max)` and of `LOAD_DATA(mem, offset, data, length)` (which struct fields feed
    which parameter).
"""
import os
import re

from cfront import ExtractFail

GEN_NAME = "Instantiate"

ATOMS = {
    "module->memories.count>0": "memDefined", "memoryCount>0": "memDefined",
    "module->dataSegments.count>0": "hasData",
    "module->tables.count>0": "tableDefined", "tableCount>0": "tableDefined",
    "module->elementSegments.count>0": "hasElems", "elementSegmentCount>0": "hasElems",
    "module->globals.count>0": "globalsDefined", "globalCount>0": "globalsDefined",
    "module->hasStartFunction": "hasStart",
}
STEP_OF = [("%sInitImports(", "imports"), ("%sInitMemories(", "memories"), ("%sInitTables(", "tables"), ("%sInitGlobals(", "globals")]
BOOKKEEPING = ("common.funcExports", "common.resolveImports", "common.newChild", "Instance* child = (", "return child;",
               "Instantiate(%sInstance* i", "NewChild(%sInstance* self)", "}\\n\\n")


def strip_comments(src):
    return re.sub(r"/\*.*?\*/", lambda m: re.sub(r"[^\n]", " ", m.group(0)), src, flags=re.S)


def function_body(src, name, path):
    m = re.search(r"^%s\(" % re.escape(name), src, re.M)
    if not m:
        raise ExtractFail(path, "function %s not found" % name)
    i = src.index("{", src.index(")", m.end()))
    # the parameter list may contain no braces; find the matching close
    depth = 0
    k = i
    in_str = False
    while k < len(src):
        c = src[k]
        if in_str:
            if c == "\\":
                k += 1
            elif c == '"':
                in_str = False
        elif c == '"':
            in_str = True
        elif c == "{":
            depth += 1
        elif c == "}":
            depth -= 1
            if depth == 0:
                return src[i + 1:k], src.count("\n", 0, i) + 1
        k += 1
    raise ExtractFail(path, "unbalanced braces in %s" % name)


def parse_guard(cond, where):
    atoms = []
    for part in cond.split("||"):
        key = re.sub(r"\s+", "", part)
        if key not in ATOMS:
            raise ExtractFail(where, "unknown guard atom `%s`" % part.strip())
        atoms.append(ATOMS[key])
    return atoms


def split_statements(body, where):
    """top-level statements: ('if', cond, inner) | ('stmt', text)"""
    out = []
    k = 0
    n = len(body)
    while k < n:
        if body[k].isspace():
            k += 1
            continue
        m = re.match(r"if\s*\(", body[k:])
        if m:
            j = k + m.end()
            depth = 1
            while depth:
                depth += {"(": 1, ")": -1}.get(body[j], 0)
                j += 1
            cond = body[k + m.end():j - 1]
            b = body.index("{", j)
            depth = 0
            e = b
            in_str = False
            while True:
                c = body[e]
                if in_str:
                    if c == "\\":
                        e += 1
                    elif c == '"':
                        in_str = False
                elif c == '"':
                    in_str = True
                elif c == "{":
                    depth += 1
                elif c == "}":
                    depth -= 1
                    if depth == 0:
                        break
                e += 1
            out.append(("if", cond, body[b + 1:e]))
            k = e + 1
            if re.match(r"\s*else", body[k:]):
                raise ExtractFail(where, "unexpected else")
            continue
        # plain statement up to `;` outside strings/parens
        j = k
        depth = 0
        in_str = False
        while j < n:
            c = body[j]
            if in_str:
                if c == "\\":
                    j += 1
                elif c == '"':
                    in_str = False
            elif c == '"':
                in_str = True
            elif c in "({":
                depth += 1
            elif c in ")}":
                depth -= 1
            elif c == ";" and depth == 0:
                break
            j += 1
        out.append(("stmt", body[k:j].strip()))
        k = j + 1
    return out


def is_pretty(st):
    return st[0] == "if" and re.sub(r"\s+", "", st[1]) == "pretty"


ARG_RE = {"imports": r"%sInitImports\(([^()]*)\);\\n", "memories": r"%sInitMemories\(([^()]*)\);\\n", "tables": r"%sInitTables\(([^()]*)\);\\n",
          "globals": r"%sInitGlobals\(([^()]*)\);\\n", "start": r"\(([^()]*)\);\\n"}
CALL_ARGS = {}            # (writer function, step) -> [argument text] of the emitted call; filled by classify


def record_args(fname, step, lits, where):
    m = re.fullmatch(ARG_RE[step], lits)
    if not m:
        raise ExtractFail(where, "emitted call of step `%s` has an unexpected shape `%s`" % (step, lits[:60]))
    CALL_ARGS[(fname, step)] = [a.strip() for a in m.group(1).split(",")]


def classify(stmts, where, fname=None):
    """[(step, None)] for emitted text inside one guard / at top level"""
    steps = []
    pending_start = False
    for st in stmts:
        if is_pretty(st):
            continue
        if st[0] == "if":
            raise ExtractFail(where, "nested guard `%s`" % st[1].strip())
        t = st[1]
        if not t:
            continue
        if t.startswith("wasmCWriteFileFunctionUse(") and "module->startFunctionIndex" in t:
            pending_start = True
            continue
        m = re.match(r"(?:fprintf|fputs)\s*\(", t)
        if not m:
            raise ExtractFail(where, "unexpected statement `%s`" % t[:60])
        lits = "".join(re.findall(r'"((?:[^"\\]|\\.)*)"', t))
        if pending_start:
            if not re.fullmatch(r"\((?:i|child)\);\\n", lits):
                raise ExtractFail(where, "start function call has an unexpected argument list `%s`" % lits)
            steps.append("start")
            record_args(fname, "start", lits, where)
            pending_start = False
            continue
        hit = [s for k, s in STEP_OF if k in lits]
        if hit:
            steps.append(hit[0])
            record_args(fname, hit[0], lits, where)
        elif any(b in lits for b in BOOKKEEPING) or lits == "}\\n\\n":
            continue
        else:
            raise ExtractFail(where, "unknown emitted text `%s`" % lits[:60])
    if pending_start:
        raise ExtractFail(where, "start function use without call")
    return steps


def steps_of(src, fname, path):
    body, line = function_body(src, fname, path)
    where = "%s:%d" % (path, line)
    out = []
    for st in split_statements(body, where):
        if is_pretty(st):
            continue
        if st[0] == "if":
            g = parse_guard(st[1], where)
            for s in classify(split_statements(st[2], where), where, fname):
                out.append((g, s))
        else:
            for s in classify([st], where, fname):
                out.append((["always"], s))
    names = [s for _, s in out]
    if sorted(set(names)) != sorted(names):
        raise ExtractFail(where, "a step is emitted twice: %r" % names)
    return out


def definition_guard(src, fname, path):
    """guard of the outermost `if` that wraps the whole definition emitted by an Init* writer"""
    body, line = function_body(src, fname, path)
    where = "%s:%d" % (path, line)
    sts = [s for s in split_statements(body, where) if not is_pretty(s)]
    ifs = [s for s in sts if s[0] == "if"]
    others = [s for s in sts if s[0] == "stmt" and re.match(r"(fprintf|fputs)\b", s[1])]
    if len(ifs) != 1 or others:
        raise ExtractFail(where, "%s: expected exactly one guarded definition" % fname)
    return parse_guard(ifs[0][1], where)


def call_shape(src, path):
    """which fields feed the allocation / LOAD_DATA calls"""
    body, line = function_body(src, "wasmCWriteInitMemories", path)
    where = "%s:%d" % (path, line)
    flat = re.sub(r"\s+", " ", body)
    m = re.search(r'" = wasmMemoryAllocate\(%u, %u, false\);\\n", ([\w.]+), ([\w.]+)', flat)
    if not m or (m.group(1), m.group(2)) != ("memory.min", "memory.max"):
        raise ExtractFail(where, "wasmMemoryAllocate call shape changed")
    if not re.search(r'fputs\("LOAD_DATA\(", file\); wasmCWriteFileMemoryUse\( file, module, dataSegment\.memoryIndex, NULL, false \);', flat):
        raise ExtractFail(where, "LOAD_DATA target memory is not dataSegment.memoryIndex")
    if not re.search(r'wasmCWriteConstantExpr\(&stringBuilder, module, code\)', flat) or "const Buffer code = dataSegment.offset;" not in flat:
        raise ExtractFail(where, "LOAD_DATA offset is not the segment's offset expression")
    if not re.search(r'", %lu\);\\n", \(unsigned long\) dataSegmentLength', flat) or "dataSegmentLength = dataSegment.bytes.length" not in flat:
        raise ExtractFail(where, "LOAD_DATA length is not the segment length")
    if not re.search(r"if \(!?dataSegment\.passive\) \{", flat):      # the exact per-segment logic is regenerated by gen_initmem.py
        raise ExtractFail(where, "passive segments are no longer distinguished")
    tb, tl = function_body(src, "wasmCWriteInitTables", path)
    tflat = re.sub(r"\s+", " ", tb)
    if not re.search(r'fputs\("wasmTableAllocate\(", file\);.*?", %u, %u\);\\n", table\.min, table\.max', tflat):
        raise ExtractFail("%s:%d" % (path, tl), "wasmTableAllocate call shape changed")
    if 'fprintf(file, ".data[offset+%u]=(wasmFunc)", functionIndexIndex)' not in tflat or \
            "wasmCWriteFileTableUse(file, module, elementSegment.tableIndex, false)" not in tflat or \
            "functionIndex = elementSegment.functionIndices[functionIndexIndex]" not in tflat:
        raise ExtractFail("%s:%d" % (path, tl), "element store shape changed")
    return {"memAlloc": ["min", "max"], "tableAlloc": ["min", "max"]}


REF = {"i": "self", "child": "child", "self": "self", "NULL": "null"}


def call_arguments(path):
    """Which instance every emitted call initialises.  Instantiate: all calls on `i`, InitMemories' parent NULL, the resolver its own
    parameter.  NewChild: the instance argument of every call (`child` / `self`), InitMemories' parent, the resolver taken from self."""
    I, N = "wasmCWriteInstantiateFunction", "wasmCWriteNewChildFunction"
    want_i = {"imports": ["i", "resolveImports"], "memories": ["i", "NULL"], "tables": ["i"], "globals": ["i"], "start": ["i"]}
    for step, want in want_i.items():
        got = CALL_ARGS.get((I, step))
        if got != want:
            raise ExtractFail(path, "%s: call of step `%s` has arguments %r, expected %r" % (I, step, got, want))
    target, extra = {}, {}
    for step in ("imports", "memories", "tables", "globals", "start"):
        got = CALL_ARGS.get((N, step))
        if not got or got[0] not in ("child", "self"):
            raise ExtractFail(path, "%s: call of step `%s` has arguments %r" % (N, step, got))
        target[step] = got[0]
        extra[step] = got[1:]
    if extra["imports"] != ["self->common.resolveImports"]:
        raise ExtractFail(path, "%s: InitImports is not given self->common.resolveImports: %r" % (N, extra["imports"]))
    if len(extra["memories"]) != 1 or extra["memories"][0] not in ("self", "child", "NULL"):
        raise ExtractFail(path, "%s: InitMemories parent argument %r" % (N, extra["memories"]))
    if extra["tables"] or extra["globals"] or extra["start"]:
        raise ExtractFail(path, "%s: unexpected extra arguments %r" % (N, extra))
    return target, REF[extra["memories"][0]]


def lean_list(xs):
    return "[" + ", ".join(xs) + "]"


def generate(repo):
    path = os.path.join(repo, "w2c2", "c.c")
    src = strip_comments(open(path).read())
    CALL_ARGS.clear()
    inst = steps_of(src, "wasmCWriteInstantiateFunction", "w2c2/c.c")
    child = steps_of(src, "wasmCWriteNewChildFunction", "w2c2/c.c")
    dg = {"memories": definition_guard(src, "wasmCWriteInitMemories", "w2c2/c.c"),
          "tables": definition_guard(src, "wasmCWriteInitTables", "w2c2/c.c"),
          "globals": definition_guard(src, "wasmCWriteInitGlobals", "w2c2/c.c")}
    call_shape(src, "w2c2/c.c")
    target, mem_parent = call_arguments("w2c2/c.c")

    def steps(xs):
        return lean_list("(%s, .%s)" % (lean_list("." + a for a in g), s) for g, s in xs)
    out = []
    out.append("/- GENERATED by tools/extract/gen_instantiate.py from w2c2/c.c — do not edit. -/")
    out.append("namespace W2c2Verif.Gen")
    out.append("")
    out.append("/-- a call emitted into `<module>Instantiate` / `<module>NewChild` -/")
    out.append("inductive InitStep | imports | memories | tables | globals | start")
    out.append("  deriving DecidableEq, Repr, Inhabited")
    out.append("")
    out.append("/-- module-shape conditions the emitters test (a guard is a disjunction of atoms) -/")
    out.append("inductive GuardAtom | always | memDefined | hasData | tableDefined | hasElems | globalsDefined | hasStart")
    out.append("  deriving DecidableEq, Repr, Inhabited")
    out.append("")
    out.append("/-- `wasmCWriteInstantiateFunction`: the calls in emission order, each with the guard of its emission -/")
    out.append("def instantiateSteps : List (List GuardAtom × InitStep) :=\n  " + steps(inst))
    out.append("")
    out.append("/-- `wasmCWriteNewChildFunction` -/")
    out.append("def newChildSteps : List (List GuardAtom × InitStep) :=\n  " + steps(child))
    out.append("")
    out.append("/-- an instance argument of a call emitted into `<module>NewChild(self)` (`child` = the calloc'd new instance) -/")
    out.append("inductive InstRef | child | self | null")
    out.append("  deriving DecidableEq, Repr, Inhabited")
    out.append("")
    out.append("/-- `wasmCWriteNewChildFunction`: the instance each emitted call initialises (its first argument); InitImports is given")
    out.append("    `self->common.resolveImports`.  (`wasmCWriteInstantiateFunction`: every call is on `i`, InitMemories' parent is NULL — checked by the extractor.) -/")
    out.append("def newChildTarget : InitStep → InstRef")
    for st in ("imports", "memories", "tables", "globals", "start"):
        out.append("  | .%s => .%s" % (st, target[st]))
    out.append("")
    out.append("/-- second argument (`parent`) of the InitMemories call emitted into `<module>NewChild` -/")
    out.append("def newChildMemParent : InstRef := .%s" % mem_parent)
    out.append("")
    out.append("/-- guard under which the definition of each Init* function is emitted -/")
    out.append("def initDefinitionGuard : InitStep → List GuardAtom")
    for s in ("memories", "tables", "globals"):
        out.append("  | .%s => %s" % (s, lean_list("." + a for a in dg[s])))
    out.append("  | _ => [.always]")
    out.append("")
    out.append("end W2c2Verif.Gen")
    return "\n".join(out) + "\n"


if __name__ == "__main__":
    import sys
    print(generate(sys.argv[1] if len(sys.argv) > 1 else "/repo"))
