"""gen_instantiate — regenerate lean/W2c2Verif/Gen/Instantiate.lean from /repo/w2c2/c.c.

Extracted as DATA, on the normal form of tools/extract/cnorm.py (spelling of conditions, local names, temporaries, statement forms are
free; an unexpected shape raises ExtractFail = broken tie):
  * the ordered sequence of initialisation steps that `wasmCWriteInstantiateFunction` and
    `wasmCWriteNewChildFunction` emit into `<module>Instantiate` / `<module>NewChild`
    (InitImports, InitMemories, InitTables, InitGlobals, call of the start function) and the guard under
    which each call is emitted (disjunction of module-shape atoms: `memories.count > 0`,
    `dataSegments.count > 0`, `tables.count > 0`, `elementSegments.count > 0`, `globals.count > 0`,
    `hasStartFunction`);
  * the guard under which the *definitions* of InitMemories / InitTables / InitGlobals are emitted
    (a call without a definition would not compile);
  * the arguments of the emitted allocation call `wasmMemoryAllocate(min, max, false)` /
    `wasmTableAllocate(&t, min, max)` and of `LOAD_DATA(mem, offset, data, length)` (which struct fields feed
    which parameter).
"""
import os
import re

from cfront import ExtractFail

GEN_NAME = "Instantiate"

STEP_OF = [("%sInitImports(", "imports"), ("%sInitMemories(", "memories"), ("%sInitTables(", "tables"), ("%sInitGlobals(", "globals")]
BOOKKEEPING = ("common.funcExports", "common.resolveImports", "common.newChild", "Instance* child = (", "return child;",
               "Instantiate(%sInstance* i", "NewChild(%sInstance* self)", "}\\n\\n")


def strip_comments(src):
    return re.sub(r"/\*.*?\*/", lambda m: re.sub(r"[^\n]", " ", m.group(0)), src, flags=re.S)


def function_body(src, name, path):
    m = re.search(r"^%s\(" % re.escape(name), src, re.M)
    if not m:
        raise ExtractFail(path, "function %s not found" % name)
    i = src.index("{", src.index(")", m.end()))
    # the parameter list may contain no braces; find the matching close
    depth = 0
    k = i
    in_str = False
    while k < len(src):
        c = src[k]
        if in_str:
            if c == "\\":
                k += 1
            elif c == '"':
                in_str = False
        elif c == '"':
            in_str = True
        elif c == "{":
            depth += 1
        elif c == "}":
            depth -= 1
            if depth == 0:
                return src[i + 1:k], src.count("\n", 0, i) + 1
        k += 1
    raise ExtractFail(path, "unbalanced braces in %s" % name)


ATOMS_N = {"0<module->memories.count": "memDefined", "0<module->dataSegments.count": "hasData", "0<module->tables.count": "tableDefined",
           "0<module->elementSegments.count": "hasElems", "0<module->globals.count": "globalsDefined", "module->hasStartFunction": "hasStart"}


def parse_guard(c, where):
    """normal-form condition (cnorm) -> list of module-shape atoms (a disjunction)"""
    parts = [x for x, pos in c[1]] if isinstance(c, tuple) and c[0] == "or" and all(pos for _, pos in c[1]) else ([c] if isinstance(c, str) else None)
    if parts is None:
        raise ExtractFail(where, "guard %r is not a disjunction of module-shape tests" % (c,))
    atoms = []
    for part in parts:
        if part not in ATOMS_N:
            raise ExtractFail(where, "unknown guard atom `%s`" % (part,))
        atoms.append(ATOMS_N[part])
    return atoms


ARG_RE = {"imports": r"%sInitImports\(([^()]*)\);\\n", "memories": r"%sInitMemories\(([^()]*)\);\\n", "tables": r"%sInitTables\(([^()]*)\);\\n",
          "globals": r"%sInitGlobals\(([^()]*)\);\\n", "start": r"\(([^()]*)\);\\n"}
CALL_ARGS = {}            # (writer function, step) -> [argument text] of the emitted call; filled by classify


def record_args(fname, step, lits, where):
    m = re.fullmatch(ARG_RE[step], lits)
    if not m:
        raise ExtractFail(where, "emitted call of step `%s` has an unexpected shape `%s`" % (step, lits[:60]))
    CALL_ARGS[(fname, step)] = [a.strip() for a in m.group(1).split(",")]


def classify(nodes, where, fname=None):
    """steps emitted by a list of normal-form nodes (inside one guard / at top level)"""
    steps = []
    pending_start = False
    for nd in nodes:
        if nd[0] == "if" and nd[1] == "pretty":
            if nd[3] or any(x != ("do", "fputs(indentation,file)") for x in nd[2]):
                raise ExtractFail(where, "`if (pretty)` emits more than indentation")
            continue
        if nd[0] != "do":
            raise ExtractFail(where, "nested `%s` %r" % (nd[0], nd[1] if len(nd) > 1 else ""))
        t = nd[1]
        if t.startswith("wasmCWriteFileFunctionUse(") and "module->startFunctionIndex" in t:
            pending_start = True
            continue
        if not re.match(r"(?:fprintf|fputs)\(", t):
            raise ExtractFail(where, "unexpected statement `%s`" % t[:60])
        lits = "".join(re.findall(r'"((?:[^"\\]|\\.)*)"', t))
        if pending_start:
            if not re.fullmatch(r"\((?:i|child|self)\);\\n", lits):
                raise ExtractFail(where, "start function call has an unexpected argument list `%s`" % lits)
            steps.append("start")
            record_args(fname, "start", lits, where)
            pending_start = False
            continue
        hit = [s_ for k, s_ in STEP_OF if k in lits]
        if hit:
            steps.append(hit[0])
            record_args(fname, hit[0], lits, where)
        elif any(b_ in lits for b_ in BOOKKEEPING) or lits == "}\\n\\n":
            continue
        else:
            raise ExtractFail(where, "unknown emitted text `%s`" % lits[:60])
    if pending_start:
        raise ExtractFail(where, "start function use without call")
    return steps


def steps_of(src, fname, path):
    import cnorm
    body, line = function_body(src, fname, path)
    where = "%s:%d" % (path, line)
    out = []
    for nd in cnorm.normalize(body, where):
        if nd[0] == "if" and nd[1] == "pretty":
            classify([nd], where, fname)
            continue
        if nd[0] == "if":
            if nd[3]:
                raise ExtractFail(where, "unexpected else")
            g = parse_guard(nd[1], where)
            for s_ in classify(nd[2], where, fname):
                out.append((g, s_))
        else:
            for s_ in classify([nd], where, fname):
                out.append((["always"], s_))
    names = [s_ for _, s_ in out]
    if sorted(set(names)) != sorted(names):
        raise ExtractFail(where, "a step is emitted twice: %r" % names)
    return out


def definition_guard(src, fname, path):
    """guard of the outermost `if` that wraps the whole definition emitted by an Init* writer"""
    import cnorm
    body, line = function_body(src, fname, path)
    where = "%s:%d" % (path, line)
    nodes = cnorm.normalize(body, where)
    ifs = [nd for nd in nodes if nd[0] == "if"]
    others = [nd for nd in nodes if nd[0] == "do" and re.match(r"(fprintf|fputs)\(", nd[1])]
    if len(ifs) != 1 or others or ifs[0][3]:
        raise ExtractFail(where, "%s: expected exactly one guarded definition" % fname)
    return parse_guard(ifs[0][1], where)


def call_shape(src, path):
    """which fields feed the allocation / LOAD_DATA calls and the element stores: read by the loop extractors (gen_initmem,
    gen_inittables), which raise ExtractFail on any other shape; here only that the pieces this model relies on are present"""
    import gen_initmem
    import gen_inittables
    ml, sl = gen_initmem.init_memories_loops(src)
    mem = [x for g, x in ml if ".memShared false" in g]
    if [x for x in mem if x in (".emit .memMin", ".emit .memMax")] != [".emit .memMin", ".emit .memMax"]:
        raise ExtractFail(path, "wasmMemoryAllocate call shape changed")
    seg = [x for g, x in sl]
    for need, why in ((".emit .segMemUse", "LOAD_DATA target memory is not dataSegment.memoryIndex"),
                      (".emit .offsetExpr", "LOAD_DATA offset is not the segment's offset expression"),
                      (".emit .segLen", "LOAD_DATA length is not the segment length")):
        if need not in seg:
            raise ExtractFail(path, why)
    if not any(".segPassive false" in g for g, x in sl):
        raise ExtractFail(path, "passive segments are no longer distinguished")
    decl, tl, sh, el = gen_inittables.loops(src)
    if [x for g, x in tl if x in (".tableMin", ".tableMax")] != [".tableMin", ".tableMax"]:
        raise ExtractFail(path, "wasmTableAllocate call shape changed")
    plain = [x for g, x in el if ".pretty true" not in g]
    if ".position" not in plain or ".segTable" not in plain or ".funcRef" not in plain:
        raise ExtractFail(path, "element store shape changed")
    return {"memAlloc": ["min", "max"], "tableAlloc": ["min", "max"]}


REF = {"i": "self", "child": "child", "self": "self", "NULL": "null"}


def call_arguments(path):
    """Which instance every emitted call initialises.  Instantiate: all calls on `i`, InitMemories' parent NULL, the resolver its own
    parameter.  NewChild: the instance argument of every call (`child` / `self`), InitMemories' parent, the resolver taken from self."""
    I, N = "wasmCWriteInstantiateFunction", "wasmCWriteNewChildFunction"
    want_i = {"imports": ["i", "resolveImports"], "memories": ["i", "NULL"], "tables": ["i"], "globals": ["i"], "start": ["i"]}
    for step, want in want_i.items():
        got = CALL_ARGS.get((I, step))
        if got != want:
            raise ExtractFail(path, "%s: call of step `%s` has arguments %r, expected %r" % (I, step, got, want))
    target, extra = {}, {}
    for step in ("imports", "memories", "tables", "globals", "start"):
        got = CALL_ARGS.get((N, step))
        if not got or got[0] not in ("child", "self"):
            raise ExtractFail(path, "%s: call of step `%s` has arguments %r" % (N, step, got))
        target[step] = got[0]
        extra[step] = got[1:]
    if extra["imports"] != ["self->common.resolveImports"]:
        raise ExtractFail(path, "%s: InitImports is not given self->common.resolveImports: %r" % (N, extra["imports"]))
    if len(extra["memories"]) != 1 or extra["memories"][0] not in ("self", "child", "NULL"):
        raise ExtractFail(path, "%s: InitMemories parent argument %r" % (N, extra["memories"]))
    if extra["tables"] or extra["globals"] or extra["start"]:
        raise ExtractFail(path, "%s: unexpected extra arguments %r" % (N, extra))
    return target, REF[extra["memories"][0]]


def lean_list(xs):
    return "[" + ", ".join(xs) + "]"


def generate(repo):
    path = os.path.join(repo, "w2c2", "c.c")
    src = strip_comments(open(path).read())
    CALL_ARGS.clear()
    inst = steps_of(src, "wasmCWriteInstantiateFunction", "w2c2/c.c")
    child = steps_of(src, "wasmCWriteNewChildFunction", "w2c2/c.c")
    dg = {"memories": definition_guard(src, "wasmCWriteInitMemories", "w2c2/c.c"),
          "tables": definition_guard(src, "wasmCWriteInitTables", "w2c2/c.c"),
          "globals": definition_guard(src, "wasmCWriteInitGlobals", "w2c2/c.c")}
    call_shape(src, "w2c2/c.c")
    target, mem_parent = call_arguments("w2c2/c.c")

    def steps(xs):
        return lean_list("(%s, .%s)" % (lean_list("." + a for a in g), s) for g, s in xs)
    out = []
    out.append("/- GENERATED by tools/extract/gen_instantiate.py from w2c2/c.c — do not edit. -/")
    out.append("namespace W2c2Verif.Gen")
    out.append("")
    out.append("/-- a call emitted into `<module>Instantiate` / `<module>NewChild` -/")
    out.append("inductive InitStep | imports | memories | tables | globals | start")
    out.append("  deriving DecidableEq, Repr, Inhabited")
    out.append("")
    out.append("/-- module-shape conditions the emitters test (a guard is a disjunction of atoms) -/")
    out.append("inductive GuardAtom | always | memDefined | hasData | tableDefined | hasElems | globalsDefined | hasStart")
    out.append("  deriving DecidableEq, Repr, Inhabited")
    out.append("")
    out.append("/-- `wasmCWriteInstantiateFunction`: the calls in emission order, each with the guard of its emission -/")
    out.append("def instantiateSteps : List (List GuardAtom × InitStep) :=\n  " + steps(inst))
    out.append("")
    out.append("/-- `wasmCWriteNewChildFunction` -/")
    out.append("def newChildSteps : List (List GuardAtom × InitStep) :=\n  " + steps(child))
    out.append("")
    out.append("/-- an instance argument of a call emitted into `<module>NewChild(self)` (`child` = the calloc'd new instance) -/")
    out.append("inductive InstRef | child | self | null")
    out.append("  deriving DecidableEq, Repr, Inhabited")
    out.append("")
    out.append("/-- `wasmCWriteNewChildFunction`: the instance each emitted call initialises (its first argument); InitImports is given")
    out.append("    `self->common.resolveImports`.  (`wasmCWriteInstantiateFunction`: every call is on `i`, InitMemories' parent is NULL — checked by the extractor.) -/")
    out.append("def newChildTarget : InitStep → InstRef")
    for st in ("imports", "memories", "tables", "globals", "start"):
        out.append("  | .%s => .%s" % (st, target[st]))
    out.append("")
    out.append("/-- second argument (`parent`) of the InitMemories call emitted into `<module>NewChild` -/")
    out.append("def newChildMemParent : InstRef := .%s" % mem_parent)
    out.append("")
    out.append("/-- guard under which the definition of each Init* function is emitted -/")
    out.append("def initDefinitionGuard : InitStep → List GuardAtom")
    for s in ("memories", "tables", "globals"):
        out.append("  | .%s => %s" % (s, lean_list("." + a for a in dg[s])))
    out.append("  | _ => [.always]")
    out.append("")
    out.append("end W2c2Verif.Gen")
    return "\n".join(out) + "\n"


if __name__ == "__main__":
    import sys
    print(generate(sys.argv[1] if len(sys.argv) > 1 else "/repo"))
