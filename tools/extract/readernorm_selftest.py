"""Self-test of readernorm + gen_reader + gen_instr: behaviour-preserving rewrites of the w2c2 sources (one per class the
normaliser claims to unify) must give byte-identical Gen/Reader.lean and Gen/Instr.lean; a few behaviour-CHANGING edits
must change a fact or stop with EXTRACT-FAIL.   python3 tools/extract/readernorm_selftest.py [repo]   (exit 0 = ok)"""
import os
import shutil
import sys
import tempfile

sys.path.insert(0, os.path.dirname(os.path.abspath(__file__)))
import gen_reader  # noqa: E402
import gen_instr   # noqa: E402


def sub(text, old, new, count=None):
    n = text.count(old)
    if n == 0 or (count is not None and n != count):
        raise SystemExit(f"selftest: pattern `{old[:60]}` occurs {n} times (wanted {count or '>=1'}): the rewrite no longer applies")
    return text.replace(old, new)


HARMLESS = {
    "leb: for-loop, ++count, literals by value, zero test mirrored, operands swapped, locals renamed": {"leb128.h": lambda t: sub(sub(sub(sub(sub(sub(sub(
        t, "while (count < int32LEB128MaxByteCount && bufferReadByte(buffer, &byte)) {", "for (; count < int32LEB128MaxByteCount && bufferReadByte(buffer, &byte); ) {"),
        "count++;", "++count;"), "(byte & 0x80) == 0", "0 == (128 & byte)"), "(byte & 0x7F)", "(0x7f & byte)"),
        "if ((shift < 8 * sizeof(I64)) && (byte & 0x40))", "if ((byte & 64) != 0 && shift < sizeof(I64) * 8)"),
        "count", "n"), "byte", "octet")},
    "limits: kind 0 as a leading `if (0 == kind)`, the rest a switch in its else; `||` operands swapped, `== false`": {"reader.c": lambda t: sub(sub(t,
        "    switch (kindIndicator) {\n        case 0x0: {\n            *max = 0;\n            *hasMax = false;\n            *shared = false;\n            break;\n        }\n        case 0x1: {",
        "    if (0 == kindIndicator) {\n            *max = 0;\n            *hasMax = false;\n            *shared = false;\n    } else switch (kindIndicator) {\n        case 1: {", 1),
        "if (!hasMax || *max > UINT32_MAX / WASM_PAGE_SIZE) {", "if (UINT32_MAX / WASM_PAGE_SIZE < *max || hasMax == false) {", 1)},
    "data segment kinds: if-chain; block type test mirrored; decode value type as chain": {
        "reader.c": lambda t: sub(t,
        "    switch (kind) {\n        case 0x0: {\n            readMemoryIndex = false;\n            readOffsetExpression = true;\n            passive = false;\n            break;\n        }\n        case 0x1:\n            readMemoryIndex = false;\n            readOffsetExpression = false;\n            passive = true;\n            break;\n        case 0x2:\n            readMemoryIndex = true;\n            readOffsetExpression = true;\n            passive = false;\n            break;\n        default: {",
        "    if (kind == 2) {\n            readMemoryIndex = true;\n            readOffsetExpression = true;\n            passive = false;\n    } else if (kind == 0x1) {\n            readMemoryIndex = false;\n            readOffsetExpression = false;\n            passive = true;\n    } else if (!kind) {\n            readMemoryIndex = false;\n            readOffsetExpression = true;\n            passive = false;\n    } else {\n        {", 1),
        "valuetype.h": lambda t: sub(sub(t, "if (encodedValueType == -64 /* 0x40 */) {", "if (-64 == encodedValueType) {", 1),
        "    switch (encodedValueType) {\n        case -0x1: /* 0x7F */\n            *result = wasmValueTypeI32;\n            return true;\n        case -0x2: /* 0x7E */\n            *result = wasmValueTypeI64;\n            return true;",
        "    if (encodedValueType == -1) {\n            *result = wasmValueTypeI32;\n            return true;\n    } else if (encodedValueType == -2) {\n            *result = wasmValueTypeI64;\n            return true;\n    } else switch (encodedValueType) {", 1)},
    "locals: while-loop with the increment last, temporary inlined, index renamed": {"locals.h": lambda t: sub(sub(sub(sub(sub(t,
        "    for (; localsDeclarationIndex < localsDeclarations.declarationCount; localsDeclarationIndex++) {", "    while (localsDeclarationIndex < localsDeclarations.declarationCount) {", 1),
        "        const WasmLocalsDeclaration localsDeclaration = localsDeclarations.declarations[localsDeclarationIndex];\n", "", 1),
        "        localsCount += localsDeclaration.count;\n    }", "        localsCount += localsDeclaration.count;\n        localsDeclarationIndex += 1;\n    }", 1),
        "localsDeclaration.", "localsDeclarations.declarations[localsDeclarationIndex]."), "localsDeclarationIndex", "k")},
    "instruction readers: br_table loop as while; table.h untouched": {"instruction.c": lambda t: sub(sub(t,
        "        for (; labelIndex < labelIndexCount; labelIndex++) {", "        while (labelIndex < labelIndexCount) {", 1),
        "            MUST(leb128ReadU32(buffer, &labelIndices[labelIndex]) > 0)\n        }", "            MUST(leb128ReadU32(buffer, &labelIndices[labelIndex]) > 0)\n            ++labelIndex;\n        }", 1)},
}

CHANGING = {
    "leb: continuation mask 0x40": {"leb128.h": lambda t: sub(t, "(byte & 0x80) == 0", "(byte & 0x40) == 0")},
    "leb: loop leaves when the bit is SET": {"leb128.h": lambda t: sub(t, "(byte & 0x80) == 0", "(byte & 0x80) != 0")},
    "limits: kind 3 not shared": {"reader.c": lambda t: sub(t, "            *hasMax = true;\n            *shared = true;", "            *hasMax = true;\n            *shared = false;", 1)},
    "memory rule: and instead of or": {"reader.c": lambda t: sub(t, "if (!hasMax || *max > UINT32_MAX / WASM_PAGE_SIZE) {", "if (!hasMax && *max > UINT32_MAX / WASM_PAGE_SIZE) {", 1)},
    "locals: compare with <=": {"locals.h": lambda t: sub(t, "if (localIndex < localsCount + localsDeclaration.count) {", "if (localIndex <= localsCount + localsDeclaration.count) {", 1)},
    "name section by prefix": {"reader.c": lambda t: sub(t, "strcmp(name, wasmNameSectionName) == 0", "strncmp(name, wasmNameSectionName, strlen(wasmNameSectionName)) == 0", 1)},
}


def outputs(repo):
    try:
        return gen_reader.generate(repo), gen_instr.generate(repo)
    except Exception as e:
        return "EXTRACT-FAIL " + str(e)[:300], ""


def variant(repo, edits, d):
    dst = os.path.join(d, "v")
    if os.path.exists(dst):
        shutil.rmtree(dst)
    os.makedirs(os.path.join(dst, "w2c2"))
    for f in os.listdir(os.path.join(repo, "w2c2")):
        if f.endswith((".c", ".h")):
            shutil.copy2(os.path.join(repo, "w2c2", f), os.path.join(dst, "w2c2", f))
    for f, fn in edits.items():
        p = os.path.join(dst, "w2c2", f)
        text = fn(open(p).read())
        open(p, "w").write(text)
    return dst


def main():
    repo = sys.argv[1] if len(sys.argv) > 1 else "/repo"
    ref = outputs(repo)
    if ref[0].startswith("EXTRACT-FAIL"):
        print("reference extraction fails:", ref[0])
        return 1
    bad = 0
    with tempfile.TemporaryDirectory() as d:
        for name, edits in HARMLESS.items():
            out = outputs(variant(repo, edits, d))
            ok = out == ref
            bad += not ok
            print(("ok   " if ok else "FAIL ") + "harmless: " + name + ("" if ok else " -> " + (out[0][:200] if out[0].startswith("EXTRACT") else "facts differ")))
        for name, edits in CHANGING.items():
            out = outputs(variant(repo, edits, d))
            ok = out != ref
            bad += not ok
            print(("ok   " if ok else "FAIL ") + "changing: " + name + (" (" + ("EXTRACT-FAIL" if out[0].startswith("EXTRACT") else "fact changed") + ")" if ok else " -> not noticed"))
    return 1 if bad else 0


if __name__ == "__main__":
    sys.exit(main())
