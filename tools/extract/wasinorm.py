"""wasinorm — a small semantic front end for the C functions of wasi/wasi.c that tools/extract/gen_wasipath.py
turns into Lean facts.

Pipeline:  source file --gcc -E -fdirectives-only--> configuration-selected text with macros unexpanded
           --> function definitions --> AST --> NORMAL FORM --> matched against patterns written as C snippets
           with metavariables (`$x`).

The normal form identifies programs that differ only by behaviour-preserving rewrites of these classes
(each rule is applied to source AND patterns, so a pattern may be written in any of the equivalent forms):
  * local variable names (patterns name locals by metavariables);
  * static helper functions: a call `MUST(f(a…))` / `if (!f(a…)) return false;` of a file-local function whose
    only `return true` is its last statement, a call `x = f(a…)` / `return f(a…)` of a function that is a single
    `return e;`, and a statement call of a straight-line void function are inlined (parameter substitution
    for side-effect free arguments, locals renamed apart);
  * `x = c ? a : b;`  ≡  `if (c) x = a; else x = b;`  (canonical: conditional expression);
  * `for (i; c; s) B`  ≡  `i; while (c) { B s; }` (no `continue` in B);
  * `i++;` ≡ `++i;` ≡ `i += 1;` ≡ `i = i + 1;` as statements (same for `--`); `x = x OP e;` ≡ `x OP= e;`;
  * `switch` without fall-through ≡ if / else-if chain on `==`;
  * `if (c) A else B` ≡ `if (!c) B else A`; `!(a < b)` ≡ `a >= b` …; `!x` ≡ `x == 0` ≡ `x == NULL`; `x != 0` ≡ `x`
    in condition position; `a > b` ≡ `b < a`, `a >= b` ≡ `b <= a`;
  * integer and character literals by value (suffixes, radix); object-like `#define`s of the project's own
    files with constant bodies, `static const` file-level constants and single-assignment constant locals are
    replaced by their values (copy propagation), constant sub-expressions are folded, `strlen("lit")` folded;
  * casts that cannot change the value: a cast to the type the operand would be converted to anyway
    (assignment to / initialisation of a variable of that type, arithmetic/comparison against an operand of
    that unsigned type of at least the operand's rank), and casts of a literal that fits;
  * redundant braces / nested plain blocks / parentheses; `WASI_TRACE((…))` statements vanish; `UNUSED(x)` ≡ `x`.
Anything the parser does not understand raises ExtractFail: the extractor fails CLOSED.
"""
import os
import re
import subprocess

from cfront import ExtractFail

# ----------------------------------------------------------------------------------------------- preprocessing

DEFS = ["-DHAS_UNISTD=1", "-DHAS_SYSUIO=1", "-DHAS_SYSTIME=1", "-DHAS_SYSRESOURCE=1", "-DHAS_STRNDUP=1",
        "-DHAS_FCNTL=1", "-DHAS_LSTAT=1", "-DHAS_GETENTROPY=1", "-DHAS_TIMESPEC=1", "-DWASM_THREADS_PTHREADS"]


def preprocess(repo, relpath, extra_defs=(), own=("wasi.c", "wasi.h", "w2c2_base.h")):
    """Configuration-selected text of `relpath` (conditionals of THIS platform resolved, macros not expanded) and
    the object-like macros the project's own files define in that configuration."""
    path = os.path.join(repo, relpath)
    cmd = ["gcc", "-E", "-fdirectives-only", "-w"] + DEFS + list(extra_defs) + \
          ["-I", os.path.dirname(path), "-I", os.path.join(repo, "w2c2"), path]
    p = subprocess.run(cmd, stdout=subprocess.PIPE, stderr=subprocess.PIPE, text=True, errors="replace")
    if p.returncode != 0:
        raise ExtractFail(path, "gcc -E -fdirectives-only failed: " + p.stderr[-300:])
    base = os.path.basename(path)
    cur = None
    text = []
    macros = {}
    for line in p.stdout.split("\n"):
        m = re.match(r'# (\d+) "([^"]*)"', line)
        if m:
            cur = os.path.basename(m.group(2))
            continue
        if line.startswith("#"):
            if cur in own:
                md = re.match(r"#\s*define\s+(\w+)(\(?)\s*(.*)$", line)
                if md and md.group(2) == "" and md.group(3).strip():
                    macros.setdefault(md.group(1), md.group(3).strip())
            continue
        if cur == base:
            text.append(line)
    src = "\n".join(text)
    src = re.sub(r"/\*.*?\*/", " ", src, flags=re.S)
    src = re.sub(r"//[^\n]*", " ", src)
    return src, macros


# ----------------------------------------------------------------------------------------------- lexer

TOK = re.compile(r"""
    (?P<ws>\s+)
  | (?P<num>0[xX][0-9a-fA-F]+[uUlL]*|\d+\.\d*(?:[eE][+-]?\d+)?[fFlL]?|\d+[eE][+-]?\d+|\d+[uUlL]*)
  | (?P<id>\$?[A-Za-z_][A-Za-z0-9_]*)
  | (?P<str>"(?:[^"\\\n]|\\.)*")
  | (?P<chr>'(?:[^'\\\n]|\\.)*')
  | (?P<op><<=|>>=|\.\.\.|->|\+\+|--|<<|>>|<=|>=|==|!=|&&|\|\||\+=|-=|\*=|/=|%=|&=|\|=|\^=|[-+*/%<>=!~&|^?:;,.(){}\[\]])
""", re.X)


def lex(text, where="<text>"):
    out = []
    pos = 0
    while pos < len(text):
        m = TOK.match(text, pos)
        if not m:
            raise ExtractFail(where, f"cannot lex at {text[pos:pos + 30]!r}")
        pos = m.end()
        k = m.lastgroup
        if k != "ws":
            out.append((k, m.group()))
    return out


ESC = {"0": 0, "n": 10, "t": 9, "r": 13, "\\": 92, "'": 39, '"': 34, "a": 7, "b": 8, "f": 12, "v": 11}


def char_value(lit):
    b = lit[1:-1]
    if b.startswith("\\"):
        if b[1] in ESC and len(b) == 2:
            return ESC[b[1]]
        if b[1] == "x":
            return int(b[2:], 16)
        if b[1:].isdigit():
            return int(b[1:], 8)
        raise ExtractFail("<char>", f"unknown escape {lit}")
    if len(b) != 1:
        raise ExtractFail("<char>", f"bad char literal {lit}")
    return ord(b)


def num_value(s):
    t = s.rstrip("uUlL")
    if re.fullmatch(r"0[xX][0-9a-fA-F]+", t):
        return int(t, 16)
    if re.fullmatch(r"0[0-7]+", t):
        return int(t, 8)
    if re.fullmatch(r"\d+", t):
        return int(t)
    return None


def str_bytes_len(lit):
    body = lit[1:-1]
    n = 0
    i = 0
    while i < len(body):
        if body[i] == "\\":
            if body[i + 1] == "x":
                j = i + 2
                while j < len(body) and body[j] in "0123456789abcdefABCDEF":
                    j += 1
                i = j
            elif body[i + 1].isdigit():
                j = i + 1
                while j < len(body) and j < i + 4 and body[j].isdigit():
                    j += 1
                i = j
            else:
                i += 2
        else:
            i += 1
        n += 1
    return n


# ----------------------------------------------------------------------------------------------- parser

TYPE_WORDS = {"void", "char", "short", "int", "long", "float", "double", "signed", "unsigned", "bool", "const", "static",
              "volatile", "struct", "union", "enum", "register", "extern", "size_t", "ssize_t", "U8", "U16", "U32", "U64",
              "I8", "I16", "I32", "I64", "F32", "F64", "mode_t", "off_t", "time_t", "clockid_t", "pid_t", "DIR", "FILE",
              "wasmMemory", "wasmModuleInstance", "wasmFuncExport", "wasmFunc", "WasiFileDescriptor", "WasiFileDescriptors",
              "WasiFileType", "WASI", "ThreadStartArg", "wasiThreadStartFunc", "W2C2_INLINE", "WARN_UNUSED_RESULT",
              "WASM_THREAD_TYPE", "pthread_t", "Str255", "uintptr_t", "intptr_t"}
RANK = {"bool": 0, "char": 1, "U8": 1, "I8": 1, "short": 2, "U16": 2, "I16": 2, "int": 3, "U32": 3, "I32": 3, "unsigned": 3,
        "long": 4, "ssize_t": 4, "size_t": 4, "off_t": 4, "time_t": 4, "U64": 5, "I64": 5}
UNSIGNED = {"U8", "U16", "U32", "U64", "size_t", "unsigned", "bool"}
RANGE = {"U8": (0, 2 ** 8 - 1), "U16": (0, 2 ** 16 - 1), "U32": (0, 2 ** 32 - 1), "U64": (0, 2 ** 64 - 1), "size_t": (0, 2 ** 64 - 1),
         "unsigned": (0, 2 ** 32 - 1), "int": (-2 ** 31, 2 ** 31 - 1), "I32": (-2 ** 31, 2 ** 31 - 1), "long": (-2 ** 63, 2 ** 63 - 1),
         "ssize_t": (-2 ** 63, 2 ** 63 - 1), "I64": (-2 ** 63, 2 ** 63 - 1), "char": (-128, 127), "I8": (-128, 127), "I16": (-2 ** 15, 2 ** 15 - 1)}

BINPREC = [("||",), ("&&",), ("|",), ("^",), ("&",), ("==", "!="), ("<", ">", "<=", ">="), ("<<", ">>"), ("+", "-"), ("*", "/", "%")]
ASSIGN_OPS = {"=", "+=", "-=", "*=", "/=", "%=", "&=", "|=", "^=", "<<=", ">>="}


class Parser:
    def __init__(self, toks, where, typenames=()):
        self.t = toks
        self.i = 0
        self.where = where
        self.types = set(TYPE_WORDS) | set(typenames)

    # -- helpers
    def peek(self, k=0):
        return self.t[self.i + k] if self.i + k < len(self.t) else ("eof", "")

    def at(self, text, k=0):
        return self.peek(k)[1] == text and self.peek(k)[0] in ("op", "id")

    def eat(self, text=None):
        tok = self.peek()
        if text is not None and tok[1] != text:
            raise ExtractFail(self.where, f"expected `{text}` but found `{tok[1]}` near `{' '.join(x[1] for x in self.t[max(0, self.i - 6):self.i + 4])}`")
        self.i += 1
        return tok

    def is_type_start(self, k=0):
        kind, text = self.peek(k)
        return kind == "id" and (text in self.types or text.endswith("_t"))

    # -- types
    def parse_type(self):
        """type-specifier words followed by `*`s; returns a canonical type string"""
        words = []
        while self.is_type_start():
            w = self.eat()[1]
            words.append(w)
            if w in ("struct", "union", "enum"):
                words.append(self.eat()[1])
        if not words:
            raise ExtractFail(self.where, f"type expected at `{self.peek()[1]}`")
        while self.at("*") or self.at("const"):
            words.append(self.eat()[1])
        return " ".join(w for w in words if w not in ("W2C2_INLINE", "WARN_UNUSED_RESULT", "register"))

    def looks_like_cast(self):
        """`(` type `)` followed by the start of a unary expression"""
        if not self.at("("):
            return False
        j = 1
        if not self.is_type_start(j):
            return False
        while self.is_type_start(j):
            if self.peek(j)[1] in ("struct", "union", "enum"):
                j += 1
            j += 1
        while self.peek(j)[1] in ("*", "const"):
            j += 1
        if self.peek(j)[1] != ")":
            return False
        nxt = self.peek(j + 1)
        return nxt[0] in ("id", "num", "str", "chr") or nxt[1] in ("(", "-", "+", "!", "~", "*", "&", "++", "--")

    # -- expressions
    def expr(self):
        e = self.assign()
        if self.at(","):
            items = [e]
            while self.at(","):
                self.eat()
                items.append(self.assign())
            return ("comma", tuple(items))
        return e

    def assign(self):
        lhs = self.cond()
        if self.peek()[0] == "op" and self.peek()[1] in ASSIGN_OPS:
            op = self.eat()[1]
            rhs = self.assign()
            return ("asg", op, lhs, rhs)
        return lhs

    def cond(self):
        c = self.binary(0)
        if self.at("?"):
            self.eat()
            a = self.expr()
            self.eat(":")
            b = self.cond()
            return ("cond", c, a, b)
        return c

    def binary(self, lvl):
        if lvl == len(BINPREC):
            return self.unary()
        e = self.binary(lvl + 1)
        while self.peek()[0] == "op" and self.peek()[1] in BINPREC[lvl]:
            op = self.eat()[1]
            r = self.binary(lvl + 1)
            e = ("bin", op, e, r)
        return e

    def unary(self):
        kind, text = self.peek()
        if kind == "op" and text in ("!", "~", "-", "+", "*", "&"):
            self.eat()
            return ("un", text, self.unary())
        if kind == "op" and text in ("++", "--"):
            self.eat()
            return ("pre", text, self.unary())
        if kind == "id" and text == "sizeof":
            self.eat()
            if self.at("(") and self.is_type_start(1):
                self.eat("(")
                t = self.parse_type()
                self.eat(")")
                return ("sizeof", t)
            return ("sizeofe", self.unary())
        if self.looks_like_cast():
            self.eat("(")
            t = self.parse_type()
            self.eat(")")
            return ("cast", t, self.unary())
        return self.postfix()

    def postfix(self):
        kind, text = self.peek()
        if kind == "num":
            self.eat()
            v = num_value(text)
            e = ("num", v) if v is not None else ("fnum", text)
        elif kind == "chr":
            self.eat()
            e = ("num", char_value(text))
        elif kind == "str":
            self.eat()
            s = text
            while self.peek()[0] == "str":               # adjacent literals
                s = s[:-1] + self.eat()[1][1:]
            e = ("str", s)
        elif kind == "id":
            self.eat()
            e = ("meta", text[1:]) if text.startswith("$") else ("id", text)
        elif text == "(":
            self.eat()
            e = self.expr()
            self.eat(")")
        else:
            raise ExtractFail(self.where, f"expression expected at `{text}` near `{' '.join(x[1] for x in self.t[max(0, self.i - 6):self.i + 4])}`")
        while True:
            if self.at("("):
                self.eat()
                args = []
                if not self.at(")"):
                    args.append(self.assign())
                    while self.at(","):
                        self.eat()
                        args.append(self.assign())
                self.eat(")")
                e = ("call", e, tuple(args))
            elif self.at("["):
                self.eat()
                i = self.expr()
                self.eat("]")
                e = ("idx", e, i)
            elif self.at(".") or self.at("->"):
                op = self.eat()[1]
                f = self.eat()[1]
                e = ("mem", op, e, f)
            elif self.at("++") or self.at("--"):
                e = ("post", self.eat()[1], e)
            else:
                return e

    # -- statements
    def block(self):
        self.eat("{")
        out = []
        while not self.at("}"):
            out += self.statement()
        self.eat("}")
        return out

    def is_decl(self):
        if not self.is_type_start():
            return False
        j = 0
        while self.is_type_start(j):
            if self.peek(j)[1] in ("struct", "union", "enum"):
                j += 1
            j += 1
        while self.peek(j)[1] in ("*", "const"):
            j += 1
        return self.peek(j)[0] == "id" and self.peek(j + 1)[1] in ("=", ";", ",", "[")

    def statement(self):
        """returns a LIST of statements (declarations of several names split)"""
        kind, text = self.peek()
        if text == "{":
            return [("block", tuple(self.block()))]
        if text == ";":
            self.eat()
            return []
        if kind == "id" and text == "$ANY":
            self.eat()
            self.eat(";")
            return [("any",)]
        if kind == "id" and text == "MUST":
            self.eat()
            self.eat("(")
            e = self.expr()
            self.eat(")")
            return [("if", ("un", "!", e), (("return", ("id", "false")),), None)]
        if kind == "id" and text == "WASI_TRACE":
            self.eat()
            depth = 0
            while True:
                t = self.eat()[1]
                if t == "(":
                    depth += 1
                elif t == ")":
                    depth -= 1
                    if depth == 0:
                        break
            if self.at(";"):
                self.eat()
            return []
        if kind == "id" and text == "if":
            self.eat()
            self.eat("(")
            c = self.expr()
            self.eat(")")
            th = tuple(self.statement())
            el = None
            if self.at("else"):
                self.eat()
                el = tuple(self.statement())
            return [("if", c, th, el)]
        if kind == "id" and text == "while":
            self.eat()
            self.eat("(")
            c = self.expr()
            self.eat(")")
            return [("while", c, tuple(self.statement()))]
        if kind == "id" and text == "do":
            self.eat()
            body = tuple(self.statement())
            self.eat("while")
            self.eat("(")
            c = self.expr()
            self.eat(")")
            self.eat(";")
            return [("do", body, c)]
        if kind == "id" and text == "for":
            self.eat()
            self.eat("(")
            init = []
            if not self.at(";"):
                init = self.statement() if self.is_decl() else [("expr", self.expr())]
                if init and init[0][0] == "expr":
                    self.eat(";")
            else:
                self.eat(";")
            c = None if self.at(";") else self.expr()
            self.eat(";")
            inc = None if self.at(")") else self.expr()
            self.eat(")")
            return [("for", tuple(init), c, inc, tuple(self.statement()))]
        if kind == "id" and text == "switch":
            self.eat()
            self.eat("(")
            e = self.expr()
            self.eat(")")
            self.eat("{")
            cases = []
            while not self.at("}"):
                labels = []
                while self.at("case") or self.at("default"):
                    if self.eat()[1] == "case":
                        labels.append(self.cond())
                    else:
                        labels.append("default")
                    self.eat(":")
                if not labels:
                    raise ExtractFail(self.where, "statement before the first case label of a switch")
                body = []
                while not (self.at("case") or self.at("default") or self.at("}")):
                    body += self.statement()
                cases.append((tuple(labels), tuple(body)))
            self.eat("}")
            return [("switch", e, tuple(cases))]
        if kind == "id" and text == "return":
            self.eat()
            e = None if self.at(";") else self.expr()
            self.eat(";")
            return [("return", e)]
        if kind == "id" and text in ("break", "continue"):
            self.eat()
            self.eat(";")
            return [(text,)]
        if kind == "id" and text == "goto":
            raise ExtractFail(self.where, "goto")
        if self.is_decl():
            t = self.parse_type()
            out = []
            while True:
                stars = ""
                while self.at("*"):
                    stars += self.eat()[1]
                name = self.eat()[1]
                dims = []
                while self.at("["):
                    self.eat()
                    dims.append(None if self.at("]") else self.expr())
                    self.eat("]")
                init = None
                if self.at("="):
                    self.eat()
                    if self.at("{"):
                        raise ExtractFail(self.where, f"aggregate initialiser of {name}")
                    init = self.assign()
                out.append(("decl", (t + " " + stars).strip(), name, tuple(dims), init))
                if self.at(","):
                    self.eat()
                    continue
                self.eat(";")
                return out
        e = self.expr()
        self.eat(";")
        return [("expr", e)]


# ----------------------------------------------------------------------------------------------- functions of a file

class Func:
    def __init__(self, name, rettype, params, body, static):
        self.name, self.rettype, self.params, self.body, self.static = name, rettype, params, body, static


def split_functions(src, where):
    """All function definitions of the (preprocessed) file: name -> Func.  WASI_IMPORT(ret, name, (params), {body})
    and its UNSTABLE/PREVIEW1 forms define wasi_unstable__name / wasi_snapshot_preview1__name."""
    toks = lex(src, where)
    funcs = {}
    consts = {}
    i = 0
    n = len(toks)

    def match_close(j, open_, close):
        d = 0
        while j < n:
            if toks[j][1] == open_:
                d += 1
            elif toks[j][1] == close:
                d -= 1
                if d == 0:
                    return j
            j += 1
        raise ExtractFail(where, f"unbalanced {open_}")

    def parse_params(ptoks):
        params = []
        cur = []
        depth = 0
        for tk in ptoks + [("op", ",")]:
            if tk[1] in ("(", "["):
                depth += 1
            if tk[1] in (")", "]"):
                depth -= 1
            if tk[1] == "," and depth == 0:
                if cur and not (len(cur) == 1 and cur[0][1] == "void"):
                    # UNUSED(x) -> x ; name = last identifier before an optional [..]
                    flat = [t for t in cur]
                    txt = [t[1] for t in flat]
                    if "UNUSED" in txt:
                        k = txt.index("UNUSED")
                        flat = flat[:k] + [flat[k + 2]] + flat[k + 4:]
                        txt = [t[1] for t in flat]
                    if "[" in txt:
                        k = txt.index("[")
                        name = txt[k - 1]
                        ty = " ".join(txt[:k - 1]) + " *"
                    else:
                        name = txt[-1]
                        ty = " ".join(txt[:-1])
                    params.append((name, ty))
                cur = []
            else:
                cur.append(tk)
        return params

    while i < n:
        kind, text = toks[i]
        if kind == "id" and text in ("WASI_IMPORT", "WASI_UNSTABLE_IMPORT", "WASI_PREVIEW1_IMPORT") and toks[i + 1][1] == "(":
            end = match_close(i + 1, "(", ")")
            inner = toks[i + 2:end]
            # ret , name , ( params ) , { body }
            k = 0
            ret = []
            while inner[k][1] != ",":
                ret.append(inner[k][1])
                k += 1
            name = inner[k + 1][1]
            assert inner[k + 2][1] == ","
            p0 = k + 3
            d = 0
            j = p0
            while True:
                if inner[j][1] == "(":
                    d += 1
                elif inner[j][1] == ")":
                    d -= 1
                    if d == 0:
                        break
                j += 1
            params = parse_params(inner[p0 + 1:j])
            b0 = j + 2
            body = inner[b0:]
            spaces = {"WASI_IMPORT": ["wasi_unstable__", "wasi_snapshot_preview1__"], "WASI_UNSTABLE_IMPORT": ["wasi_unstable__"],
                      "WASI_PREVIEW1_IMPORT": ["wasi_snapshot_preview1__"]}[text]
            for sp in spaces:
                funcs[sp + name] = Func(sp + name, " ".join(ret), params, body, False)
            i = end + 1
            continue
        # NAME ( ... ) {   at top level
        if kind == "id" and toks[i + 1][1] == "(" if i + 1 < n else False:
            end = match_close(i + 1, "(", ")")
            if end + 1 < n and toks[end + 1][1] == "{":
                bend = match_close(end + 1, "{", "}")
                # return type / storage: tokens back to the previous `;` or `}` at top level
                j = i - 1
                pre = []
                while j >= 0 and toks[j][1] not in (";", "}", ")"):
                    pre.append(toks[j][1])
                    j -= 1
                pre.reverse()
                funcs[text] = Func(text, " ".join(p for p in pre if p not in ("static", "W2C2_INLINE", "WARN_UNUSED_RESULT")),
                                   parse_params(toks[i + 2:end]), toks[end + 1:bend + 1], "static" in pre)
                i = bend + 1
                continue
            i = end + 1
            continue
        # static const T name = literal ;
        if kind == "id" and text == "static" and i + 5 < n and toks[i + 1][1] == "const":
            j = i + 2
            while j < n and toks[j][1] not in ("=", ";", "(", "{"):
                j += 1
            if j < n and toks[j][1] == "=" and toks[j + 2][1] == ";" and toks[j + 1][0] == "num":
                v = num_value(toks[j + 1][1])
                if v is not None:
                    consts[toks[j - 1][1]] = v
                i = j + 3
                continue
        if text == "{":
            i = match_close(i, "{", "}") + 1
            continue
        i += 1
    return funcs, consts


# ----------------------------------------------------------------------------------------------- normal form

CMP_NEG = {"<": ">=", ">": "<=", "<=": ">", ">=": "<", "==": "!=", "!=": "=="}
CMP_SWAP = {">": "<", ">=": "<="}
PURE_CALLS = {"strlen", "sizeof"}


def walk(e, f):
    """bottom-up map over an expression tree"""
    if not isinstance(e, tuple):
        return e
    k = e[0]
    if k in ("id", "num", "fnum", "str", "meta", "sizeof"):
        return f(e)
    if k == "call":
        return f(("call", walk(e[1], f), tuple(walk(a, f) for a in e[2])))
    if k == "comma":
        return f(("comma", tuple(walk(a, f) for a in e[1])))
    return f(tuple([k] + [walk(x, f) if isinstance(x, tuple) else x for x in e[1:]]))


def ids_of(e, acc=None):
    acc = set() if acc is None else acc
    if isinstance(e, tuple):
        if e and e[0] == "id":
            acc.add(e[1])
        for x in e[1:]:
            if isinstance(x, tuple):
                ids_of(x, acc)
    return acc


def has_effect(e):
    if not isinstance(e, tuple):
        return False
    if e[0] in ("asg", "post", "pre"):
        return True
    if e[0] == "call":
        fn = e[1]
        if not (fn[0] == "id" and fn[1] in PURE_CALLS):
            return True
    return any(has_effect(x) for x in e[1:] if isinstance(x, tuple))


class Normalizer:
    def __init__(self, macros=None, consts=None, funcs=None, where="<c>"):
        self.where = where
        self.funcs = funcs or {}
        self.values = dict(consts or {})
        # object-like macros of the project's files whose body is a constant expression
        for name, body in (macros or {}).items():
            b = body.strip()
            m = re.fullmatch(r"W2C2_LL\((.*)\)", b)
            if m:
                b = m.group(1)
            b = b.strip("() ")
            v = num_value(b)
            if v is not None and not b.startswith("0.") and name not in ("PATH_MAX",):
                self.values[name] = v
        self.fresh = 0

    # ---- expressions
    def fold(self, e):
        k = e[0]
        if k == "id":
            if e[1] in self.values:
                return ("num", self.values[e[1]])
            if e[1] == "NULL":
                return ("num", 0)
            if e[1] == "true":
                return ("id", "true")
            return e
        if k == "call" and e[1] == ("id", "UNUSED") and len(e[2]) == 1:
            return e[2][0]
        if k == "call" and e[1] == ("id", "W2C2_LL") and len(e[2]) == 1:
            return e[2][0]
        if k == "call" and e[1] == ("id", "strlen") and len(e[2]) == 1 and e[2][0][0] == "str":
            return ("num", str_bytes_len(e[2][0][1]))
        if k == "bin":
            op, a, b = e[1], e[2], e[3]
            if a[0] == "num" and b[0] == "num":
                try:
                    v = {"+": a[1] + b[1], "-": a[1] - b[1], "*": a[1] * b[1], "<<": a[1] << b[1] if b[1] < 128 else None,
                         "|": a[1] | b[1], "&": a[1] & b[1]}.get(op)
                except Exception:
                    v = None
                if v is not None and v >= 0:
                    return ("num", v)
            if op in CMP_SWAP:
                return ("bin", CMP_SWAP[op], b, a)
            if op in ("==", "!=") and a[0] == "num" and b[0] != "num":
                return ("bin", op, b, a)
            return e
        if k == "un" and e[1] == "-" and e[2][0] == "num":
            return ("num", -e[2][1])
        if k == "un" and e[1] == "+" and e[2][0] == "num":
            return e[2]
        if k == "cast":
            t, a = e[1], e[2]
            base = t.replace("const", "").strip()
            if a[0] == "num" and base in RANGE and RANGE[base][0] <= a[1] <= RANGE[base][1]:
                return a
            if a[0] == "cast" and a[1] == t:
                return a
            return e
        if k == "un" and e[1] == "!":
            return self.negate(e[2])
        return e

    def negate(self, e):
        """canonical form of `!e`"""
        if e[0] == "un" and e[1] == "!":
            return self.truth(e[2])
        if e[0] == "bin" and e[1] in CMP_NEG:
            return self.fold(("bin", CMP_NEG[e[1]], e[2], e[3]))
        if e[0] == "bin" and e[1] == "&&":
            return ("bin", "||", self.negate(e[2]), self.negate(e[3]))
        if e[0] == "bin" and e[1] == "||":
            return ("bin", "&&", self.negate(e[2]), self.negate(e[3]))
        if e == ("id", "true"):
            return ("id", "false")
        if e == ("id", "false"):
            return ("id", "true")
        return ("bin", "==", e, ("num", 0))

    def truth(self, e):
        """canonical form of `e` used as a condition"""
        if e[0] == "bin" and e[1] == "!=" and e[3] == ("num", 0):
            return self.truth(e[2])
        if e[0] == "bin" and e[1] in ("&&", "||"):
            return ("bin", e[1], self.truth(e[2]), self.truth(e[3]))
        if e[0] == "un" and e[1] == "!":
            return self.negate(e[2])
        return e

    def expr(self, e):
        return walk(e, self.fold)

    # ---- types of simple expressions (for redundant casts)
    FIELD_TYPES = {"tv_sec": "long", "tv_nsec": "long", "tv_usec": "long", "d_ino": "U64", "st_size": "long", "argc": "int", "envc": "int"}

    def type_of(self, e, env):
        if e[0] == "id":
            return env.get(e[1])
        if e[0] == "mem":
            return self.FIELD_TYPES.get(e[3])
        if e[0] == "cast":
            return e[1]
        if e[0] == "call" and e[1] == ("id", "strlen"):
            return "size_t"
        return None

    def drop_casts(self, e, env, target=None):
        """remove casts that perform exactly the conversion C performs implicitly at this place"""
        def strip(x, to):
            if x[0] == "cast" and to is not None and x[1].replace("const", "").strip() == to and "*" not in to:
                inner_t = self.type_of(x[2], env)
                it = (inner_t or "").replace("const", "").strip()
                if it in RANK and to in RANK and (it == to or (to in UNSIGNED and RANK[to] >= RANK[it])):
                    return x[2]
                if x[2][0] == "num":
                    return x[2]
            return x

        def widening(x):
            """(T)e where T represents every value of e's type"""
            to = x[1].replace("const", "").strip()
            it = (self.type_of(x[2], env) or "").replace("const", "").strip()
            if to not in RANK or it not in RANK or "*" in to:
                return False
            if to in UNSIGNED:
                return it in UNSIGNED and RANK[to] >= RANK[it]
            return RANK[to] >= RANK[it] if it not in UNSIGNED else RANK[to] > RANK[it]

        def f(x):
            if x[0] == "cast" and widening(x):
                return x[2]
            if x[0] == "bin" and x[1] in ("<", "<=", "==", "!=", "+", "-", "*", "/", "%", "&", "|", "^"):
                ta = (self.type_of(x[2], env) or "").replace("const", "").strip()
                tb = (self.type_of(x[3], env) or "").replace("const", "").strip()
                a, b = x[2], x[3]
                if b[0] == "cast":
                    b2 = strip(b, ta if ta in UNSIGNED else None)
                    if b2 is not b:
                        return ("bin", x[1], a, b2)
                if a[0] == "cast":
                    a2 = strip(a, tb if tb in UNSIGNED else None)
                    if a2 is not a:
                        return ("bin", x[1], a2, b)
            if x[0] == "asg" and x[1] == "=":
                tl = (self.type_of(x[2], env) or "").replace("const", "").strip()
                if x[3][0] == "cast" and tl in RANK:
                    r = x[3]
                    it = (self.type_of(r[2], env) or "").replace("const", "").strip()
                    if r[1].replace("const", "").strip() == tl and (it in RANK or r[2][0] == "num"):
                        return ("asg", "=", x[2], r[2])
            if x[0] == "cond":
                return x
            return x
        e = walk(e, f)
        if target is not None and e[0] == "cast" and e[1].replace("const", "").strip() == target and target in RANK:
            it = (self.type_of(e[2], env) or "").replace("const", "").strip()
            if it in RANK or e[2][0] == "num":
                return e[2]
        return e

    # ---- statements
    def stmts(self, body, env):
        out = []
        for s in body:
            out += self.stmt(s, env)
        return self.merge_ifs(out)

    def unsigned_zero(self, e, env):
        """for an unsigned x:  x <= 0 ≡ x == 0,  0 < x ≡ x != 0"""
        def f(x):
            if x[0] == "bin" and x[1] == "<=" and x[3] == ("num", 0) and (self.type_of(x[2], env) or "").replace("const", "").strip() in UNSIGNED:
                return ("bin", "==", x[2], ("num", 0))
            if x[0] == "bin" and x[1] == "<" and x[2] == ("num", 0) and (self.type_of(x[3], env) or "").replace("const", "").strip() in UNSIGNED:
                return ("bin", "!=", x[3], ("num", 0))
            return x
        return walk(e, f)

    def cond_expr(self, e, env):
        return self.truth(self.unsigned_zero(self.drop_casts(self.expr(e), env), env))

    def stmt(self, s, env):
        k = s[0]
        if k == "any":
            return [s]
        if k == "block":
            return self.stmts(s[1], env)                      # plain nested block: flattened
        if k == "decl":
            _, t, name, dims, init = s
            env[name] = t
            base = t.replace("const", "").replace("static", "").strip()
            init2 = None if init is None else self.drop_casts(self.expr(init), env, target=base)
            dims2 = tuple(None if d is None else self.expr(d) for d in dims)
            if "static" in t.split() and "const" not in t.split():
                # a static local is initialised ONCE, not on every call: the declaration is kept whole (with its
                # initialiser and storage class) and never becomes an assignment
                return [("decl", "static " + base, name, dims2, init2)]
            out = [("decl", base, name, dims2, None)] if (dims or init2 is None) else [("decl", base, name, dims2, None), ("expr", ("asg", "=", ("id", name), init2))]
            if init2 is not None and init2[0] == "cond":
                out = [out[0]] + self.assign_stmt(("asg", "=", ("id", name), init2), env)
            return out
        if k == "expr":
            if s[1][0] == "meta":
                return [s[1]]                                  # `$S;` in a pattern: any ONE statement
            e = self.drop_casts(self.expr(s[1]), env)
            if e[0] in ("post", "pre"):
                return [("expr", ("asg", "+=" if e[1] == "++" else "-=", e[2], ("num", 1)))]
            if e[0] == "asg":
                return self.assign_stmt(e, env)
            if e[0] == "comma":
                out = []
                for x in e[1]:
                    out += self.stmt(("expr", x), env)
                return out
            if e[0] == "call":
                inl = self.inline_void(e, env)
                if inl is not None:
                    return inl
            if not has_effect(e):
                return []
            return [("expr", e)]
        if k == "if":
            c = self.cond_expr(s[1], env)
            th = self.stmts(s[2], env)
            el = self.stmts(s[3], env) if s[3] is not None else []
            inl = self.inline_must(c, th, el, env)
            if inl is not None:
                return inl
            # if (!x) A else B  ->  if (x) B else A   (only when both branches exist)
            if el and c[0] == "bin" and c[1] == "==" and c[3] == ("num", 0) and not (c[2][0] == "bin" and c[2][1] not in ("&", "|", "^")):
                c, th, el = self.truth(c[2]), el, th
            # both branches assign the same lvalue once  ->  conditional expression
            if len(th) == 1 and len(el) == 1 and th[0][0] == "expr" and el[0][0] == "expr":
                a, b = th[0][1], el[0][1]
                if a[0] == "asg" and b[0] == "asg" and a[1] == "=" and b[1] == "=" and a[2] == b[2] and not has_effect(a[3]) and not has_effect(b[3]):
                    return [("expr", ("asg", "=", a[2], ("cond", c, a[3], b[3])))]
            if not th and not el:
                return [("expr", c)] if has_effect(c) else []
            return [("if", c, tuple(th), tuple(el) if el else None)]
        if k == "while":
            return [("while", self.cond_expr(s[1], env), tuple(self.stmts(s[2], env)))]
        if k == "do":
            return [("do", tuple(self.stmts(s[1], env)), self.cond_expr(s[2], env))]
        if k == "for":
            _, init, c, inc, body = s
            out = self.stmts(init, env)
            b = self.stmts(body, env)
            if any(self.contains(x, "continue") for x in b):
                raise ExtractFail(self.where, "`continue` inside a for loop")
            incs = self.stmt(("expr", inc), env) if inc is not None else []
            cc = self.cond_expr(c, env) if c is not None else ("num", 1)
            return out + [("while", cc, tuple(b + incs))]
        if k == "switch":
            return self.switch(s, env)
        if k == "return":
            e = None if s[1] is None else self.drop_casts(self.expr(s[1]), env)
            if e is not None and e[0] == "call":
                sub = self.inline_expr(e)
                if sub is not None:
                    e = sub
            return [("return", e)]
        if k in ("break", "continue"):
            return [s]
        raise ExtractFail(self.where, f"statement kind {k}")

    def assign_stmt(self, e, env):
        op, lhs, rhs = e[1], e[2], e[3]
        # x = x OP e  ≡  x OP= e   (also x = e + x for the commutative operators)
        if op == "=" and rhs[0] == "bin" and rhs[1] in ("+", "-", "*", "|", "&", "^") and rhs[2] == lhs and not has_effect(lhs):
            return [("expr", ("asg", rhs[1] + "=", lhs, rhs[3]))]
        if op == "=" and rhs[0] == "bin" and rhs[1] in ("+", "*", "|", "&", "^") and rhs[3] == lhs and not has_effect(lhs):
            return [("expr", ("asg", rhs[1] + "=", lhs, rhs[2]))]
        if op == "=" and rhs[0] == "call":
            sub = self.inline_expr(rhs)
            if sub is not None:
                rhs = sub
        if op == "=" and rhs[0] == "cond":
            rhs = ("cond", self.truth(rhs[1]), rhs[2], rhs[3])
            c = rhs[1]
            if c[0] == "bin" and c[1] == "==" and c[3] == ("num", 0) and not (c[2][0] == "bin" and c[2][1] not in ("&", "|", "^")):
                rhs = ("cond", self.truth(c[2]), rhs[3], rhs[2])
        return [("expr", ("asg", op, lhs, rhs))]

    def contains(self, s, kind):
        if not isinstance(s, tuple):
            return False
        if s and s[0] == kind:
            return True
        if s and s[0] in ("while", "do", "switch") and kind in ("break", "continue"):
            return False
        return any(self.contains(x, kind) for x in s[1:] if isinstance(x, tuple))

    def merge_ifs(self, out):
        return out

    def switch(self, s, env):
        _, e, cases = s
        e = self.expr(e)
        if has_effect(e):
            raise ExtractFail(self.where, "switch on an expression with side effects")
        chain = []
        default = None
        for labels, body in cases:
            b = self.stmts(body, env)
            if b and b[-1] == ("break",):
                b = b[:-1]
            elif not (b and b[-1][0] == "return"):
                if body or cases[-1][0] is not labels:
                    # fall-through into the next case (other than an empty label group): not understood
                    if b:
                        raise ExtractFail(self.where, "switch case falls through")
            if any(self.contains(x, "break") for x in b):
                raise ExtractFail(self.where, "`break` inside a switch case body")
            if "default" in labels:
                if len(labels) > 1:
                    raise ExtractFail(self.where, "default shares a body with case labels")
                default = b
                continue
            cond = None
            for lab in labels:
                c = ("bin", "==", e, self.expr(lab))
                cond = c if cond is None else ("bin", "||", cond, c)
            chain.append((cond, b))
        res = tuple(default) if default else None
        for cond, b in reversed(chain):
            res = (("if", cond, tuple(b), res),)
        return list(res) if res else []

    # ---- inlining of file-local helpers
    def subst(self, tree, mapping):
        def f(x):
            if x[0] == "id" and x[1] in mapping:
                return mapping[x[1]]
            return x

        def st(s):
            if not isinstance(s, tuple):
                return s
            if s and s[0] in ("id", "num", "str", "fnum", "meta", "call", "bin", "un", "asg", "cond", "cast", "idx", "mem", "post", "pre", "comma", "sizeof", "sizeofe"):
                return walk(s, f)
            if s and s[0] == "decl":
                nm = mapping[s[2]][1] if s[2] in mapping else s[2]
                return ("decl", s[1], nm, tuple(st(d) for d in s[3]), st(s[4]) if s[4] is not None else None)
            return tuple(st(x) for x in s)
        return st(tree)

    def helper_body(self, call):
        """(function, parsed body with parameters substituted and locals renamed apart) for a call of a file-local
        helper with side-effect free arguments, else None"""
        if call[0] != "call" or call[1][0] != "id":
            return None
        fn = self.funcs.get(call[1][1])
        if fn is None or not fn.static or len(fn.params) != len(call[2]):
            return None
        if any(has_effect(a) for a in call[2]):
            return None
        body = Parser(fn.body, self.where + ":" + fn.name).block()
        self.fresh += 1
        mapping = {p[0]: a for p, a in zip(fn.params, call[2])}
        for s in self.all_decls(body):
            mapping[s] = ("id", f"{fn.name}__{s}")
        assigned = self.assigned_names(body)
        if any(p[0] in assigned for p in fn.params):
            return None
        return fn, self.subst(tuple(body), mapping)

    def all_decls(self, body):
        out = []

        def rec(s):
            if isinstance(s, tuple):
                if s and s[0] == "decl":
                    out.append(s[2])
                for x in s:
                    if isinstance(x, tuple):
                        rec(x)
        rec(tuple(body))
        return out

    def assigned_names(self, body):
        out = set()

        def rec(s):
            if isinstance(s, tuple):
                if s and s[0] == "asg" and s[2][0] == "id":
                    out.add(s[2][1])
                if s and s[0] in ("post", "pre") and s[2][0] == "id":
                    out.add(s[2][1])
                if s and s[0] == "un" and s[1] == "&" and s[2][0] == "id":
                    out.add(s[2][1])
                for x in s:
                    if isinstance(x, tuple):
                        rec(x)
        rec(tuple(body))
        return out

    def inline_must(self, c, th, el, env):
        """`if (!helper(args)) return false;` where helper is a bool function ending in its only `return true`"""
        if el or th != [("return", ("id", "false"))]:
            return None
        if not (c[0] == "bin" and c[1] == "==" and c[3] == ("num", 0) and c[2][0] == "call"):
            return None
        hb = self.helper_body(c[2])
        if hb is None:
            return None
        fn, body = hb
        body = self.stmts(body, env)
        if not body or body[-1] != ("return", ("id", "true")):
            return None
        body = body[:-1]

        def ok(s):
            if not isinstance(s, tuple):
                return True
            if s and s[0] == "return":
                return s[1] == ("id", "false")
            return all(ok(x) for x in s if isinstance(x, tuple))
        if not all(ok(s) for s in body):
            return None
        return body

    def inline_expr(self, call):
        """call of a helper that is a single `return e;`"""
        hb = self.helper_body(call)
        if hb is None:
            return None
        fn, body = hb
        b = self.stmts(body, {})
        if len(b) == 1 and b[0][0] == "return" and b[0][1] is not None and not has_effect(b[0][1]):
            return b[0][1]
        return None

    def inline_void(self, call, env):
        hb = self.helper_body(call)
        if hb is None:
            return None
        fn, body = hb
        if fn.rettype.strip() != "void":
            return None
        b = self.stmts(body, env)
        if any(self.contains(s, "return") for s in b):
            return None
        return b

    # ---- whole functions: copy propagation of constant locals
    def function(self, fn):
        env = {p[0]: p[1] for p in fn.params}
        body = Parser(fn.body, self.where + ":" + fn.name).block()
        out = self.stmts(body, env)
        for _ in range(4):
            out2 = self.propagate(out, env)
            if out2 == out:
                break
            out = out2
        return out

    def propagate(self, body, env):
        """a local that is assigned exactly once, by a constant, right where it is declared (and whose address is not
        taken) is replaced by that constant"""
        counts = {}
        const_val = {}
        addr = set()

        def scan(s, top):
            if not isinstance(s, tuple):
                return
            if s and s[0] == "asg" and s[2][0] == "id":
                counts[s[2][1]] = counts.get(s[2][1], 0) + 1
                if s[1] == "=" and s[3][0] == "num":
                    const_val.setdefault(s[2][1], s[3][1])
            if s and s[0] in ("post", "pre") and s[2][0] == "id":
                counts[s[2][1]] = counts.get(s[2][1], 0) + 2
            if s and s[0] == "un" and s[1] == "&" and s[2][0] == "id":
                addr.add(s[2][1])
            for x in s:
                if isinstance(x, tuple):
                    scan(x, False)
        scan(tuple(body), True)
        decls = set(self.all_decls(body))
        # the single assignment must directly follow the declaration (i.e. it was the initialiser)
        init_names = set()
        flat = []

        def seqs(stmts):
            stmts = list(stmts)
            for a, b in zip(stmts, stmts[1:]):
                if a[0] == "decl" and b[0] == "expr" and b[1][0] == "asg" and b[1][1] == "=" and b[1][2] == ("id", a[2]) and b[1][3][0] == "num":
                    init_names.add(a[2])
            for s in stmts:
                if s[0] == "if":
                    seqs(s[2])
                    if s[3]:
                        seqs(s[3])
                elif s[0] == "while":
                    seqs(s[2])
                elif s[0] == "do":
                    seqs(s[1])
        seqs(body)
        targets = {n: const_val[n] for n in decls if counts.get(n, 0) == 1 and n in const_val and n in init_names and n not in addr}
        if not targets:
            return body

        def rew(s):
            if not isinstance(s, tuple):
                return s
            if s and s[0] == "decl" and s[2] in targets:
                return None
            if s and s[0] == "expr" and s[1][0] == "asg" and s[1][2][0] == "id" and s[1][2][1] in targets:
                return None
            if s and s[0] in ("id",):
                return ("num", targets[s[1]]) if s[1] in targets else s
            out = []
            for x in s:
                if isinstance(x, tuple):
                    r = rew(x)
                    if r is None:
                        continue
                    out.append(r)
                else:
                    out.append(x)
            return tuple(out)
        new = [r for r in (rew(s) for s in body) if r is not None]
        # re-fold
        def refold(s):
            if not isinstance(s, tuple):
                return s
            if s and s[0] in ("bin", "un", "cast", "cond", "asg", "call", "idx", "mem", "post", "pre"):
                return walk(s, self.fold)
            return tuple(refold(x) for x in s)
        return [refold(s) for s in new]


# ----------------------------------------------------------------------------------------------- printing (diagnostics, facts)

def show(e):
    if e is None:
        return ""
    k = e[0]
    if k in ("id",):
        return e[1]
    if k == "meta":
        return "$" + e[1]
    if k == "num":
        return str(e[1])
    if k in ("fnum", "str"):
        return e[1]
    if k == "call":
        return f"{show(e[1])}({', '.join(show(a) for a in e[2])})"
    if k == "idx":
        return f"{show(e[1])}[{show(e[2])}]"
    if k == "mem":
        return f"{show(e[2])}{e[1]}{e[3]}"
    if k == "un":
        return f"{e[1]}({show(e[2])})" if e[2][0] in ("bin", "cond", "asg") else f"{e[1]}{show(e[2])}"
    if k in ("post",):
        return f"{show(e[2])}{e[1]}"
    if k == "pre":
        return f"{e[1]}{show(e[2])}"
    if k == "bin":
        def par(x):
            return f"({show(x)})" if x[0] in ("bin", "cond", "asg") else show(x)
        return f"{par(e[2])} {e[1]} {par(e[3])}"
    if k == "asg":
        return f"{show(e[2])} {e[1]} {show(e[3])}"
    if k == "cond":
        return f"({show(e[1])}) ? {show(e[2])} : {show(e[3])}"
    if k == "cast":
        return f"({e[1]}){show(e[2])}" if e[2][0] in ("id", "num", "call", "idx", "mem") else f"({e[1]})({show(e[2])})"
    if k == "sizeof":
        return f"sizeof({e[1]})"
    if k == "sizeofe":
        return f"sizeof {show(e[1])}"
    if k == "comma":
        return ", ".join(show(a) for a in e[1])
    return str(e)


def show_stmts(body, ind=0):
    out = []
    pad = "  " * ind
    for s in body:
        k = s[0]
        if k == "decl":
            out.append(f"{pad}{s[1]} {s[2]}{''.join('[' + show(d) + ']' for d in s[3])};")
        elif k == "expr":
            out.append(f"{pad}{show(s[1])};")
        elif k == "if":
            out.append(f"{pad}if ({show(s[1])}) {{")
            out += show_stmts(s[2], ind + 1)
            if s[3]:
                out.append(f"{pad}}} else {{")
                out += show_stmts(s[3], ind + 1)
            out.append(f"{pad}}}")
        elif k == "while":
            out.append(f"{pad}while ({show(s[1])}) {{")
            out += show_stmts(s[2], ind + 1)
            out.append(f"{pad}}}")
        elif k == "do":
            out.append(f"{pad}do {{")
            out += show_stmts(s[1], ind + 1)
            out.append(f"{pad}}} while ({show(s[2])});")
        elif k == "return":
            out.append(f"{pad}return {show(s[1])};")
        elif k == "any":
            out.append(f"{pad}$ANY;")
        else:
            out.append(f"{pad}{k};")
    return out


# ----------------------------------------------------------------------------------------------- matching

class Source:
    """the normalised functions of one preprocessed file"""

    def __init__(self, repo, relpath, extra_defs=()):
        self.where = os.path.join(repo, relpath)
        src, self.macros = preprocess(repo, relpath, extra_defs)
        self.raw = src
        self.funcs, self.consts = split_functions(src, self.where)
        self.norm = Normalizer(self.macros, self.consts, self.funcs, self.where)
        self.cache = {}

    def body(self, name):
        if name not in self.funcs:
            raise ExtractFail(self.where, f"function {name} not found")
        if name not in self.cache:
            self.cache[name] = self.norm.function(self.funcs[name])
        return self.cache[name]

    def params(self, name):
        return [p[0] for p in self.funcs[name].params]

    def text(self, name):
        return "\n".join(show_stmts(self.body(name)))

    def pattern(self, ctext, params=()):
        """a pattern: C statements with `$x` metavariables, normalised like the source"""
        p = Parser(lex(ctext, "<pattern>"), "<pattern>")
        stmts = []
        while p.peek()[0] != "eof":
            stmts += p.statement()
        n = Normalizer(self.macros, self.consts, self.funcs, "<pattern>")
        out = n.stmts(stmts, {})
        return [s for s in out if s[0] != "decl"]       # declarations never take part in matching

    def find(self, name, ctext, all_matches=False):
        """match the pattern as a contiguous statement sequence anywhere in the function (nested bodies included);
        returns the environment (metavariable -> subtree), or None"""
        pat = self.pattern(ctext)
        res = []
        for seq in sequences(self.body(name)):
            seq = [s for s in seq if s[0] != "decl"]
            for start in range(len(seq) + 1):
                env = match_seq(pat, seq[start:], {}, prefix=True)
                if env is not None:
                    if not all_matches:
                        return env
                    res.append(env)
        return res if all_matches else None

    def need(self, name, ctext, what):
        env = self.find(name, ctext)
        if env is None:
            raise ExtractFail(self.where, f"{name}: {what} not recognised; normal form of the function:\n" + self.text(name)[:3000])
        return env

    def locals_of(self, name):
        """{local name: (storage class, type, initialiser of a static | None)} of the function's normal form"""
        out = {}

        def rec(stmts):
            for st in stmts:
                if st[0] == "decl":
                    static = st[1].split()[:1] == ["static"]
                    out[st[2]] = ("static" if static else "automatic", st[1][7:] if static else st[1], st[4] if static else None)
                else:
                    for part in st[1:]:
                        if isinstance(part, tuple) and part and isinstance(part[0], tuple):
                            rec(part)
        rec(self.body(name))
        return out

    def uses(self, name, ident):
        return ident in ids_of(tuple(self.body(name)))


def sequences(body):
    """every statement list of a function body: the body itself and all nested bodies"""
    yield list(body)
    for s in body:
        if s[0] == "if":
            yield from sequences(s[2])
            if s[3]:
                yield from sequences(s[3])
        elif s[0] == "while":
            yield from sequences(s[2])
        elif s[0] == "do":
            yield from sequences(s[1])


def match_seq(pat, seq, env, prefix=False):
    """pat against a prefix of seq (or all of seq); `$ANY;` matches any number of statements"""
    if not pat:
        return env if (prefix or not seq) else None
    if pat[0] == ("any",):
        for k in range(len(seq) + 1):
            r = match_seq(pat[1:], seq[k:], dict(env), prefix)
            if r is not None:
                return r
        return None
    if not seq:
        return None
    e2 = match(pat[0], seq[0], dict(env))
    if e2 is None:
        return None
    return match_seq(pat[1:], seq[1:], e2, prefix)


def match(p, t, env):
    if isinstance(p, tuple) and p and p[0] == "meta":
        name = p[1]
        if name in env:
            return env if env[name] == t else None
        env[name] = t
        return env
    if isinstance(p, tuple) and isinstance(t, tuple):
        if p and p[0] in ("if",) and t and t[0] == "if":
            e = match(p[1], t[1], env)
            if e is None:
                return None
            e = match_seq(list(p[2]), list(s for s in t[2] if s[0] != "decl"), e)
            if e is None:
                return None
            if (p[3] is None) != (t[3] is None):
                return None
            if p[3] is not None:
                e = match_seq(list(p[3]), list(s for s in t[3] if s[0] != "decl"), e)
            return e
        if p and p[0] == "while" and t and t[0] == "while":
            e = match(p[1], t[1], env)
            if e is None:
                return None
            return match_seq(list(p[2]), list(s for s in t[2] if s[0] != "decl"), e)
        if len(p) != len(t):
            return None
        for a, b in zip(p, t):
            if isinstance(a, tuple):
                if not isinstance(b, tuple):
                    return None
                env = match(a, b, env)
                if env is None:
                    return None
            elif a != b:
                return None
        return env
    return env if p == t else None
