"""cmini — a small parser for function bodies of /repo/w2c2 (*.c, and function-like code inside macros), used by the
extractors that bind source facts by ROLE instead of by text (gen_array, gen_filecalls, gen_debugnames).

Expressions (tuples):
  ("num", int)                    integer literal, compared by VALUE (0x10 == 16 == 16U)
  ("chr", text) ("str", text)
  ("id", name)
  ("un", op, e)                   op in  * & ! - ~ ++pre --pre
  ("post", op, e)                 e++ / e--
  ("bin", op, a, b)               arithmetic, shifts, comparisons, && ||, bit operations
  ("cond", c, a, b)
  ("call", callee_expr, [args])
  ("cast", type_text, e)
  ("member", e, field)            e->field and e.field (the distinction never matters for the facts extracted)
  ("index", a, i)
  ("sizeof", text)
Statements:
  ("decl", type_text, name, init | None)         one declarator per statement (w2c2's style); type_text without qualifiers
  ("assign", lhs, op, rhs)                       op in = += -= ...
  ("expr", e)
  ("if", cond, [then], [else] | None)
  ("while", cond, [body])
  ("for", init_stmt | None, cond | None, step_stmt | None, [body])
  ("return", e | None)
  ("break",) ("continue",)
  ("block", [stmts])
`MUST (e)` (w2c2_base.h: `{ if (!(e)) { return false; }; }`) is parsed as ("if", ("un","!",e), [("return", ("id","false"))], None);
the caller checks the macro's definition with `must_macro_ok`.

Anything outside this grammar raises ParseFail: the extractors turn that into EXTRACT-FAIL (fail closed).
"""
import re


class ParseFail(Exception):
    pass


TOK = re.compile(r"""
    (?P<num>0[xX][0-9a-fA-F]+[uUlL]*|\d+[uUlL]*)
  | (?P<id>[A-Za-z_]\w*)
  | (?P<str>"(?:[^"\\\n]|\\.)*")
  | (?P<chr>'(?:[^'\\\n]|\\.)*')
  | (?P<op><<=|>>=|->|\+\+|--|<<|>>|<=|>=|==|!=|&&|\|\||\+=|-=|\*=|/=|%=|&=|\|=|\^=|\#\#|[-+*/%<>=!~&|^?:;,.(){}\[\]\#])
""", re.X)

QUALS = {"const", "static", "volatile", "register", "W2C2_INLINE", "WARN_UNUSED_RESULT", "inline", "extern"}
BASE_TYPES = {"void", "char", "int", "unsigned", "signed", "long", "short", "size_t", "bool", "float", "double", "FILE",
              "U8", "U16", "U32", "U64", "I8", "I16", "I32", "I64", "F32", "F64"}


def strip_comments(src):
    src = re.sub(r"/\*.*?\*/", " ", src, flags=re.S)
    return re.sub(r"//[^\n]*", " ", src)


def tokenize(text, where="?"):
    toks, pos = [], 0
    while pos < len(text):
        if text[pos].isspace():
            pos += 1
            continue
        m = TOK.match(text, pos)
        if not m:
            raise ParseFail(f"{where}: cannot tokenise at `{text[pos:pos + 30]}`")
        toks.append((m.lastgroup, m.group()))
        pos = m.end()
    return toks


def num_value(t):
    t = t.rstrip("uUlL")
    if t.lower().startswith("0x"):
        return int(t, 16)
    if len(t) > 1 and t[0] == "0":
        return int(t, 8)
    return int(t)


def apply_ifdefs(src, defined):
    """Keep the lines of the `#if NAME` / `#else` / `#endif` branches selected by `defined` (name -> bool) for the conditions that
    mention exactly one of those names (`#if NAME`, `#if !NAME`, `#ifdef`, `#ifndef`); every other directive line is dropped, code
    under other conditions is kept.  Used to look at ONE build configuration of a function."""
    out = []
    stack = []          # (known, active_now, taken)
    for ln in src.split("\n"):
        s = ln.strip()
        m = re.match(r"#\s*(if|ifdef|ifndef|elif|else|endif)\b\s*(.*)", s)
        if not m:
            if all(a for (_k, a, _t) in stack):
                out.append(ln)
            else:
                out.append("")
            continue
        d, rest = m.group(1), re.sub(r"/\*.*?\*/", "", m.group(2)).strip()
        if d in ("if", "ifdef", "ifndef"):
            val = None
            mm = re.fullmatch(r"(!?)\s*(?:defined\s*\(?\s*)?(\w+)\s*\)?", rest)
            if mm and mm.group(2) in defined:
                val = bool(defined[mm.group(2)]) != bool(mm.group(1))
                if d == "ifndef":
                    val = not val
            if val is None:
                stack.append((False, True, True))
            else:
                stack.append((True, val, val))
        elif d == "elif":
            k, a, t = stack.pop()
            if k:
                raise ParseFail("#elif after a selected #if is not supported")
            stack.append((k, a, t))
        elif d == "else":
            k, a, t = stack.pop()
            stack.append((k, (not t) if k else True, True))
        else:
            if not stack:
                raise ParseFail("#endif without #if")
            stack.pop()
        out.append("")
    return "\n".join(out)


def find_function_text(src, name, where="?"):
    """(parameter text, body text) of the DEFINITION of `name` in comment-free source."""
    for m in re.finditer(r"(?<![\w>.])" + re.escape(name) + r"\s*\(", src):
        i = m.end() - 1
        j = _match(src, i, "(", ")", where)
        k = j + 1
        while k < len(src) and src[k].isspace():
            k += 1
        if k < len(src) and src[k] == "{":
            e = _match(src, k, "{", "}", where)
            return src[i + 1:j], src[k + 1:e]
    raise ParseFail(f"{where}: definition of {name} not found")


def _match(src, i, o, c, where):
    d = 0
    k = i
    in_s = None
    while k < len(src):
        ch = src[k]
        if in_s:
            if ch == "\\":
                k += 1
            elif ch == in_s:
                in_s = None
        elif ch in "\"'":
            in_s = ch
        elif ch == o:
            d += 1
        elif ch == c:
            d -= 1
            if d == 0:
                return k
        k += 1
    raise ParseFail(f"{where}: unbalanced {o}{c}")


def norm_type(toks):
    """type text without qualifiers: ['const','size_t','*'] -> 'size_t*'"""
    return "".join(t for t in toks if t not in QUALS)


def parse_params(text, where="?"):
    """[(type_text, name)]"""
    toks = tokenize(text, where)
    if [t for _k, t in toks] in ([], ["void"]):
        return []
    out, cur = [], []
    for k, t in toks + [("op", ",")]:
        if t == ",":
            if len(cur) < 2 or not re.match(r"[A-Za-z_]", cur[-1]):
                raise ParseFail(f"{where}: parameter `{' '.join(cur)}`")
            out.append((norm_type(cur[:-1]), cur[-1]))
            cur = []
        else:
            cur.append(t)
    return out


class Parser:
    BIN = [["||"], ["&&"], ["|"], ["^"], ["&"], ["==", "!="], ["<", "<=", ">", ">="], ["<<", ">>"], ["+", "-"], ["*", "/", "%"]]

    def __init__(self, text, where="?", types=()):
        self.toks = tokenize(text, where)
        self.i = 0
        self.where = where
        self.types = set(BASE_TYPES) | set(types)

    # ---- token helpers
    def peek(self, k=0):
        return self.toks[self.i + k][1] if self.i + k < len(self.toks) else None

    def kind(self, k=0):
        return self.toks[self.i + k][0] if self.i + k < len(self.toks) else None

    def take(self, want=None):
        t = self.peek()
        if t is None or (want is not None and t != want):
            raise ParseFail(f"{self.where}: expected `{want}` but found `{t}` near `{' '.join(x for _k, x in self.toks[max(0, self.i - 6):self.i + 4])}`")
        self.i += 1
        return t

    def fail(self, why):
        raise ParseFail(f"{self.where}: {why} near `{' '.join(x for _k, x in self.toks[max(0, self.i - 6):self.i + 6])}`")

    # ---- types
    def _type_at(self, k):
        """length of a type name starting at token offset k (qualifiers, base/known type identifiers, then stars), 0 if none"""
        n = 0
        seen = False
        while self.kind(k + n) == "id" and (self.peek(k + n) in QUALS or self.peek(k + n) in self.types or
                                             (self.peek(k + n) == "struct")):
            if self.peek(k + n) == "struct":
                n += 1
            if self.peek(k + n) not in QUALS:
                seen = True
            n += 1
        if not seen:
            return 0
        while self.peek(k + n) == "*" or self.peek(k + n) in QUALS:
            n += 1
        return n

    def _is_decl(self):
        """ident+ '*'* ident ('=' | ';' | '[')  with at least two identifiers; unknown type identifiers are accepted here"""
        k, ids = 0, 0
        while self.kind(k) == "id":
            ids += 1
            k += 1
        stars = 0
        while self.peek(k) == "*":
            stars += 1
            k += 1
        if stars:
            if self.kind(k) != "id" or ids < 1:
                return False
            while self.kind(k) == "id":       # `char * const p`
                k += 1
            return self.peek(k) in ("=", ";", "[")
        return ids >= 2 and self.peek(k) in ("=", ";", "[")

    # ---- expressions
    def expr(self):
        e = self.assign_free()
        return e

    def assign_free(self):
        c = self.binary(0)
        if self.peek() == "?":
            self.take()
            a = self.assign_free()
            self.take(":")
            b = self.assign_free()
            return ("cond", c, a, b)
        return c

    def binary(self, lvl):
        if lvl == len(self.BIN):
            return self.unary()
        e = self.binary(lvl + 1)
        while self.peek() in self.BIN[lvl]:
            op = self.take()
            r = self.binary(lvl + 1)
            e = ("bin", op, e, r)
        return e

    def unary(self):
        t = self.peek()
        if t in ("!", "-", "~", "*", "&", "+"):
            self.take()
            e = self.unary()
            return e if t == "+" else ("un", t, e)
        if t in ("++", "--"):
            self.take()
            return ("un", t + "pre", self.unary())
        if t == "sizeof":
            self.take()
            self.take("(")
            j = self.i
            d = 1
            while d:
                x = self.take()
                d += (x == "(") - (x == ")")
            return ("sizeof", "".join(x for _k, x in self.toks[j:self.i - 1]))
        if t == "(":
            n = self._type_at(1)
            if n and self.peek(1 + n) == ")":
                ty = norm_type([x for _k, x in self.toks[self.i + 1:self.i + 1 + n]])
                self.i += n + 2
                return ("cast", ty, self.unary())
        return self.postfix()

    def postfix(self):
        e = self.primary()
        while True:
            t = self.peek()
            if t == "(":
                self.take()
                args = []
                if self.peek() != ")":
                    args.append(self.assign_free())
                    while self.peek() == ",":
                        self.take()
                        args.append(self.assign_free())
                self.take(")")
                e = ("call", e, args)
            elif t == "[":
                self.take()
                i = self.expr()
                self.take("]")
                e = ("index", e, i)
            elif t in ("->", "."):
                self.take()
                if self.kind() != "id":
                    self.fail("member name expected")
                e = ("member", e, self.take())
            elif t in ("++", "--"):
                self.take()
                e = ("post", t, e)
            else:
                return e

    def primary(self):
        k, t = self.kind(), self.peek()
        if t == "(":
            self.take()
            e = self.expr()
            self.take(")")
            return e
        if k == "num":
            self.take()
            return ("num", num_value(t))
        if k == "id":
            self.take()
            return ("id", t)
        if k == "str":
            self.take()
            s = t
            while self.kind() == "str":
                s += self.take()
            return ("str", s)
        if k == "chr":
            self.take()
            return ("chr", t)
        self.fail(f"unexpected token `{t}` in expression")

    # ---- statements
    def block_items(self):
        out = []
        while self.peek() is not None and self.peek() != "}":
            s = self.stmt()
            if s is not None:
                out.append(s)
        return out

    def body(self):
        """`{ … }` or a single statement -> [stmts]"""
        if self.peek() == "{":
            self.take()
            b = self.block_items()
            self.take("}")
            return b
        s = self.stmt()
        return [s] if s is not None else []

    def simple(self):
        """expression statement / assignment without the `;`"""
        e = self.assign_free()
        if self.peek() in ("=", "+=", "-=", "*=", "/=", "%=", "<<=", ">>=", "&=", "|=", "^="):
            op = self.take()
            r = self.assign_free()
            if self.peek() in ("=",):
                self.fail("chained assignment")
            return ("assign", e, op, r)
        return ("expr", e)

    def stmt(self):
        t = self.peek()
        if t == ";":
            self.take()
            return None
        if t == "{":
            self.take()
            b = self.block_items()
            self.take("}")
            return ("block", b)
        if t == "if":
            self.take()
            self.take("(")
            c = self.expr()
            self.take(")")
            th = self.body()
            el = None
            if self.peek() == "else":
                self.take()
                el = self.body()
            return ("if", c, th, el)
        if t == "while":
            self.take()
            self.take("(")
            c = self.expr()
            self.take(")")
            return ("while", c, self.body())
        if t == "for":
            self.take()
            self.take("(")
            init = None
            if self.peek() != ";":
                init = self.decl() if self._is_decl() else self.simple()
            self.take(";")
            cond = None if self.peek() == ";" else self.expr()
            self.take(";")
            step = None if self.peek() == ")" else self.simple()
            self.take(")")
            return ("for", init, cond, step, self.body())
        if t == "return":
            self.take()
            e = None if self.peek() == ";" else self.expr()
            self.take(";")
            return ("return", e)
        if t in ("break", "continue"):
            self.take()
            self.take(";")
            return (t,)
        if t in ("switch", "do", "goto", "case", "default"):
            self.fail(f"`{t}` statement is outside the accepted grammar")
        if t == "MUST" and self.peek(1) == "(":
            self.take()
            self.take("(")
            e = self.expr()
            self.take(")")
            if self.peek() == ";":
                self.take()
            return ("if", ("un", "!", e), [("return", ("id", "false"))], None)
        if self._is_decl():
            d = self.decl()
            self.take(";")
            return d
        s = self.simple()
        self.take(";")
        return s

    def decl(self):
        ty = []
        while self.peek() not in ("=", ";", "[", ",", ")", None):      # shape established by _is_decl
            ty.append(self.take())
        if len(ty) < 2 or not re.match(r"[A-Za-z_]", ty[-1]):
            self.fail("declarator name expected")
        name = ty.pop()
        if self.peek() == "[":
            self.take()
            n = self.expr() if self.peek() != "]" else None
            self.take("]")
            ty.append("[]")
        init = None
        if self.peek() == "=":
            self.take()
            if self.peek() == "{":                     # brace initialiser: kept opaque
                d, j = 0, self.i
                while True:
                    x = self.take()
                    d += (x == "{") - (x == "}")
                    if d == 0:
                        break
                init = ("braces", " ".join(t for _k, t in self.toks[j:self.i]))
            else:
                init = self.assign_free()
        if self.peek() == ",":
            self.fail("several declarators in one declaration")
        return ("decl", norm_type(ty), name, init)


def parse_body(text, where="?", types=()):
    p = Parser(text, where, types)
    b = p.block_items()
    if p.peek() is not None:
        p.fail("trailing tokens after the function body")
    return b


def parse_function(src, name, where="?", types=()):
    """-> ([(type, param)], [stmts]) of the definition of `name` in comment-free source `src`"""
    ptxt, btxt = find_function_text(src, name, where)
    return parse_params(ptxt, f"{where}: parameters of {name}"), parse_body(btxt, f"{where}: {name}", types)


def must_macro_ok(base_h_src):
    """w2c2_base.h defines MUST(x) as: if (!(x)) return false;"""
    m = re.search(r"#\s*define\s+MUST\((\w+)\)\s*(.*)", strip_comments(base_h_src))
    if not m:
        return False
    body = re.sub(r"\s+", "", m.group(2))
    a = m.group(1)
    return body in ("{if(!(%s)){returnfalse;};}" % a, "{if(!(%s)){returnfalse;}}" % a, "if(!(%s)){returnfalse;}" % a,
                    "if(!(%s))returnfalse;" % a, "{if(!(%s))returnfalse;}" % a)


# ------------------------------------------------------------------------------------ normal forms shared by the extractors

def is_null(e):
    return e == ("id", "NULL") or e == ("num", 0) or (e[0] == "cast" and e[1].endswith("*") and is_null(e[2]))


def is_true(e):
    return e in (("id", "true"), ("num", 1))


def is_false(e):
    return e in (("id", "false"), ("num", 0))


NEG = {"<": ">=", "<=": ">", ">": "<=", ">=": "<", "==": "!=", "!=": "=="}
FLIP = {"<": ">", "<=": ">=", ">": "<", ">=": "<=", "==": "==", "!=": "!="}


def norm_cond(e):
    """normal form of a condition:  ("cmp", op, a, b) | ("isnull", x) | ("notnull", x) | ("and"/"or", a, b) | ("truth", e)
    with  !x ≡ x == 0 ≡ x == NULL ≡ NULL == x,  !(a < b) ≡ a >= b,  !!x ≡ x != 0."""
    if e[0] == "un" and e[1] == "!":
        return neg_cond(norm_cond(e[2]))
    if e[0] == "bin" and e[1] in NEG:
        a, b = e[2], e[3]
        if e[1] in ("==", "!="):
            if is_null(b) and not is_null(a):
                return ("isnull" if e[1] == "==" else "notnull", a)
            if is_null(a) and not is_null(b):
                return ("isnull" if e[1] == "==" else "notnull", b)
        return ("cmp", e[1], a, b)
    if e[0] == "bin" and e[1] in ("&&", "||"):
        return ("and" if e[1] == "&&" else "or", norm_cond(e[2]), norm_cond(e[3]))
    return ("notnull", e)           # `if (x)` ≡ `if (x != 0)`


def neg_cond(c):
    if c[0] == "cmp":
        return ("cmp", NEG[c[1]], c[2], c[3])
    if c[0] == "isnull":
        return ("notnull", c[1])
    if c[0] == "notnull":
        return ("isnull", c[1])
    if c[0] == "and":
        return ("or", neg_cond(c[1]), neg_cond(c[2]))
    if c[0] == "or":
        return ("and", neg_cond(c[1]), neg_cond(c[2]))
    raise ParseFail("cannot negate condition %r" % (c,))


def flatten(stmts):
    """nested plain blocks spliced into their parent"""
    out = []
    for s in stmts:
        if s[0] == "block":
            out += flatten(s[1])
        elif s[0] == "if":
            out.append(("if", s[1], flatten(s[2]), None if s[3] is None else flatten(s[3])))
        elif s[0] == "while":
            out.append(("while", s[1], flatten(s[2])))
        elif s[0] == "for":
            out.append(("for", s[1], s[2], s[3], flatten(s[4])))
        else:
            out.append(s)
    return out


def lower_ternary_assign(stmts):
    """`x = c ? a : b;` (also in a declaration) ≡ `if (c) x = a; else x = b;`"""
    out = []
    for s in stmts:
        if s[0] == "assign" and s[2] == "=" and s[3][0] == "cond":
            _c, c, a, b = s[3]
            out.append(("if", c, [("assign", s[1], "=", a)], [("assign", s[1], "=", b)]))
        elif s[0] == "decl" and s[3] is not None and s[3][0] == "cond":
            _c, c, a, b = s[3]
            out.append(("decl", s[1], s[2], None))
            out.append(("if", c, [("assign", ("id", s[2]), "=", a)], [("assign", ("id", s[2]), "=", b)]))
        elif s[0] == "if":
            out.append(("if", s[1], lower_ternary_assign(s[2]), None if s[3] is None else lower_ternary_assign(s[3])))
        else:
            out.append(s)
    return out


def strip_casts(e, keep=lambda ty: False):
    """drop casts (value-preserving ones are the caller's claim: pass `keep` to retain the others)"""
    if e[0] == "cast" and not keep(e[1]):
        return strip_casts(e[2], keep)
    if e[0] in ("un", "post"):
        return (e[0], e[1], strip_casts(e[2], keep))
    if e[0] == "bin":
        return ("bin", e[1], strip_casts(e[2], keep), strip_casts(e[3], keep))
    if e[0] == "cond":
        return ("cond", strip_casts(e[1], keep), strip_casts(e[2], keep), strip_casts(e[3], keep))
    if e[0] == "call":
        return ("call", strip_casts(e[1], keep), [strip_casts(a, keep) for a in e[2]])
    if e[0] == "member":
        return ("member", strip_casts(e[1], keep), e[2])
    if e[0] == "index":
        return ("index", strip_casts(e[1], keep), strip_casts(e[2], keep))
    if e[0] == "cast":
        return ("cast", e[1], strip_casts(e[2], keep))
    return e


def show(e):
    """compact C text of an expression (for messages and generated doc strings)"""
    k = e[0]
    if k == "num":
        return str(e[1])
    if k in ("id", "chr", "str"):
        return e[1]
    if k == "un":
        return e[1].replace("pre", "") + show(e[2])
    if k == "post":
        return show(e[2]) + e[1]
    if k == "bin":
        return "(" + show(e[2]) + " " + e[1] + " " + show(e[3]) + ")"
    if k == "cond":
        return "(" + show(e[1]) + " ? " + show(e[2]) + " : " + show(e[3]) + ")"
    if k == "call":
        return show(e[1]) + "(" + ", ".join(show(a) for a in e[2]) + ")"
    if k == "cast":
        return "(" + e[1] + ")" + show(e[2])
    if k == "member":
        return show(e[1]) + "->" + e[2]
    if k == "index":
        return show(e[1]) + "[" + show(e[2]) + "]"
    if k == "sizeof":
        return "sizeof(" + e[1] + ")"
    return repr(e)


def subst_defines(src):
    """object-like `#define NAME <integer literal>` (optionally parenthesised) of this file substituted into the code: named
    constants are compared by value"""
    defs = {}
    for m in re.finditer(r"^[ \t]*#[ \t]*define[ \t]+(\w+)[ \t]+\(?[ \t]*(0[xX][0-9a-fA-F]+[uUlL]*|\d+[uUlL]*)[ \t]*\)?[ \t]*$", src, flags=re.M):
        defs[m.group(1)] = m.group(2)
    if not defs:
        return src
    lines = []
    for ln in src.split("\n"):
        if re.match(r"\s*#\s*define\b", ln):
            lines.append(ln)
        else:
            lines.append(re.sub(r"\b(" + "|".join(map(re.escape, defs)) + r")\b", lambda m: defs[m.group(1)], ln))
    return "\n".join(lines)


def norm_incr(stmts):
    """`x++;` ≡ `++x;` ≡ `x += 1;` ≡ `x = x + 1;` as statements (likewise -- and the other compound assignments)"""
    out = []
    for s in stmts:
        if s[0] == "expr" and s[1][0] in ("post", "un") and s[1][1] in ("++", "--", "++pre", "--pre"):
            x = s[1][2]
            out.append(("assign", x, "=", ("bin", s[1][1][0], x, ("num", 1))))
        elif s[0] == "assign" and s[2] != "=":
            out.append(("assign", s[1], "=", ("bin", s[2][:-1], s[1], s[3])))
        elif s[0] == "if":
            out.append(("if", s[1], norm_incr(s[2]), None if s[3] is None else norm_incr(s[3])))
        elif s[0] == "while":
            out.append(("while", s[1], norm_incr(s[2])))
        elif s[0] == "for":
            i = norm_incr([s[1]])[0] if s[1] is not None else None
            st = norm_incr([s[3]])[0] if s[3] is not None else None
            out.append(("for", i, s[2], st, norm_incr(s[4])))
        else:
            out.append(s)
    return out


def normalize(stmts):
    return norm_incr(lower_ternary_assign(flatten(stmts)))
