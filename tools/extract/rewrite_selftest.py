"""Regression list of the semantic extractor gen_array (run by hand after an extractor change:
`python3 tools/extract/rewrite_selftest.py [scratch dir]`): behaviour-preserving rewrites of array.c / array.h / stringbuilder.c must
regenerate EXACTLY the file the pristine sources give; semantic changes (names starting with X) must give another program or an
EXTRACT-FAIL.  Every variant is applied to a scratch clone of VERIF_REPO (/repo) and must still compile."""
import os
import shutil
import subprocess
import sys

sys.path.insert(0, os.path.dirname(os.path.abspath(__file__)))
import gen_array as gen

REPO = os.environ.get("VERIF_REPO", "/repo")
SCRATCH = sys.argv[1] if len(sys.argv) > 1 else "/tmp/rewrite_selftest"
DEFS = ["-DHAS_PTHREAD=1", "-DHAS_UNISTD=1", "-DHAS_GETOPT=1", "-DHAS_LIBGEN=1", "-DHAS_STRDUP=1", "-DHAS_GLOB=1"]
base = gen.generate(REPO)
bad = 0


def variant(name, edits, expect_same):
    global bad
    d = os.path.join(SCRATCH, "v")
    shutil.rmtree(d, ignore_errors=True)
    subprocess.run(["git", "clone", "-q", REPO, d], check=True)
    for f, a, b in edits:
        p = os.path.join(d, "w2c2", f)
        s = open(p).read()
        assert s.count(a) >= 1, (name, a)
        open(p, "w").write(s.replace(a, b))
    for f in sorted(set(e[0] for e in edits if e[0].endswith(".c")) | {"c.c"}):
        r = subprocess.run(["gcc", "-fsyntax-only", "-w"] + DEFS + [os.path.join(d, "w2c2", f)], capture_output=True, text=True)
        if r.returncode:
            print("  !! variant does not compile:", name, f, r.stderr[:300])
            bad += 1
    try:
        res = "same" if gen.generate(d) == base else "DIFFERENT"
    except Exception as e:
        res = "FAIL: " + str(e)[:160]
    ok = (res == "same") == expect_same
    bad += not ok
    print(("ok   " if ok else "BAD  ") + name + " -> " + res)
    shutil.rmtree(d, ignore_errors=True)


G = "    newCapacity = length + (*capacity >> 1U);\n"
variant("div2", [("array.c", G, "    newCapacity = length + *capacity / 2;\n")], True)
variant("commuted", [("array.c", G, "    newCapacity = (*capacity >> 0x1) + length;\n")], True)
variant("named const", [("array.c", G, "    { static const size_t one = 1; newCapacity = length + (*capacity >> one); }\n")], True)
variant("renamed locals", [("array.c", "newCapacity", "cap2"), ("array.c", "newItems", "blk")], True)
variant("renamed params", [("array.c", "itemSize", "elemSize"), ("array.c", "length", "want")], True)
variant("decl-init", [("array.c", "    size_t newCapacity = 0;\n", ""), ("array.c", "    assert(length > *capacity);\n", "    assert(length > *capacity);\n    {size_t newCapacity = length + (*capacity >> 1U);\n"), ("array.c", G, ""), ("array.c", "    return true;\n}", "    return true;}\n}")], True)
variant("flipped alloc if", [("array.c", "if (*items == NULL) {\n        newItems = calloc(newCapacity, itemSize);\n    } else {\n        newItems = realloc(*items, newCapacity * itemSize);\n    }", "if (*items != NULL) {\n        newItems = realloc(*items, itemSize * newCapacity);\n    } else {\n        newItems = calloc(newCapacity, itemSize);\n    }")], True)
variant("ternary alloc", [("array.c", "if (*items == NULL) {\n        newItems = calloc(newCapacity, itemSize);\n    } else {\n        newItems = realloc(*items, newCapacity * itemSize);\n    }", "newItems = !*items ? calloc(newCapacity, itemSize) : realloc(*items, newCapacity * itemSize);")], True)
variant("null check !p", [("array.c", "if (newItems == NULL) {\n        return false;\n    }", "MUST (newItems != NULL)")], True)
variant("stores swapped", [("array.c", "    *items = newItems;\n    *capacity = newCapacity;\n", "    *capacity = newCapacity;\n    *items = newItems;\n")], True)
variant("assert flipped", [("array.c", "assert(length > *capacity);", "assert(*capacity < length);")], True)
variant("bytes temp", [("array.c", "        newItems = realloc(*items, newCapacity * itemSize);", "        const size_t bytes = newCapacity * itemSize;\n        newItems = realloc(*items, bytes);")], True)
variant("fast path inverted", [("array.h", "    if (length <= *capacity) {\n        return true;\n    }\n    return arrayEnsureCapacitySlowPath(items, length, capacity, itemSize);", "    if (length > *capacity) {\n        return arrayEnsureCapacitySlowPath(items, length, capacity, itemSize);\n    }\n    return true;")], True)
variant("fast path ||", [("array.h", "    if (length <= *capacity) {\n        return true;\n    }\n    return arrayEnsureCapacitySlowPath(items, length, capacity, itemSize);", "    return *capacity >= length || arrayEnsureCapacitySlowPath(items, length, capacity, itemSize);")], True)
variant("append ++", [("array.h", "    INSTANCE->length = newLength;                             \\\n", "    INSTANCE->length++;                                       \\\n")], True)
variant("append no temp", [("array.h", "MUST (INSTANCE ## EnsureCapacity(INSTANCE, newLength))", "if (!INSTANCE ## EnsureCapacity(INSTANCE, 1 + INSTANCE->length)) { return false; }")], True)
variant("sb temp inlined", [("stringbuilder.c", "const size_t newCapacity = lengthWithNull + (stringBuilder->capacity >> 1U);", "const size_t newCapacity = (stringBuilder->capacity / 2) + length + 1;")], True)
variant("sb early return", [("stringbuilder.c", "    if (lengthWithNull > stringBuilder->capacity) {\n", "    if (stringBuilder->capacity >= lengthWithNull) { return true; }\n    {\n")], True)
variant("sb no lwn", [("stringbuilder.c", "    const size_t lengthWithNull = length + 1;\n    if (lengthWithNull > stringBuilder->capacity) {\n        const size_t newCapacity = lengthWithNull +", "    if (length + 1 > stringBuilder->capacity) {\n        const size_t newCapacity = 1 + length +")], True)
# semantic changes: must NOT be identified
variant("X growth ignores length", [("array.c", G, "    newCapacity = *capacity + (*capacity >> 1U);\n")], False)
variant("X shift by 2", [("array.c", G, "    newCapacity = length + (*capacity >> 2U);\n")], False)
variant("X div 3", [("array.c", G, "    newCapacity = length + (*capacity / 3);\n")], False)
variant("X realloc bytes", [("array.c", "realloc(*items, newCapacity * itemSize)", "realloc(*items, newCapacity)")], False)
variant("X fast path <", [("array.h", "if (length <= *capacity) {", "if (length < *capacity) {")], False)
variant("X append index", [("array.h", "INSTANCE->ITEMS[length] = ITEM;  ", "INSTANCE->ITEMS[newLength] = ITEM;")], False)
variant("X append reserve length", [("array.h", "EnsureCapacity(INSTANCE, newLength))", "EnsureCapacity(INSTANCE, length))   ")], False)
variant("X sb guard >=", [("stringbuilder.c", "if (lengthWithNull > stringBuilder->capacity) {", "if (lengthWithNull >= stringBuilder->capacity) {")], False)
variant("X sb lwn = length", [("stringbuilder.c", "const size_t lengthWithNull = length + 1;", "const size_t lengthWithNull = length;")], False)
variant("X sb raw length in growth", [("stringbuilder.c", "const size_t newCapacity = lengthWithNull +", "const size_t newCapacity = length +")], False)
variant("X no null check", [("array.c", "if (newItems == NULL) {\n        return false;\n    }", "")], False)
variant("X stale temp", [("array.c", G, "    { size_t t; newCapacity = length; t = newCapacity + (*capacity >> 1U); newCapacity = 0; newCapacity = t; }\n")], False)
variant("X U32 temp", [("array.c", G, "    { unsigned int half = (unsigned int)(*capacity >> 1U); newCapacity = length + half; }\n")], False)

print("%d problem(s)" % bad)
sys.exit(1 if bad else 0)
