"""gen_wasipath — regenerate lean/W2c2Verif/Gen/WasiPath.lean from /repo/wasi/{wasi.c,wasi.h}.

SEMANTIC extraction (tools/extract/wasinorm.py): the source is preprocessed for this platform's configuration
(`gcc -E -fdirectives-only`: conditionals resolved, macros kept), the functions are parsed and brought into a
NORMAL FORM that identifies behaviour-preserving rewrites (local names, inlined static helpers, `?:` vs if/else,
for vs while, `i++` vs `i += 1`, switch vs if-chain, negated conditions with swapped branches, `!x` vs `x == 0` vs
`x == NULL`, literals by value, resolved `#define`/`static const`/constant locals, value-preserving casts, braces),
and the facts are read off by matching TEMPLATES written as C with metavariables (`$x`) against the normal form.
A function whose normal form matches none of the known templates raises ExtractFail (= broken tie): the extractor
never guesses.

Extracted facts:
  * resolvePath: the three length guards as Lean predicates, presence/placement of the NUL guard, the characters
    compared/inserted, the copies; the fallback `#define PATH_MAX`;
  * fd_readdir: dirent size, header stores (offset, width), cookie test guarding `seekdir`, `rewinddir` on its
    else branch, `errno = 0` before `readdir`, the "does not fit" test, the name clamp, the loop condition;
    wasiFileTypeFromMode tests; * wasiErrno table; * the host call of each path call, the symlink target guard,
    every guest-memory store of path_readlink, stat vs lstat in path_filestat_get;
  * clocks: WASI clock id → host clock of clock_time_get / clock_res_get (whole dispatch incl. any dependence on
    `precision`), convertTimespec / convertTimeval arithmetic, and the same for the fallback-timer configuration
    (-DWASI_FALLBACK_TIMERS_ENABLED=1: gettimeofday / getrusage);
  * random_get: chunked / single getentropy shape; * thread-spawn: counter, atomic increment, export comparison,
    event order, missing-export result; * args/environ: loop bounds, `strlen + 1` accounting, pointer stride.
"""
import os
import re

from cfront import ExtractFail, lean_str
import wasinorm as cn
from wasinorm import show

GEN_NAME = "WasiPath"


# ------------------------------------------------------------------------------------------ helpers

def variants(template):
    """`/*?name*/ … /*?end*/` marks an optional fragment; yields (flags, text) for every combination (fragments of
    the same name are switched together)"""
    names = sorted(set(re.findall(r"/\*\?(\w+)\*/", template)) - {"end"})
    for mask in range(2 ** len(names)):
        flags = {n: bool(mask >> i & 1) for i, n in enumerate(names)}
        text = template
        for n in names:
            pat = re.compile(r"/\*\?%s\*/(.*?)/\*\?end\*/" % n, re.S)
            text = pat.sub((lambda m: m.group(1)) if flags[n] else "", text)
        yield flags, text


def nodecl(body):
    return [s for s in body if s[0] != "decl"]


def match_whole(src, fname, template, what):
    """the function's normal form must equal one variant of the template (metavariables aside)"""
    body = nodecl(src.body(fname))
    hits = []
    for flags, text in variants(template):
        env = cn.match_seq(src.pattern(text), body, {}, prefix=False)
        if env is not None:
            hits.append((flags, env))
    if len(hits) != 1:
        raise ExtractFail(src.where, f"{fname}: {what}: normal form matches {len(hits)} of the known shapes:\n" + src.text(fname)[:3500])
    return hits[0]


def num(e, where, what):
    if e[0] != "num":
        raise ExtractFail(where, f"{what}: integer constant expected, found `{show(e)}`")
    return e[1]


def ident(e, where, what):
    if e[0] != "id":
        raise ExtractFail(where, f"{what}: a variable expected, found `{show(e)}`")
    return e[1]


def lean_nat(e, names, where):
    """arithmetic over Nat: identifiers renamed by `names`"""
    if e[0] == "num" and e[1] >= 0:
        return str(e[1])
    if e[0] == "id" and e[1] in names:
        return names[e[1]]
    if e[0] == "bin" and e[1] in ("+", "*"):
        a, b = lean_nat(e[2], names, where), lean_nat(e[3], names, where)
        return f"{a} {e[1]} {b}"
    raise ExtractFail(where, f"expression outside the arithmetic the model knows: `{show(e)}`")


def lean_guard(failcond, names, where, norm):
    """the Lean Bool for `MUST (g)` given the FAILURE condition `!g` of the normal form"""
    g = norm.negate(failcond)
    if g[0] == "id":                                     # `x` in condition position = `x != 0`
        g = ("bin", "!=", g, ("num", 0))
    canon = cn.walk(g, lambda x: ("id", names[x[1]]) if x[0] == "id" and x[1] in names else x)
    if g[0] == "bin" and g[1] == "!=" and g[3] == ("num", 0):     # unsigned: x != 0 printed as the source's x > 0
        return f"decide ({lean_nat(g[2], names, where)} > 0)", f"{show(canon[2])} > 0"
    if not (g[0] == "bin" and g[1] in ("<", "<=", "==", "!=")):
        raise ExtractFail(where, f"guard is not a comparison: `{show(g)}`")
    op = {"<": "<", "<=": "≤", "==": "=", "!=": "≠"}[g[1]]
    a, b = g[2], g[3]
    if a[0] == "num" and g[1] in ("<", "<="):            # print `0 < x` as the source's `x > 0`
        return f"decide ({lean_nat(b, names, where)} {'>' if g[1] == '<' else '≥'} {lean_nat(a, names, where)})", f"{show(canon[3])} {'>' if g[1] == '<' else '>='} {show(canon[2])}"
    return f"decide ({lean_nat(a, names, where)} {op} {lean_nat(b, names, where)})", show(canon)


def all_stmts(body):
    for s in body:
        yield s
        if s[0] == "if":
            yield from all_stmts(s[2])
            if s[3]:
                yield from all_stmts(s[3])
        elif s[0] == "while":
            yield from all_stmts(s[2])
        elif s[0] == "do":
            yield from all_stmts(s[1])


def all_exprs(tree):
    if isinstance(tree, tuple):
        if tree and tree[0] in ("call", "bin", "un", "asg", "cond", "cast", "idx", "mem", "post", "pre", "id", "num"):
            yield tree
        for x in tree:
            if isinstance(x, (tuple, list)):
                yield from all_exprs(x)
    elif isinstance(tree, list):
        for x in tree:
            yield from all_exprs(x)


def ids_in_conditions(body, ident):
    """the if/while conditions of the function that mention `ident`"""
    out = []

    def rec(stmts):
        for st in stmts:
            if st[0] == "if":
                if ident in cn.ids_of(st[1]):
                    out.append(st[1])
                rec(st[2])
                rec(st[3] or ())
            elif st[0] == "while":
                if ident in cn.ids_of(st[1]):
                    out.append(st[1])
                rec(st[2])
    rec(list(body))
    return out


def cn_define_value(hpath, name):
    import re
    m = re.search(r"^\s*#\s*define\s+" + name + r"\s+(.+?)\s*$", open(hpath, encoding="latin-1").read(), re.M)
    if not m:
        raise ExtractFail(hpath, f"#define {name} not found")
    txt = m.group(1).split("/*")[0].strip()
    if not re.fullmatch(r"[0-9xXa-fA-F()<>|\s uUlL]+", txt):
        raise ExtractFail(hpath, f"#define {name} {txt}: not a constant expression")
    return int(eval(re.sub(r"(?<=[0-9a-fA-F])[uUlL]+", "", txt), {"__builtins__": {}}))


def calls_of(body, fname):
    return [e for e in all_exprs(list(body)) if e[0] == "call" and e[1] == ("id", fname)]


def if_chain(stmts):
    """[(cond, body)…], else-body of a normalised if / else-if chain"""
    chain = []
    cur = list(stmts)
    while len(cur) >= 1 and cur[0][0] == "if":
        s = cur[0]
        if len(cur) > 1:
            # `if (c) return x;  rest…`  ≡  `if (c) return x; else { rest… }`
            if s[3] is None and s[2] and s[2][-1][0] == "return":
                chain.append((s[1], list(s[2])))
                cur = cur[1:]
                continue
            break
        chain.append((s[1], list(s[2])))
        cur = list(s[3]) if s[3] else []
    return chain, cur


def dispatch_table(stmts, var, where):
    """A (normalised) switch / if-else-if chain / nested ifs that only tests `var` against constants, read as a
    decision table: ([(constant, body)…] in source order, default body).  Accepted tests: `var == K`, `var != K`,
    `var` (≡ var != 0), disjunctions of `var == K`."""
    rows = []

    def eqs(c):
        if c[0] == "bin" and c[1] == "||":
            a, b = eqs(c[2]), eqs(c[3])
            return None if a is None or b is None else a + b
        if c[0] == "bin" and c[1] == "==" and c[2] == var and c[3][0] in ("num", "id"):
            return [c[3]]
        return None

    def rec(body):
        body = list(body)
        if len(body) >= 1 and body[0][0] == "if":
            s = body[0]
            c = s[1]
            rest = body[1:]
            then, els = list(s[2]), (list(s[3]) if s[3] else None)
            # `if (c) { …return } rest`  ≡  `if (c) {…} else { rest }`
            if els is None and rest and then and then[-1][0] == "return":
                els, rest = rest, []
            if rest:
                return None
            ks = eqs(c)
            if ks is not None:
                for k in ks:
                    rows.append((k, then))
                return rec(els) if els is not None else []
            ne = None
            if c == var:
                ne = ("num", 0)
            elif c[0] == "bin" and c[1] == "!=" and c[2] == var and c[3][0] in ("num", "id"):
                ne = c[3]
            if ne is not None and els is not None:
                r = rec(then)
                rows.append((ne, els))
                return r
            return None
        return body                                   # the default
    dflt = rec(stmts)
    if dflt is None:
        raise ExtractFail(where, f"dispatch on `{show(var)}` not understood")
    return rows, dflt


# ------------------------------------------------------------------------------------------ templates

RESOLVE = r"""
    if ($C0) return false;
    /*?nulA*/ MUST (memchr(path, '\0', pathLength) == NULL) /*?end*/
    if (path[0] == $ABS) {
        if ($C1) return false;
        /*?nulB*/ MUST (memchr(path, '\0', pathLength) == NULL) /*?end*/
        memcpy(result, path, pathLength);
        result[pathLength] = $T1;
    } else {
        $tl = strlen(directory);
        if ($C2) return false;
        /*?nulB*/ MUST (memchr(path, '\0', pathLength) == NULL) /*?end*/
        memcpy(result, directory, $tl);
        if (directory[$tl - 1] != $SEPT) { result[$tl++] = $SEP; }
        memcpy(result + $tl, path, pathLength);
        $tl += pathLength;
        result[$tl] = $T2;
    }
    return true;
"""

# from the positioning of the stream to the end of wasiFDReaddir (the descriptor prologue / lazy opendir before it
# belongs to C13 and is only required to contain the cookie test and the opendir)
READDIR_TAIL = r"""
    if ($SEEKC) { seekdir(descriptor.dir, (long)cookie); } /*?rewind*/ else { rewinddir(descriptor.dir); } /*?end*/
    i32_store($mem, bufferUsedPointer, $used);
    while ($LOOPC) {
        $tell = 0;
        $rem = bufferLength - $used;
        $rp = bufferPointer + $used;
        /*?reset*/ errno = 0; /*?end*/
        $entry = readdir(descriptor.dir);
        if ($entry == NULL) {
            if (errno != 0) { return wasiErrno(); }
            break;
        }
        $tell = telldir(descriptor.dir);
        if ($tell < 0) { return wasiErrno(); }
        $next = $tell;
        $ino = $entry->d_ino;
        $name = $entry->d_name;
        $nl = strlen($name);
        $ft = wasiFileTypeFromMode(DTTOIF($entry->d_type));
        if ($ft == $UNK) {
            strcpy($np, descriptor.path);
            strcat($np, PATH_SEPARATOR_STRING);
            strcat($np, $name);
            if (lstat($np, &$st)) { return wasiErrno(); }
            $ft = wasiFileTypeFromMode($st.st_mode);
        }
        if ($FITC) { $used = bufferLength; break; }
        memset($mem->data + $rp, 0, $DS);
        $STORE1; $STORE2; $STORE3; $STORE4;
        $used += $DS;
        $rem = bufferLength - $used;
        $rp = bufferPointer + $used;
        $adj = $ADJ;
        memcpy($mem->data + $rp, $name, $adj);
        $used += $adj;
    }
    i32_store($mem, bufferUsedPointer, $used);
    return WASI_ERRNO_SUCCESS;
"""

ARGS_SIZES = r"""
    $mem = wasiMemory(instance);
    $sz = 0;
    $i = 0;
    while ($LOOPC) { $sz += $ADD; $i += 1; }
    i32_store($mem, argcPointer, wasi.argc);
    i32_store($mem, argvBufSizePointer, $sz);
    return WASI_ERRNO_SUCCESS;
"""
ENV_SIZES = r"""
    $mem = wasiMemory(instance);
    $i = 0;
    $sz = 0;
    while (wasi.envp[$i] != NULL) { $sz += $ADD; $i += 1; }
    i32_store($mem, envcPointer, wasi.envc);
    i32_store($mem, envpBufSizePointer, $sz);
    return WASI_ERRNO_SUCCESS;
"""
VEC_GET = r"""
    $mem = wasiMemory(instance);
    $i = 0;
    while ($LOOPC) {
        $a = $VEC[$i];
        $len = $LEN;
        memcpy($mem->data + $BUF, $a, $len);
        i32_store($mem, $PTR + $i * $STRIDE, $BUF);
        $BUF += $len;
        $i += 1;
    }
    return WASI_ERRNO_SUCCESS;
"""

RANDOM_CHUNKED = r"""
    $off = 0;
    $res = 0;
    while ($res == 0 && $off < bufferLength) {
        $rem = bufferLength - $off;
        $chunk = $rem > $N ? $N : $rem;
        $res = getentropy($bs + $off, $chunk);
        $off += $chunk;
    }
    if ($res == 0) { return WASI_ERRNO_SUCCESS; }
    if (errno != ENOSYS) { return wasiErrno(); }
"""
RANDOM_SINGLE = r"""
    $res = getentropy($bs, bufferLength);
    if ($res != 0 && $res != ENOSYS) { return wasiErrno(); }
    if ($res == ENOSYS) { $ANY; }
"""


def generate(repo):
    cpath = os.path.join(repo, "wasi", "wasi.c")
    hpath = os.path.join(repo, "wasi", "wasi.h")
    src = cn.Source(repo, os.path.join("wasi", "wasi.c"))
    fb = cn.Source(repo, os.path.join("wasi", "wasi.c"), extra_defs=["-DWASI_FALLBACK_TIMERS_ENABLED=1"])
    N = src.norm
    raw_c = open(cpath, encoding="latin-1").read()
    werr = {k[11:]: v for k, v in N.values.items() if k.startswith("WASI_ERRNO_")}
    out = []
    w = out.append
    w("-- GENERATED by tools/extract/gen_wasipath.py from /repo/wasi/{wasi.c,wasi.h} — do not edit.")
    w("set_option linter.unusedVariables false")
    w("namespace W2c2Verif.Gen.WasiPath")
    w("")

    # ------------------------------------------------------------------ resolvePath
    where = cpath + ":resolvePath"
    if src.params("resolvePath") != ["directory", "path", "pathLength", "result"]:
        raise ExtractFail(where, f"parameters changed: {src.params('resolvePath')}")
    flags, env = match_whole(src, "resolvePath", RESOLVE, "guards / NUL guard / copies")
    if flags["nulA"] and flags["nulB"]:
        raise ExtractFail(where, "NUL guard both before and after the length guards")
    tl = ident(env["tl"], where, "strlen(directory) result")
    names = {"pathLength": "pathLength", tl: "totalLength", "PATH_MAX": "PATH_MAX"}
    m = re.search(r"#ifndef PATH_MAX\s*\n\s*#define PATH_MAX (\d+)", raw_c)
    if not m:
        raise ExtractFail(cpath, "fallback #define PATH_MAX not found")
    w("/-- `#ifndef PATH_MAX / #define PATH_MAX` fallback (Linux takes 4096 from <limits.h>; the model is parametric) -/")
    w(f"def pathMaxFallback : Nat := {m.group(1)}")
    w("")
    for nm, key, doc in (("guardNonEmpty", "C0", "1st guard"), ("guardAbs", "C1", "absolute branch"), ("guardRel", "C2", "relative branch")):
        lean, ctext = lean_guard(env[key], names, where, N)
        w(f"/-- resolvePath, {doc} `MUST ({ctext})` -/")
        w(f"def {nm} (pathLength totalLength PATH_MAX : Nat) : Bool := {lean}")
    w("/-- is there a `MUST (memchr(path, '\\0', pathLength) == NULL)` directly after the first guard? -/")
    w("def rejectsNul : Bool := " + ("true" if (flags["nulA"] or flags["nulB"]) else "false"))
    w("/-- …or is that guard placed in each branch AFTER the branch's length guard (so that an over-long")
    w("    length is rejected before the path bytes are scanned)? -/")
    w("def nulCheckAfterLength : Bool := " + ("true" if flags["nulB"] else "false"))
    w(f"def absChar : UInt8 := {num(env['ABS'], where, 'absolute test')}      -- path[0] == c")
    w(f"def sepTestChar : UInt8 := {num(env['SEPT'], where, 'separator test')}  -- directory[totalLength - 1] != c")
    w(f"def sepChar : UInt8 := {num(env['SEP'], where, 'separator')}      -- result[totalLength++] = c")
    if num(env["T1"], where, "terminator") != 0 or num(env["T2"], where, "terminator") != 0:
        raise ExtractFail(where, "terminator is not NUL")
    w("def terminator : UInt8 := 0")
    w("/-- the memcpy calls of resolvePath in source order (dst, src, n) — fixed by the matched template -/")
    w('def resolvePathMemcpys : List String := ["result, path, pathLength", "result, directory, totalLength", "result + totalLength, path, pathLength"]')
    w("")

    # ------------------------------------------------------------------ readdir
    where = cpath + ":wasiFDReaddir"
    fn = "wasiFDReaddir"
    if src.params(fn) != ["instance", "wasiDirFD", "bufferPointer", "bufferLength", "cookie", "bufferUsedPointer"]:
        raise ExtractFail(where, f"parameters changed: {src.params(fn)}")
    body = nodecl(src.body(fn))
    hits = []
    for fl, text in variants(READDIR_TAIL):
        pat = src.pattern(text)
        for start in range(len(body)):
            e = cn.match_seq(pat, body[start:], {}, prefix=False)
            if e is not None:
                hits.append((fl, e, start))
    if len(hits) != 1:
        raise ExtractFail(where, f"stream positioning / loop / dirent encoding: normal form matches {len(hits)} known shapes:\n" + src.text(fn)[:4000])
    rflags, env, start = hits[0]
    head = body[:start]
    # the part before: lazy opendir with the cookie test (rest of it is C13's)
    lazy = [s for s in head if s[0] == "if" and calls_of(s[2], "opendir")]
    if len(lazy) != 1 or calls_of([s for s in head if s is not lazy[0]], "opendir"):
        raise ExtractFail(where, "lazy `if (descriptor.dir == NULL) { … opendir … }` not recognised")
    if show(lazy[0][1]) != "descriptor.dir == 0":
        raise ExtractFail(where, f"lazy opendir condition: {show(lazy[0][1])}")
    early = [s for s in lazy[0][2] if s[0] == "if" and "cookie" in cn.ids_of(s[1])]
    if len(early) != 1 or not (early[0][2] and early[0][2][0][0] == "return"):
        raise ExtractFail(where, "`if (cookie != WASI_DIRCOOKIE_START) return BADF` in the lazy opendir not recognised")
    for bad in ("rewinddir", "seekdir", "readdir", "telldir", "closedir"):
        if calls_of(head, bad):
            raise ExtractFail(where, f"{bad}() before the stream positioning")
    used = ident(env["used"], where, "bufferUsed")
    rem, nl = ident(env["rem"], where, "bufferRemaining"), ident(env["nl"], where, "nameLength")
    ds = num(env["DS"], where, "WASI_DIRENT_SIZE")
    w(f"def direntSize : Nat := {ds}")
    roles = {show(env["next"]): "next", show(env["ino"]): "inode", nl: "nameLength", show(env["ft"]): "fileType"}
    width = {"i64_store": 8, "i32_store": 4, "i32_store16": 2, "i32_store8": 1}
    stores = []
    for k in ("STORE1", "STORE2", "STORE3", "STORE4"):
        st = env[k]
        if not (st[0] == "expr" and st[1][0] == "call" and st[1][1][0] == "id" and st[1][1][1] in width and len(st[1][2]) == 3 and st[1][2][0] == env["mem"]):
            raise ExtractFail(where, f"dirent header store not recognised: {cn.show_stmts([st])}")
        addr, val = st[1][2][1], st[1][2][2]
        if addr == env["rp"]:
            off = 0
        elif addr[0] == "bin" and addr[1] == "+" and addr[2] == env["rp"] and addr[3][0] == "num":
            off = addr[3][1]
        else:
            raise ExtractFail(where, f"dirent store address `{show(addr)}`")
        if show(val) not in roles:
            raise ExtractFail(where, f"dirent store of `{show(val)}`: not one of next / inode / name length / file type")
        stores.append((roles[show(val)], off, width[st[1][1][1]]))
    w("/-- dirent header stores in source order: (value, offset, width in bytes) -/")
    w("def direntStores : List (String × Nat × Nat) := [" + ", ".join(f"({lean_str(v)}, {o}, {wd})" for v, o, wd in stores) + "]")
    byname = {v: (o, wd) for v, o, wd in stores}
    for v, nm in (("next", "Next"), ("inode", "Ino"), ("nameLength", "Namlen"), ("fileType", "Type")):
        if v not in byname:
            raise ExtractFail(where, f"dirent store of `{v}` not found (stores: {stores})")
        w(f"def dirent{nm}Off : Nat := {byname[v][0]}")
        w(f"def dirent{nm}Width : Nat := {byname[v][1]}")
    start_cookie = N.values.get("WASI_DIRCOOKIE_START")
    if start_cookie is None:
        raise ExtractFail(hpath, "WASI_DIRCOOKIE_START not defined")
    w(f"def dirCookieStart : Nat := {start_cookie}")
    sc = env["SEEKC"]
    if sc == ("id", "cookie") and start_cookie == 0:
        seek_op = "≠"
    elif sc[0] == "bin" and sc[1] in ("!=", "==") and sc[2] == ("id", "cookie") and sc[3] == ("num", start_cookie):
        seek_op = "≠" if sc[1] == "!=" else "="
    else:
        raise ExtractFail(where, f"seekdir guard `{show(sc)}`")
    if show(early[0][1]) != show(sc):
        raise ExtractFail(where, f"cookie test of the lazy opendir `{show(early[0][1])}` differs from the seekdir guard `{show(sc)}`")
    w(f"/-- seekdir is called iff `cookie {'!=' if seek_op == '≠' else '=='} WASI_DIRCOOKIE_START` -/")
    w(f"def seekWhenCookie (cookie : Nat) : Bool := decide (cookie {seek_op} dirCookieStart)")
    w("/-- `else { rewinddir(descriptor.dir); }` on the seekdir test: cookie START rewinds an opened stream -/")
    w("def readdirCallsRewind : Bool := " + ("true" if rflags["rewind"] else "false"))
    w("/-- is `errno = 0;` the statement directly before `entry = readdir(descriptor.dir);`?  (readdir reports")
    w("    end-of-directory by NULL with errno UNCHANGED; the loop tests `errno != 0` afterwards) -/")
    w("def readdirResetsErrno : Bool := " + ("true" if rflags["reset"] else "false"))
    fc = env["FITC"]
    if not (fc[0] == "bin" and fc[1] in ("<", "<=") and fc[2] == env["rem"] and fc[3] == ("num", ds)):
        raise ExtractFail(where, f"`if (bufferRemaining < WASI_DIRENT_SIZE)`: found `{show(fc)}`")
    w(f"/-- header does not fit iff `bufferRemaining {fc[1]} WASI_DIRENT_SIZE` -/")
    w(f"def headerDoesNotFit (bufferRemaining : Nat) : Bool := decide (bufferRemaining {'<' if fc[1] == '<' else '≤'} direntSize)")
    adj = env["ADJ"]
    # normal form of `nameLength > bufferRemaining ? bufferRemaining : nameLength`
    if adj[0] == "cond" and adj[1][0] == "bin" and adj[1][1] in ("<", "<=") and adj[1][2] == env["rem"] and adj[1][3] == env["nl"] \
            and adj[2] == env["rem"] and adj[3] == env["nl"]:
        aop = ">" if adj[1][1] == "<" else "≥"
    else:
        raise ExtractFail(where, f"name clamp `{show(adj)}`")
    w("def adjustedNameLength (nameLength bufferRemaining : Nat) : Nat := "
      f"if nameLength {aop} bufferRemaining then bufferRemaining else nameLength")
    lc = env["LOOPC"]
    if not (lc[0] == "bin" and lc[1] in ("<", "<=") and lc[2] == env["used"] and lc[3] == ("id", "bufferLength")):
        raise ExtractFail(where, f"loop condition `{show(lc)}`")
    w(f"def loopContinues (bufferUsed bufferLength : Nat) : Bool := decide (bufferUsed {lc[1].replace('<=', '≤')} bufferLength)")
    unk = num(env["UNK"], where, "WASI_FILE_TYPE_UNKNOWN")
    # wasiFileTypeFromMode: a chain of `if (S_ISxxx(mode)) return T;`
    fbody = nodecl(src.body("wasiFileTypeFromMode"))
    chain, rest = if_chain(fbody)
    tests = []
    for c, b in chain:
        if not (c[0] == "call" and c[1][0] == "id" and c[1][1].startswith("S_IS") and c[2] == (("id", src.params("wasiFileTypeFromMode")[0]),)
                and len(b) == 1 and b[0][0] == "return" and b[0][1][0] == "num"):
            raise ExtractFail(cpath + ":wasiFileTypeFromMode", "test not of the form `if (S_ISxxx(mode)) return T;`:\n" + src.text("wasiFileTypeFromMode"))
        tests.append((c[1][1], b[0][1][1]))
    if not tests or len(rest) != 1 or rest[0][0] != "return" or rest[0][1][0] != "num":
        raise ExtractFail(cpath + ":wasiFileTypeFromMode", "not recognised:\n" + src.text("wasiFileTypeFromMode"))
    w("/-- wasiFileTypeFromMode: S_IS* tests in source order with the WASI file type returned -/")
    w("def fileTypeTests : List (String × Nat) := [" + ", ".join(f"({lean_str(t)}, {r})" for t, r in tests) + "]")
    w(f"def fileTypeDefault : Nat := {rest[0][1][1]}")
    w(f"def fileTypeUnknown : Nat := {unk}")
    if N.values.get("WASI_FILE_TYPE_UNKNOWN") != unk:
        raise ExtractFail(where, "the lstat fallback is not taken for WASI_FILE_TYPE_UNKNOWN")
    w("")

    # ------------------------------------------------------------------ errno table
    where = cpath + ":wasiErrno"
    rows_e, rest = dispatch_table(nodecl(src.body("wasiErrno")), ("id", "errno"), where)
    cases = []
    for k, b in rows_e:
        if not (k[0] == "id" and len(b) == 1 and b[0][0] == "return" and b[0][1][0] == "num"):
            raise ExtractFail(where, f"case `{show(k)}` not of the form errno == E… → return WASI_ERRNO_…")
        cases.append((k[1], b[0][1][1]))
    if len(cases) < 10 or len(rest) != 1 or rest[0][0] != "return" or rest[0][1][0] != "num":
        raise ExtractFail(where, "wasiErrno dispatch not recognised")
    w("/-- wasiErrno(): host errno name → WASI errno value (source order) -/")
    w("def errnoTable : List (String × Nat) := [")
    w(",\n".join(f"  ({lean_str(e)}, {v})" for e, v in cases))
    w("]")
    w(f"def errnoDefault : Nat := {rest[0][1][1]}")
    w("/-- all WASI errno names of wasi.h with their values -/")
    w("def wasiErrnoValues : List (String × Nat) := [" + ", ".join(f"({lean_str(k)}, {v})" for k, v in werr.items()) + "]")
    for nm in ("SUCCESS", "BADF", "INVAL", "IO", "NOSYS"):
        w(f"def errno{nm.capitalize()} : Nat := {werr[nm]}")
    w("")

    # ------------------------------------------------------------------ path calls: which host call each performs
    calls = []
    for fn, host, nargs in (("wasiPathCreateDirectory", "mkdir", 2), ("wasiPathRemoveDirectory", "rmdir", 1), ("wasiPathUnlinkFile", "unlink", 1),
                            ("wasiPathRename", "rename", 2), ("wasiPathSymlink", "symlink", 2), ("wasiPathReadlink", "readlink", 3),
                            ("wasiPathFilestatGet", None, 2)):
        body = nodecl(src.body(fn))
        where = f"{cpath}:{fn}"
        host_names = ["stat", "lstat"] if host is None else [host]
        found = [(h, c) for h in host_names for c in calls_of(body, h)]
        # no other file-system call may be made
        others = [h for h in ("mkdir", "rmdir", "unlink", "remove", "rename", "symlink", "readlink", "stat", "lstat", "link", "open", "creat", "chmod", "truncate")
                  if h not in host_names and calls_of(body, h)]
        fs_decision = None
        if fn == "wasiPathFilestatGet" and len(found) == 2 and not others:
            # `if (lookupFlags & K) res = f(path, st); else res = g(path, st);` with {f, g} = {stat, lstat}
            flagp = src.params(fn)[2]
            for f1, f2 in (("stat", "lstat"), ("lstat", "stat")):
                e = src.find(fn, f"if ({flagp} & $K) {{ $r = {f1}($p, $st); }} else {{ $r = {f2}($p, $st); }}")
                if e is not None and e["st"] == ("id", src.params(fn)[5]):
                    kv = e["K"][1] if e["K"][0] == "num" else cn_define_value(os.path.join(repo, "wasi", "wasi.h"), e["K"][1]) if e["K"][0] == "id" else 0
                    if kv > 0:
                        fs_decision = (kv, f1, f2)
            if fs_decision is None or len(ids_in_conditions(body, flagp)) != 1:
                raise ExtractFail(where, "two host calls, but not of the form `if (lookupFlags & K) res = stat(…) else res = lstat(…)`:\n" + src.text(fn)[:2500])
            found = [f for f in found if f[0] == fs_decision[1]]
        if len(found) != 1 or others or len(found[0][1][2]) != nargs:
            raise ExtractFail(where, f"host call not recognised (found {[f[0] for f in found]}, others {others}):\n" + src.text(fn)[:2500])
        hname, call = found[0]
        n_res = len(calls_of(body, "resolvePath"))
        calls.append((fn, hname, n_res))
        if fn == "wasiPathCreateDirectory":
            w(f"def mkdirMode : Nat := 0o{num(call[2][1], where, 'mkdir mode'):o}")
        if fn == "wasiPathFilestatGet":
            flagp = src.params(fn)[2]
            lf = cn_define_value(hpath, "WASI_LOOKUP_FLAGS_SYMLINK_FOLLOW")
            w("/-- WASI_LOOKUP_FLAGS_SYMLINK_FOLLOW of wasi.h -/")
            w(f"def lookupSymlinkFollow : Nat := {lf}")
            w("/-- path_filestat_get examines the resolved path with `stat` (follows a symbolic link in the last component)")
            w("    or `lstat` (reports the link itself); the decision as a function of the `lookupFlags` argument, as the")
            w("    preprocessed source of this build (HAS_LSTAT resolved by the preprocessor) makes it -/")
            if fs_decision is None:
                if src.uses(fn, flagp):
                    raise ExtractFail(where, f"`{flagp}` is used, but not in a recognised stat/lstat decision:\n" + src.text(fn)[:2500])
                w(f"def filestatHostCallFor (lookupFlags : Nat) : String := {lean_str(hname)}")
            else:
                w(f"def filestatHostCallFor (lookupFlags : Nat) : String := if lookupFlags &&& {fs_decision[0]} ≠ 0 then {lean_str(fs_decision[1])} else {lean_str(fs_decision[2])}")
            w("/-- does the function mention the `lookupFlags` argument at all? -/")
            w("def filestatUsesLookupFlags : Bool := " + ("true" if src.uses(fn, flagp) else "false"))
        if fn == "wasiPathRename":
            # each guest path is resolved against the path of ITS OWN directory descriptor
            pr = src.params(fn)
            if pr != ["instance", "oldDirFD", "oldPathPointer", "oldPathLength", "newDirFD", "newPathPointer", "newPathLength"]:
                raise ExtractFail(where, f"parameters changed: {pr}")
            pairing = {}
            for side in ("old", "new"):
                e1 = src.need(fn, f"if (!wasiFileDescriptorGet({side}DirFD, &$d)) {{ return $E; }}", f"{side} descriptor lookup")
                e2 = src.need(fn, f"$gp = (char*) $mem->data + {side}PathPointer;", f"{side} guest path pointer")
                rs = [c for c in calls_of(body, "resolvePath") if c[2][1] == e2["gp"]]
                if len(rs) != 1 or rs[0][2][2] != ("id", f"{side}PathLength"):
                    raise ExtractFail(where, f"resolvePath call of the {side} path not recognised")
                pre = rs[0][2][0]
                e3 = src.find(fn, f"{show(pre)} = $dd.path;")
                if e3 is None:
                    raise ExtractFail(where, f"origin of `{show(pre)}` (directory of the {side} path) not recognised")
                pairing[side] = "old" if e3["dd"] == src.need(fn, "if (!wasiFileDescriptorGet(oldDirFD, &$d)) { return $E; }", "old lookup")["d"] else \
                    "new" if e3["dd"] == src.need(fn, "if (!wasiFileDescriptorGet(newDirFD, &$d)) { return $E; }", "new lookup")["d"] else "?"
            w("/-- path_rename: the directory descriptor each guest path is resolved against (old path, new path) -/")
            w(f"def renameResolvesAgainst : String × String := ({lean_str(pairing['old'])}, {lean_str(pairing['new'])})")
        if fn == "wasiPathSymlink":
            env2 = src.need(fn, "if ($C) { return $E; } memcpy($dst, $mem->data + oldPathPointer, oldPathLength); $dst[oldPathLength] = $T;",
                            "link-target length guard + verbatim copy")
            g = N.negate(env2["C"])       # the accepting condition
            c = env2["C"]
            if not (c[0] == "bin" and c[1] in ("<", "<=") and c[2] == ("id", "PATH_MAX") and c[3] == ("id", "oldPathLength")):
                raise ExtractFail(where, f"link-target guard `{show(c)}`")
            op = "≥" if c[1] == "<=" else ">"
            w(f"/-- path_symlink rejects the link target iff `oldPathLength {'>=' if op == '≥' else '>'} PATH_MAX` -/")
            w(f"def symlinkTargetTooLong (oldPathLength PATH_MAX : Nat) : Bool := decide (oldPathLength {op} PATH_MAX)")
            w(f"def symlinkTargetErrno : Nat := {num(env2['E'], where, 'errno')}")
            if num(env2["T"], where, "terminator") != 0:
                raise ExtractFail(where, "link target terminator")
        if fn == "wasiPathReadlink":
            env3 = src.need(fn, "$buf = (char*)$mem->data + bufferPointer;", "guest buffer pointer")
            buf = ident(env3["buf"], where, "buffer")
            env4 = src.need(fn, "$len = readlink($p, $buf2, bufferLength);", "readlink call")
            if env4["buf2"] != ("id", buf):
                raise ExtractFail(where, "readlink does not write to the guest buffer")
            ln = env4["len"]
            kinds = []
            for s in all_stmts(body):
                if s[0] != "expr":
                    continue
                e = s[1]
                if e[0] == "call" and e[1][0] == "id" and re.fullmatch(r"i(32|64)_store(8|16|32)?", e[1][1]):
                    if e[1][1] == "i32_store" and e[2][1] == ("id", "lengthPointer") and e[2][2] == ln:
                        kinds.append("length")
                    else:
                        raise ExtractFail(where, f"unknown store `{show(e)}`")
                elif e[0] == "call" and e[1][0] == "id" and e[1][1] in ("memcpy", "memset", "memmove", "strcpy", "strcat", "sprintf", "strncpy") \
                        and (buf in cn.ids_of(e[2][0]) or "memory" in cn.ids_of(e[2][0])):
                    raise ExtractFail(where, f"unknown write into guest memory `{show(e)}`")
                elif e[0] == "asg" and e[2][0] in ("idx", "un") and buf in cn.ids_of(e[2]):
                    if e[2] == ("idx", ("id", buf), ln) and e[3] == ("num", 0) and e[1] == "=":
                        kinds.append("terminator")
                    else:
                        raise ExtractFail(where, f"unknown write into the guest buffer `{show(e)}`")
            w("/-- wasiPathReadlink: all stores into guest memory besides `readlink(nativeResolvedPath, buffer, bufferLength)`:")
            w("    \"length\" = `i32_store(memory, lengthPointer, length)`, \"terminator\" = `buffer[length] = '\\0'` -/")
            w("def readlinkStores : List String := [" + ", ".join(lean_str(x) for x in kinds) + "]")
            if "length" not in kinds:
                raise ExtractFail(where, "i32_store(memory, lengthPointer, length) not found")
            w("def readlinkTerminatesInGuest : Bool := " + ("true" if "terminator" in kinds else "false"))
    w("/-- (function, host call, number of resolvePath calls) -/")
    w("def pathCalls : List (String × String × Nat) := [" + ", ".join(f"({lean_str(a)}, {lean_str(b)}, {n})" for a, b, n in calls) + "]")
    w("")

    # ------------------------------------------------------------------ clocks
    def clock_dispatch(s, fn, host_call, allow_override):
        """the whole function: `nativeClockID` is chosen by an if-chain on `clockID == K` (a normalised switch) whose
        bodies are `v = CLOCK_X; [if (precision <cmp> N) v = CLOCK_Y;]`, then `host_call(v, &ts)`"""
        where = f"{cpath}:{fn}"
        params = s.params(fn)
        body = nodecl(s.body(fn))
        idx = [i for i, st in enumerate(body) if st[0] == "if" and "clockID" in cn.ids_of(st[1])]
        if len(idx) != 1:
            raise ExtractFail(where, "dispatch on clockID not recognised:\n" + s.text(fn)[:2500])
        table, dflt = dispatch_table([body[idx[0]]], ("id", "clockID"), where)
        chain = sorted([(("bin", "==", ("id", "clockID"), k), b) for k, b in table], key=lambda r: r[0][3][1] if r[0][3][0] == "num" else 1 << 40)
        rows, overrides, var = [], [], None
        for c, b in chain:
            if not (c[0] == "bin" and c[1] == "==" and c[2] == ("id", "clockID") and c[3][0] == "num"):
                raise ExtractFail(where, f"dispatch condition `{show(c)}`")
            if not (b and b[0][0] == "expr" and b[0][1][0] == "asg" and b[0][1][1] == "=" and b[0][1][2][0] == "id" and b[0][1][3][0] == "id"):
                raise ExtractFail(where, f"clock {c[3][1]}: body the model does not know:\n" + "\n".join(cn.show_stmts(b)))
            v = b[0][1][2]
            if var is not None and v != var:
                raise ExtractFail(where, "cases assign different variables")
            var = v
            rows.append((c[3][1], b[0][1][3][1]))
            extra = b[1:]
            if extra:
                ok = (allow_override and len(extra) == 1 and extra[0][0] == "if" and extra[0][3] is None and len(extra[0][2]) == 1
                      and extra[0][2][0][0] == "expr" and extra[0][2][0][1][0] == "asg" and extra[0][2][0][1][2] == var and extra[0][2][0][1][3][0] == "id"
                      and extra[0][1][0] == "bin" and extra[0][1][1] in ("<", "<=", "==", "!=") and {extra[0][1][2][0], extra[0][1][3][0]} == {"num", "id"})
                if not ok:
                    raise ExtractFail(where, f"clock {c[3][1]}: body the model does not know:\n" + "\n".join(cn.show_stmts(b)))
                cnd = extra[0][1]
                if cnd[2][0] == "num":      # N <= precision  →  precision ≥ N
                    lean = f"{cnd[3][1]} {({'<': '>', '<=': '≥', '==': '=', '!=': '≠'})[cnd[1]]} {cnd[2][1]}"
                    pv = cnd[3][1]
                else:
                    lean = f"{cnd[2][1]} {({'<': '<', '<=': '≤', '==': '=', '!=': '≠'})[cnd[1]]} {cnd[3][1]}"
                    pv = cnd[2][1]
                if pv != "precision":
                    raise ExtractFail(where, f"clock {c[3][1]}: condition on `{pv}`")
                overrides.append((c[3][1], lean, extra[0][2][0][1][3][1]))
        if not (len(dflt) == 1 and dflt[0][0] == "return" and dflt[0][1][0] == "num") or len(rows) < 2:
            raise ExtractFail(where, "default of the clock dispatch not recognised")
        after = body[idx[0] + 1:]
        if not (after and after[0][0] == "if" and after[0][1][0] == "call" and after[0][1][1] == ("id", host_call) and after[0][1][2][0] == var):
            raise ExtractFail(where, f"`if ({host_call}(nativeClockID, &ts) != 0) return wasiErrno();` not directly after the dispatch")
        rest_ids = cn.ids_of(tuple(body[:idx[0]] + after))
        if "precision" in params and "precision" in rest_ids:
            raise ExtractFail(where, "`precision` is used outside the clock dispatch")
        return rows, overrides, dflt[0][1][1]

    rows, overrides, dflt = clock_dispatch(src, "wasiClockTimeGet", "clock_gettime", True)
    w("/-- wasiClockTimeGet (POSIX timers branch): WASI clock id → host clock (the assignment every case starts with) -/")
    w("def clockTable : List (Nat × String) := [" + ", ".join(f"({a}, {lean_str(b)})" for a, b in rows) + "]")
    w(f"def clockDefaultErrno : Nat := {dflt}")
    w("/-- a host clock chosen INSTEAD, depending on the `precision` argument (`none`: the case has no such branch;")
    w("    the whole function body was scanned: `precision` occurs nowhere else) -/")
    if overrides:
        arms = " else ".join(f"if clockID = {o[0]} ∧ {o[1]} then some {lean_str(o[2])}" for o in overrides)
        w(f"def clockOverride (clockID precision : Nat) : Option String := {arms} else none")
    else:
        w("def clockOverride (clockID precision : Nat) : Option String := none")
    env5 = src.need("wasiClockTimeGet", "$r = convertTimespec($ts); i64_store($mem, resultPointer, $r); return WASI_ERRNO_SUCCESS;", "conversion and store of the result")
    rows_r, _, dflt_r = clock_dispatch(src, "wasiClockResGet", "clock_getres", False)
    w("/-- wasiClockResGet: its own copy of the table -/")
    w("def clockResTable : List (Nat × String) := [" + ", ".join(f"({a}, {lean_str(b)})" for a, b in rows_r) + "]")
    w(f"def clockResDefaultErrno : Nat := {dflt_r}")

    def conv(s, fn, sub):
        e = s.find(fn, f"return $t.tv_sec * $A + $t.{sub} * $B;") or s.find(fn, f"return $t.tv_sec * $A + $t.{sub};")
        if e is None:
            raise ExtractFail(f"{cpath}:{fn}", "seconds·A + sub-second·B not recognised:\n" + s.text(fn))
        return num(e["A"], fn, "scale"), (num(e["B"], fn, "scale") if "B" in e else 1)
    ts_a, ts_b = conv(src, "convertTimespec", "tv_nsec")
    tv_a, tv_b = conv(src, "convertTimeval", "tv_usec")
    w(f"def nsecPerSec : Nat := {N.values.get('NSEC_PER_SEC', ts_a)}")
    w("/-- convertTimespec = tv_sec · timespecSecScale + tv_nsec · timespecNsecScale -/")
    w(f"def timespecSecScale : Nat := {ts_a}")
    w(f"def timespecNsecScale : Nat := {ts_b}")
    w("/-- convertTimeval = tv_sec · timevalSecScale + tv_usec · timevalUsecScale -/")
    w(f"def timevalSecScale : Nat := {tv_a}")
    w(f"def timevalUsecScale : Nat := {tv_b}")
    # the fallback-timer configuration (-DWASI_FALLBACK_TIMERS_ENABLED=1): gettimeofday / getrusage
    fbody = nodecl(fb.body("wasiClockTimeGet"))
    idx = [i for i, st in enumerate(fbody) if st[0] == "if" and "clockID" in cn.ids_of(st[1])]
    if len(idx) != 1:
        raise ExtractFail(cpath + ":wasiClockTimeGet[fallback]", "dispatch on clockID not recognised:\n" + fb.text("wasiClockTimeGet")[:2500])
    table, fdflt = dispatch_table([fbody[idx[0]]], ("id", "clockID"), cpath + ":wasiClockTimeGet[fallback]")
    chain = sorted([(("bin", "==", ("id", "clockID"), k), b) for k, b in table], key=lambda r: r[0][3][1] if r[0][3][0] == "num" else 1 << 40)
    frows = []
    for c, b in chain:
        b = nodecl(b)
        cid = num(c[3], "fallback clock", "clock id")
        if cn.match_seq(fb.pattern("if (gettimeofday(&$tv, NULL) != 0) { return wasiErrno(); } $r = convertTimeval($tv);"), b, {}) is not None:
            frows.append((cid, "gettimeofday"))
        elif cn.match_seq(fb.pattern("$ret = 0; $ret = getrusage(RUSAGE_SELF, &$ru); if ($ret != 0) { return wasiErrno(); } "
                                      "addTimevals(&$ru.ru_utime, &$ru.ru_stime, &$ru.ru_utime); $r = convertTimeval($ru.ru_utime);"), b, {}) is not None:
            frows.append((cid, "getrusage"))
        else:
            raise ExtractFail(cpath + ":wasiClockTimeGet[fallback]", f"clock {cid}: body the model does not know:\n" + "\n".join(cn.show_stmts(b)))
    if not (len(fdflt) == 1 and fdflt[0][0] == "return" and fdflt[0][1][0] == "num"):
        raise ExtractFail(cpath + ":wasiClockTimeGet[fallback]", "default not recognised")
    if conv(fb, "convertTimeval", "tv_usec") != (tv_a, tv_b):
        raise ExtractFail(cpath, "convertTimeval differs between the two clock configurations")
    w("/-- clock_time_get built with -DWASI_FALLBACK_TIMERS_ENABLED=1: WASI clock id → host call (converted by convertTimeval) -/")
    w("def fallbackClockTable : List (Nat × String) := [" + ", ".join(f"({a}, {lean_str(b)})" for a, b in frows) + "]")
    w(f"def fallbackClockDefaultErrno : Nat := {fdflt[0][1][1]}")
    w("")

    # ------------------------------------------------------------------ random_get
    where = cpath + ":wasiRandomGet"
    e_new = src.find("wasiRandomGet", RANDOM_CHUNKED)
    e_old = src.find("wasiRandomGet", RANDOM_SINGLE)
    if e_new is not None and e_old is None and len(calls_of(src.body("wasiRandomGet"), "getentropy")) == 1:
        w("/-- random_get: getentropy is called for chunks of at most this many bytes; success returns at once;")
        w("    the /dev/random and random() fallbacks are reached only when errno == ENOSYS -/")
        w("def entropyChunked : Bool := true")
        w(f"def entropyChunk : Nat := {num(e_new['N'], where, 'chunk size')}")
        w('def entropyResultTest : String := "result == 0 -> SUCCESS; errno != ENOSYS -> wasiErrno()"')
        bs = e_new["bs"]
    elif e_old is not None and e_new is None and len(calls_of(src.body("wasiRandomGet"), "getentropy")) == 1:
        w("/-- random_get: ONE getentropy call for the whole buffer; its return value is compared with ENOSYS;")
        w("    after a successful call control falls through to the srandom(time)/random() fallback -/")
        w("def entropyChunked : Bool := false")
        w("def entropyChunk : Nat := 0")
        w('def entropyResultTest : String := "result != 0 && result != ENOSYS"')
        bs = e_old["bs"]
    else:
        raise ExtractFail(where, "neither the single-call nor the chunked getentropy shape recognised:\n" + src.text("wasiRandomGet")[:2500])
    src.need("wasiRandomGet", f"{show(bs)} = $mem->data + bufferPointer;", "destination pointer")
    if not calls_of(src.body("wasiRandomGet"), "open") or not calls_of(src.body("wasiRandomGet"), "srandom"):
        raise ExtractFail(where, "/dev/random or random() fallback not recognised")
    w("")

    # ------------------------------------------------------------------ thread-spawn
    fn = "wasi__threadX2Dspawn"
    where = f"{cpath}:{fn}"
    body = nodecl(src.body(fn))
    locs = src.locals_of(fn)
    ctr = locs.get("nextThreadID")
    if ctr is None or ctr[0] != "static" or ctr[2] is None or ctr[2][0] != "num":
        raise ExtractFail(where, f"`nextThreadID` is not a static local with a constant initialiser (the id counter lives across calls): {ctr}")
    e0 = {"N": ctr[2]}
    lp = src.find(fn, "while ($fe->func != NULL) { if ($M) { $sf = $fe->func; break; } $fe += 1; }")
    lookup_guarded = False
    if lp is None:
        # the scan guarded by the result variable itself: skipped when that variable is already set
        lp = src.find(fn, "while ($sf == NULL && $fe->func != NULL) { if ($M) { $sf = $fe->func; break; } $fe += 1; }")
        lookup_guarded = lp is not None
    if lp is None:
        raise ExtractFail(where, "export lookup loop not recognised:\n" + src.text(fn)[:2500])
    if lp["sf"][0] != "id" or lp["sf"][1] not in locs:
        raise ExtractFail(where, f"the lookup result `{show(lp['sf'])}` is not a local variable of the function")
    sf_storage = locs[lp["sf"][1]][0]
    if sf_storage == "automatic":
        if src.find(fn, f"{show(lp['sf'])} = NULL;") is None:
            raise ExtractFail(where, f"automatic lookup result `{show(lp['sf'])}` is not set to NULL before the scan")
    elif locs[lp["sf"][1]][2] != ("num", 0):
        raise ExtractFail(where, f"static lookup result `{show(lp['sf'])}` with initialiser {locs[lp['sf'][1]][2]}")
    for v in ("fe",):
        if lp[v][0] != "id" or locs.get(lp[v][1], ("?",))[0] != "automatic":
            raise ExtractFail(where, f"the export cursor `{show(lp[v])}` is not an automatic local")
    src.need(fn, f"{show(lp['fe'])} = instance->funcExports;", "start of the export table")
    e3 = src.need(fn, f"if ({show(lp['sf'])} == NULL) {{ return $R; }}", "missing-export return")
    blk = src.need(fn, "$blk = calloc(1, sizeof(ThreadStartArg));", "allocation of the ThreadStartArg block")["blk"]
    M = lp["M"]
    fe_name = ("mem", "->", lp["fe"], "name")
    w(f"def firstThreadID : Nat := {num(e0['N'], where, 'first id')}")
    ev = []
    inc = None
    idvar = None

    def visit_expr(e, after_create):
        nonlocal inc, idvar
        if e[0] == "asg" and e[3][0] == "call" and e[3][1] == ("id", "atomic_add_U32"):
            a = e[3][2]
            if not (len(a) == 2 and a[0] == ("un", "&", ("id", "nextThreadID")) and a[1][0] == "num"):
                raise ExtractFail(where, f"fetch-and-add `{show(e)}`")
            inc = a[1][1]
            if e[2][0] == "id":
                idvar = e[2]
                ev.append("fetchAdd:local")
            elif e[2] == ("mem", "->", blk, "threadID"):
                ev.append("fetchAdd:block")
            else:
                raise ExtractFail(where, f"fetch-and-add result stored in `{show(e[2])}`")
            return
        if e[0] == "asg" and e[2] == ("mem", "->", blk, "instance") and e[3][0] == "call" and show(e[3][1]) == "instance->newChild":
            ev.append("newChild")
            return
        if e[0] == "asg" and e[2] == ("mem", "->", blk, "threadID") and idvar is not None and e[3] == idvar:
            ev.append("store:id")
            return
        if e[0] == "asg" and e[2][0] == "mem" and e[2][2] == blk and not after_create and blk not in [x for x in all_exprs(e[3])]:
            return                                     # filling the other fields of the block
        for x in all_exprs(e):
            if x[0] == "mem" and x[2] == blk and "create" in ev:
                ev.append("readBlockAfterCreate")

    def visit(stmts):
        for s in stmts:
            if s[0] == "expr":
                visit_expr(s[1], "create" in ev)
            elif s[0] == "if":
                cr = [c for c in all_exprs(s[1]) if c[0] == "call" and c[1] == ("id", "WASM_THREAD_CREATE")]
                if cr:
                    a = cr[0][2]
                    if not (len(a) == 3 and a[1] == ("id", "wasiThreadSpawn") and a[2] == blk):
                        raise ExtractFail(where, f"thread creation `{show(cr[0])}`")
                    ev.append("create")
                else:
                    visit_expr(s[1], "create" in ev)
                visit(s[2])
                if s[3]:
                    visit(s[3])
            elif s[0] == "while":
                visit(s[2])
            elif s[0] == "return" and s[1] is not None and "create" in ev:
                if idvar is not None and s[1] == idvar:
                    ev.append("return:local")
                elif s[1] == ("mem", "->", blk, "threadID"):
                    ev.append("return:block")
                elif s[1][0] == "num":
                    pass
                else:
                    raise ExtractFail(where, f"return value `{show(s[1])}`")
    visit(body)
    if inc is None or "create" not in ev or not any(x.startswith("return") for x in ev):
        raise ExtractFail(where, f"event sequence not recognised: {ev}\n" + src.text(fn)[:2500])
    w(f"def threadIDIncrement : Nat := {inc}")
    w("def threadIDAtomic : Bool := true   -- atomic_add_U32(&nextThreadID, ..)")
    w("/-- the comparison of the export lookup loop `for (; funcExport->func != NULL; funcExport++)`, which")
    w(f"    takes the FIRST export for which it holds (`break`): `{show(M)}` -/")
    if M[0] == "bin" and M[1] == "==" and M[3] == ("num", 0) and M[2][0] == "call" and M[2][1] == ("id", "strcmp") and M[2][2][0] == fe_name and M[2][2][1][0] == "str":
        w(f"def threadStartExport : String := {lean_str(M[2][2][1][1][1:-1])}")
        w("def exportNameMatches (name : String) : Bool := name == threadStartExport")
    elif M[0] == "bin" and M[1] == "==" and M[3] == ("num", 0) and M[2][0] == "call" and M[2][1] == ("id", "strncmp") and M[2][2][0] == fe_name \
            and M[2][2][1][0] == "str" and M[2][2][2][0] == "num":
        n = M[2][2][2][1]
        w(f"def threadStartExport : String := {lean_str(M[2][2][1][1][1:-1])}")
        w(f"/-- strncmp over the first {n} bytes: equal iff both strings agree on their first {n} bytes (or end, equal, before) -/")
        w(f"def exportNameMatches (name : String) : Bool := (name.toList.take {n}) == (threadStartExport.toList.take {n})")
    else:
        raise ExtractFail(where, f"export comparison not understood: `{show(M)}`")
    w("/-- storage class of the variable the export lookup stores its result in: \"automatic\" = the lookup is done by")
    w("    every call, over the CALLING instance's export table; \"static\" = the result survives the call, for every")
    w("    instance in the process -/")
    w(f"def spawnLookupStorage : String := {lean_str(sf_storage)}")
    w("/-- is the scan skipped when that variable is already non-NULL (`while (startFunc == NULL && …)`)? -/")
    w("def spawnLookupSkippedWhenSet : Bool := " + ("true" if lookup_guarded else "false"))
    w("/-- storage class of the id counter `nextThreadID` (ids are fresh across all calls of the process) -/")
    w(f"def threadCounterStorage : String := {lean_str(ctr[0])}")
    w("/-- thread-spawn: the id-relevant events of the function in source order (traces removed): where the")
    w("    fetch-and-add result goes, newChild, thread creation, any access to the ThreadStartArg block after")
    w("    creation (the new thread frees that block), what is returned -/")
    w("def spawnEvents : List String := [" + ", ".join(lean_str(x) for x in ev) + "]")
    w("def spawnReturnsLocalId : Bool := " + ("true" if ("fetchAdd:local" in ev and "return:local" in ev and "readBlockAfterCreate" not in ev and "return:block" not in ev) else "false"))
    w(f"def spawnMissingExportResult : Int := {num(e3['R'], where, 'missing-export result')}")
    # the thread body: frees its block, one start call
    match_whole(src, "wasiThreadSpawn", r"""
        $a = (ThreadStartArg*) arg; $inst = $a->instance; $tid = $a->threadID; $sarg = $a->startArg; $f = $a->startFunc;
        free($a); $f($inst, $tid, $sarg); return NULL;""", "thread entry (copy fields, free the block, ONE start call)")
    w("")

    # ------------------------------------------------------------------ args / environ
    def add_extra(e, vec, i, where):
        """`strlen(vec[i]) + K`"""
        base = ("call", ("id", "strlen"), (("idx", vec, i),))
        if e == base:
            return 0
        if e[0] == "bin" and e[1] == "+" and e[2] == base and e[3][0] == "num":
            return e[3][1]
        raise ExtractFail(where, f"size accounting `{show(e)}`")

    wasi_argv, wasi_envp = ("mem", ".", ("id", "wasi"), "argv"), ("mem", ".", ("id", "wasi"), "envp")
    for sp in ("wasi_snapshot_preview1__", "wasi_unstable__"):
        fl, e = match_whole(src, sp + "args_sizes_get", ARGS_SIZES, "size loop and the two stores")
        lc = e["LOOPC"]
        if lc == ("bin", "<", e["i"], ("mem", ".", ("id", "wasi"), "argc")):
            use_argc = True
        elif lc == ("idx", wasi_argv, e["i"]):
            use_argc = False
        else:
            raise ExtractFail(cpath + ":args_sizes_get", f"loop condition `{show(lc)}`")
        arg_extra = add_extra(e["ADD"], wasi_argv, e["i"], cpath + ":args_sizes_get")
        fl, e = match_whole(src, sp + "environ_sizes_get", ENV_SIZES, "size loop and the two stores")
        env_extra = add_extra(e["ADD"], wasi_envp, e["i"], cpath + ":environ_sizes_get")
        if sp == "wasi_snapshot_preview1__":
            first = (use_argc, arg_extra, env_extra)
        elif first != (use_argc, arg_extra, env_extra):
            raise ExtractFail(cpath, "the two ABI name spaces of args/environ_sizes_get differ")
    use_argc, arg_extra, env_extra = first
    w("/-- args_sizes_get sums over `argvIndex < wasi.argc` (true) or until `wasi.argv[argvIndex] == NULL` (false) -/")
    w("def argsSizesLoopUsesArgc : Bool := " + ("true" if use_argc else "false"))
    w(f"def argSizeExtra : Nat := {arg_extra}      -- strlen(argv[i]) + {arg_extra}")
    w(f"def envSizeExtra : Nat := {env_extra}")
    for fn, ptr, bufp, vec, nm in (("wasiArgsGet", "argvPointer", "argvBufPointer", wasi_argv, "arg"), ("wasiEnvironGet", "envpPointer", "envpBufPointer", wasi_envp, "env")):
        where = f"{cpath}:{fn}"
        fl, e = match_whole(src, fn, VEC_GET, "copy loop")
        if e["VEC"] != vec or e["PTR"] != ("id", ptr) or e["BUF"] != ("id", bufp):
            raise ExtractFail(where, f"vector / pointer array / buffer: `{show(e['VEC'])}`, `{show(e['PTR'])}`, `{show(e['BUF'])}`")
        lc = e["LOOPC"]
        if nm == "arg" and lc != ("bin", "<", e["i"], ("mem", ".", ("id", "wasi"), "argc")):
            raise ExtractFail(where, f"loop condition `{show(lc)}` (the model copies the first wasi.argc entries)")
        if nm == "env" and lc != ("idx", wasi_envp, e["i"]):
            raise ExtractFail(where, f"loop condition `{show(lc)}` (the model copies up to the NULL entry)")
        ln = e["LEN"]
        base = ("call", ("id", "strlen"), (e["a"],))
        if ln == base:
            extra = 0
        elif ln[0] == "bin" and ln[1] == "+" and ln[2] == base and ln[3][0] == "num":
            extra = ln[3][1]
        else:
            raise ExtractFail(where, f"copy length `{show(ln)}`")
        st = e["STRIDE"]
        stride = {"U32": 4, "U64": 8, "U16": 2, "U8": 1}.get(st[1]) if st[0] == "sizeof" else (st[1] if st[0] == "num" else None)
        if stride is None:
            raise ExtractFail(where, f"pointer stride `{show(st)}`")
        w(f"def {nm}CopyExtra : Nat := {extra}")
        w(f"def {nm}PtrStride : Nat := {stride}")
    w("end W2c2Verif.Gen.WasiPath")
    return "\n".join(out) + "\n"


if __name__ == "__main__":
    import sys
    print(generate(sys.argv[1] if len(sys.argv) > 1 else "/repo"))
