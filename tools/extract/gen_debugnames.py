"""gen_debugnames — regenerate lean/W2c2Verif/Gen/DebugNames.lean: the index arithmetic of the `-g` debug-name lookup
(C10: the name table `module->functionNames` is only as long as the function index space was when the `name` custom section
was read — a name section may legally precede the function section, then the table has importCount entries only).

Writer side (c.c, wasmCWriteFunctionDeclarations, parsed with tools/extract/cmini.py and walked symbolically):
  * the loop variable runs from 0 up to `module->functions.count` (role `declared`);
  * every read `module->functionNames.names[A]`: the index A as an expression over the roles `importCount`
    (`module->functionImports.length`) and `declared`, together with every condition `G < module->functionNames.length` that is
    known to hold where the read is made (conjuncts of the enclosing `if`s; `length > G` is the same condition), and whether the
    pointer read is tested against NULL before it is used (unnamed functions have NULL entries; `%s` of NULL is undefined);
  * `functionNames` must not be mentioned anywhere else in the writer (c.c outside this function, main.c, export.c, debug.c,
    file.c): an access the model does not know is an EXTRACT-FAIL.
Reader side (reader.c, wasmReadNameSection): the slot count reserved (`wasmNamesEnsureCapacity(&…functionNames, R)`), the value
stored into `functionNames.length` (must be the same expression R) and the guard in front of the store `names[I] = …`
(`if (I >= R) → error return / skip the name`), so that the table really has `length` slots (Props/C10Array) and every slot read below
`length` was reserved.

Local names are free (temporaries and `const` locals are substituted), `assertSizeU32(x)` and integer casts are transparent
(they do not change a value that fits 32 bits — stated as hypothesis in Props/C10Names), `a + b` = `b + a`, `length > G` = `G < length`,
nested `if`s = `&&`, `for` = `while`.
"""
import os

import cmini as C

GEN_NAME = "DebugNames"


class ExtractFail(Exception):
    pass


def _fail(what):
    raise ExtractFail("EXTRACT-FAIL gen_debugnames: " + what)


KEY = {"importCount": 0, "declared": 1, "functionCount": 2}


def _key(e):
    if len(e) == 1:
        return (KEY[e[0]], "")
    if e[0] == "lit":
        return (5, "%020d" % e[1])
    return (6, repr(e))


def _canon(e):
    if len(e) == 1 or e[0] == "lit":
        return e
    a, b = _canon(e[1]), _canon(e[2])
    if e[0] in ("add", "mul"):
        def flat(x):
            return flat(x[1]) + flat(x[2]) if x[0] == e[0] else [x]
        items = sorted(flat((e[0], a, b)), key=_key)
        r = items[0]
        for x in items[1:]:
            r = (e[0], r, x)
        return r
    return (e[0], a, b)


def _lean(e):
    if e[0] == "lit":
        return f"(.lit {e[1]})"
    if len(e) == 1:
        return "." + e[0]
    return f"(.{e[0]} {_lean(e[1])} {_lean(e[2])})"


TRANSPARENT_CALLS = {"assertSizeU32"}
INT_TYPES = {"U32", "size_t", "unsignedint", "unsigned", "U64", "unsignedlong"}


def _mem(base, *fields):
    e = ("id", base)
    for f in fields:
        e = ("member", e, f)
    return e


class Walker:
    def __init__(self, module_param, where):
        self.m = module_param
        self.where = where
        self.env = {}             # integer local -> role expression
        self.ptr_from = {}        # pointer local -> index of the lookup it was read by
        self.lookups = []         # dict(guards=[expr], access=expr, stored=bool, unchecked_use=bool)
        self.loop_ok = False
        self.names = _mem(module_param, "functionNames", "names")
        self.length = _mem(module_param, "functionNames", "length")

    def val(self, e):
        """role expression of an integer C expression, or None when it is not one"""
        if e == _mem(self.m, "functionImports", "length"):
            return ("importCount",)
        if e == _mem(self.m, "functions", "count"):
            return ("functionCount",)
        if e[0] == "num":
            return ("lit", e[1])
        if e[0] == "id":
            return self.env.get(e[1])
        if e[0] == "cast" and e[1] in INT_TYPES:
            return self.val(e[2])
        if e[0] == "call" and e[1][0] == "id" and e[1][1] in TRANSPARENT_CALLS and len(e[2]) == 1:
            return self.val(e[2][0])
        if e[0] == "bin" and e[1] in ("+", "-", "*"):
            a, b = self.val(e[2]), self.val(e[3])
            if a is None or b is None:
                return None
            return _canon(({"+": "add", "-": "sub", "*": "mul"}[e[1]], a, b))
        return None

    # ---- expression scan: every read of names[…]
    def scan(self, e, guards, notnull):
        if not isinstance(e, tuple):
            return
        if e[0] == "index" and e[1] == self.names:
            a = self.val(e[2])
            if a is None:
                _fail(f"{self.where}: the index of `functionNames.names[{C.show(e[2])}]` is not an expression over the import count and the loop variable")
            self.lookups.append({"guards": list(guards), "access": a, "stored": False})
            self.scan(e[2], guards, notnull)
            return
        if e[0] == "id" and e[1] in self.ptr_from:
            if e[1] not in notnull:
                self.lookups[self.ptr_from[e[1]]]["unchecked_use"] = True
            return
        for x in e[1:]:
            if isinstance(x, tuple):
                self.scan(x, guards, notnull)
            elif isinstance(x, list):
                for y in x:
                    self.scan(y, guards, notnull)

    def scan_cond(self, c, guards, notnull):
        """reads made while a condition is evaluated; comparing a pointer with NULL is not a use of it, and the right operand of
        `&&` is evaluated under the left one"""
        if c[0] in ("isnull", "notnull"):
            if not (c[1][0] == "id" and c[1][1] in self.ptr_from):
                self.scan(c[1], guards, notnull)
        elif c[0] == "and":
            self.scan_cond(c[1], guards, notnull)
            g, nn = self.conds(c[1], guards, notnull)
            self.scan_cond(c[2], g, nn)
        elif c[0] == "or":
            self.scan_cond(c[1], guards, notnull)
            self.scan_cond(c[2], guards, notnull)
        elif c[0] == "cmp":
            self.scan(c[2], guards, notnull)
            self.scan(c[3], guards, notnull)
        else:
            self.scan(c[1], guards, notnull)

    def conds(self, c, guards, notnull):
        """split a condition into conjuncts: -> (guards', notnull') that hold in the then-branch"""
        g, nn = list(guards), set(notnull)

        def rec(c):
            if c[0] == "and":
                rec(c[1])
                rec(c[2])
            elif c[0] == "cmp":
                op, a, b = c[1], c[2], c[3]
                if a == self.length:
                    op, a, b = C.FLIP[op], b, a
                if b == self.length:
                    v = self.val(a)
                    if v is not None and op == "<":       # `G <= length` does not bound an index: not a guard
                        g.append(v)
            elif c[0] == "notnull" and c[1][0] == "id":
                nn.add(c[1][1])
        rec(c)
        return g, nn

    def stmts(self, body, guards, notnull):
        for s in body:
            self.stmt(s, guards, notnull)

    def stmt(self, s, guards, notnull):
        k = s[0]
        if k == "decl":
            if s[3] is not None and s[3][0] != "braces":
                before = len(self.lookups)
                self.scan(s[3], guards, notnull)
                if s[1] in INT_TYPES:
                    v = self.val(s[3])
                    if v is not None:
                        self.env[s[2]] = v
                elif s[1].endswith("*") and len(self.lookups) == before + 1 and s[3][0] == "index" and s[3][1] == self.names:
                    self.ptr_from[s[2]] = before
                    self.lookups[before]["stored"] = True
        elif k == "assign":
            before = len(self.lookups)
            self.scan(s[3], guards, notnull)
            if s[1][0] == "id":
                if s[1][1] in self.env:
                    v = self.val(s[3]) if s[2] == "=" else None
                    if v is None:
                        del self.env[s[1][1]]
                    else:
                        self.env[s[1][1]] = v
                elif len(self.lookups) == before + 1 and s[3][0] == "index" and s[3][1] == self.names and s[2] == "=":
                    self.ptr_from[s[1][1]] = before
                    self.lookups[before]["stored"] = True
                elif s[1][1] in self.ptr_from:
                    del self.ptr_from[s[1][1]]
            else:
                self.scan(s[1], guards, notnull)
        elif k == "expr":
            self.scan(s[1], guards, notnull)
        elif k == "return":
            if s[1] is not None:
                self.scan(s[1], guards, notnull)
        elif k == "if":
            c = C.norm_cond(s[1])
            self.scan_cond(c, guards, notnull)
            g, nn = self.conds(c, guards, notnull)
            self.stmts(s[2], g, nn)
            if s[3] is not None:
                if c[0] in ("and", "or"):
                    g2, nn2 = guards, notnull         # the negation of a conjunction guarantees no single conjunct
                else:
                    g2, nn2 = self.conds(C.neg_cond(c), guards, notnull)
                self.stmts(s[3], g2, nn2)
        elif k in ("for", "while"):
            if k == "for":
                init, cond, step, body = s[1], s[2], s[3], s[4]
                if init is not None:
                    self.stmt(init, guards, notnull)
            else:
                init, cond, step, body = None, s[1], None, list(s[2])
                if body and body[-1][0] == "assign":
                    step, body = body[-1], body[:-1]
            # the loop variable: compared `<` with functions.count, starts at 0, incremented by 1 as the last action
            c = C.norm_cond(cond) if cond is not None else None
            var = None
            if c and c[0] == "cmp":
                op, a, b = c[1], c[2], c[3]
                if a[0] != "id" and b[0] == "id":
                    op, a, b = C.FLIP[op], b, a
                if a[0] == "id" and op == "<" and self.val(b) == ("functionCount",) and self.env.get(a[1]) == ("lit", 0) \
                        and step == ("assign", a, "=", ("bin", "+", a, ("num", 1))) and not _assigns(body, a[1]):
                    var = a[1]
            if var is None:
                # another loop: it must not touch the name table
                n0 = len(self.lookups)
                if step is not None:
                    self.stmt(step, guards, notnull)
                self.stmts(body, guards, notnull)
                if len(self.lookups) != n0:
                    _fail(f"{self.where}: functionNames is read in a loop that is not `for (i = 0; i < module->functions.count; i++)`")
                return
            self.loop_ok = True
            self.env[var] = ("declared",)
            self.stmts(body, guards, notnull)
            del self.env[var]
        elif k in ("break", "continue"):
            pass
        else:
            _fail(f"{self.where}: statement `{k}` is outside the accepted grammar")


def _assigns(stmts, name):
    for s in stmts:
        if s[0] == "assign" and s[1] == ("id", name):
            return True
        if s[0] == "if" and (_assigns(s[2], name) or (s[3] is not None and _assigns(s[3], name))):
            return True
        if s[0] == "while" and _assigns(s[2], name):
            return True
        if s[0] == "for" and (_assigns(s[4], name) or (s[3] is not None and _assigns([s[3]], name))):
            return True
    return False


def writer_side(repo):
    where = "c.c wasmCWriteFunctionDeclarations"
    raw = open(os.path.join(repo, "w2c2", "c.c")).read()
    src = C.subst_defines(C.strip_comments(raw))
    try:
        ptxt, btxt = C.find_function_text(src, "wasmCWriteFunctionDeclarations", where)
        params = C.parse_params(ptxt, where)
        body = C.normalize(C.parse_body(btxt, where))
    except C.ParseFail as e:
        _fail(str(e))
    # no other mention of the name table in the writer
    outside = src.replace(btxt, "", 1)
    if "functionNames" in outside:
        _fail("c.c mentions `functionNames` outside wasmCWriteFunctionDeclarations: an access the model does not know")
    for f in sorted(os.listdir(os.path.join(repo, "w2c2"))):
        if f.endswith((".c", ".h")) and f not in ("c.c", "reader.c", "module.h") and not f.endswith("_test.c"):
            if "functionNames" in C.strip_comments(open(os.path.join(repo, "w2c2", f)).read()):
                _fail(f"{f} mentions `functionNames`: an access the model does not know")
    mods = [n for t, n in params if t == "WasmModule*"]
    if len(mods) != 1:
        _fail(f"{where}: expected one `const WasmModule*` parameter")
    w = Walker(mods[0], where)
    w.stmts(body, [], set())
    if not w.loop_ok:
        _fail(f"{where}: the loop `for (i = 0; i < module->functions.count; i++)` was not found")
    if not w.lookups:
        _fail(f"{where}: no read of module->functionNames.names[…] found (the -g lookup moved?)")
    for lk in w.lookups:
        lk["null_checked"] = bool(lk["stored"]) and not lk.get("unchecked_use", False)
    return w.lookups


def reader_side(repo):
    """(reserve == length stored, store guarded by `index >= reserve → return`) from wasmReadNameSection"""
    where = "reader.c wasmReadNameSection"
    src = C.subst_defines(C.strip_comments(open(os.path.join(repo, "w2c2", "reader.c")).read()))
    try:
        params, body = C.parse_function(src, "wasmReadNameSection", where)
        body = C.normalize(body)
    except C.ParseFail as e:
        _fail(str(e))
    rd = [n for t, n in params if t == "WasmModuleReader*"]
    if len(rd) != 1:
        _fail(f"{where}: expected one WasmModuleReader* parameter")
    tab = ("member", ("member", ("id", rd[0]), "module"), "functionNames")
    facts = {"reserve": None, "length": None, "store_index": None, "store_guard": False, "order_ok": False, "zeroed": False}
    seq = []

    def walk(stmts, guards):
        for s in stmts:
            if s[0] == "if":
                c = C.norm_cond(s[1])
                # `if (!wasmNamesEnsureCapacity(&tab, R)) { …; return; }`
                if c[0] == "isnull" and c[1][0] == "call" and c[1][1] == ("id", "wasmNamesEnsureCapacity") and len(c[1][2]) == 2 \
                        and c[1][2][0] == ("un", "&", tab) and _returns(s[2]):
                    facts["reserve"] = c[1][2][1]
                    seq.append("reserve")
                    continue
                if c[0] == "cmp" and s[3] is None and facts["reserve"] is not None and facts["length"] is None and _zero_fill(c, s[2], tab, facts["reserve"]):
                    facts["zeroed"] = True            # between the reservation and the length store
                    continue
                if c[0] == "cmp" and _leaves(s[2]) and s[3] is None:
                    guards = guards + [c]
                    continue
                walk(s[2], guards)
                if s[3] is not None:
                    walk(s[3], guards)
            elif s[0] == "while":
                walk(s[2], guards)
            elif s[0] == "for":
                walk(s[4], guards)
            elif s[0] == "assign" and s[1] == ("member", tab, "length") and s[2] == "=":
                facts["length"] = s[3]
                seq.append("length")
            elif s[0] == "assign" and s[1][0] == "index" and s[1][1] == ("member", tab, "names") and s[2] == "=":
                facts["store_index"] = s[1][2]
                seq.append("store")
                for g in guards:
                    op, a, b = g[1], g[2], g[3]
                    if b == s[1][2]:
                        op, a, b = C.FLIP[op], b, a
                    if a == s[1][2] and op == ">=" and b == facts["reserve"]:
                        facts["store_guard"] = True
    walk(body, [])
    facts["order_ok"] = seq[:3] == ["reserve", "length", "store"] and seq.count("reserve") == 1 and seq.count("length") == 1
    return facts


def _returns(stmts):
    return bool(stmts) and stmts[-1][0] == "return"


def _zero_fill(c, body, tab, R):
    """`if (R > tab.length) memset(tab.names + tab.length, 0, (R - tab.length) * sizeof(char*));`  (`tab.length < R`, operands of + and *
    in either order): the slots a growing table gains are zeroed (realloc leaves them indeterminate)"""
    ln, names = ("member", tab, "length"), ("member", tab, "names")
    op, a, b = c[1], c[2], c[3]
    if a == ln:
        op, a, b = C.FLIP[op], b, a
    if not (a == R and b == ln and op in (">", "!=", ">=")):
        return False
    if len(body) != 1 or body[0][0] != "expr":
        return False
    e = C.strip_casts(body[0][1])
    if not (e[0] == "call" and e[1] == ("id", "memset") and len(e[2]) == 3 and e[2][1] == ("num", 0)):
        return False
    dst, size = e[2][0], e[2][2]
    if dst not in (("bin", "+", names, ln), ("bin", "+", ln, names), ("un", "&", ("index", names, ln))):
        return False
    diff = ("bin", "-", R, ln)
    sz = ("sizeof", "char*")
    return size in (("bin", "*", diff, sz), ("bin", "*", sz, diff))


def _leaves(stmts):
    """the statements that follow in the same loop body are not executed: error return, or `continue` (the name is skipped)"""
    return bool(stmts) and stmts[-1][0] in ("return", "continue")


def generate(repo):
    lookups = writer_side(repo)
    rf = reader_side(repo)
    L = []
    A = L.append
    A("/- GENERATED by tools/extract/gen_debugnames.py from /repo/w2c2/{c.c,reader.c} — do not edit. -/")
    A("namespace W2c2Verif.Gen.DebugNames")
    A("")
    A("/-- index expressions of the debug-name lookup: `importCount` = module->functionImports.length, `declared` = the loop")
    A("    variable of wasmCWriteFunctionDeclarations (0 ≤ declared < module->functions.count) -/")
    A("inductive Idx\n  | importCount | declared | functionCount\n  | lit (n : Nat)\n  | add (a b : Idx) | sub (a b : Idx) | mul (a b : Idx)\n  deriving Repr, DecidableEq")
    A("")
    A("/-- one read `module->functionNames.names[access]`; `guards`: every G with `G < module->functionNames.length` known to hold")
    A("    there; `nullChecked`: the pointer read is stored in a local and only used under `local != NULL` -/")
    A("structure Lookup where\n  guards : List Idx\n  access : Idx\n  nullChecked : Bool\n  deriving Repr, DecidableEq")
    A("")
    A("def lookups : List Lookup := [" + ", ".join(
        "{ guards := [" + ", ".join(_lean(g) for g in lk["guards"]) + f"], access := {_lean(lk['access'])}, nullChecked := {str(lk['null_checked']).lower()} }}"
        for lk in lookups) + "]")
    A("")
    A("/-- reader.c wasmReadNameSection: the value stored into `functionNames.length` is the slot count just reserved with")
    A("    wasmNamesEnsureCapacity (reserve, then length, then the stores) -/")
    A(f"def readerLengthIsReserved : Bool := {str(rf['reserve'] is not None and rf['reserve'] == rf['length'] and rf['order_ok']).lower()}")
    A("/-- … and a name is stored at `names[i]` only after `if (i >= <that count>) → error return or skip` -/")
    A(f"def readerStoreGuarded : Bool := {str(bool(rf['store_guard'])).lower()}")
    A("/-- … and when an existing table grows (a second name section after more functions are known) the slots it gains are")
    A("    zeroed between the reservation and the length store (`memset(names + length, 0, (count - length) * sizeof(char*))`): realloc")
    A("    leaves them indeterminate -/")
    A(f"def readerZeroesGrownSlots : Bool := {str(bool(rf['zeroed'])).lower()}")
    A("")
    A("end W2c2Verif.Gen.DebugNames")
    return "\n".join(L) + "\n"


if __name__ == "__main__":
    import sys
    print(generate(sys.argv[1] if len(sys.argv) > 1 else "/repo"), end="")
