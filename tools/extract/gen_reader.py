"""gen_reader — regenerate lean/W2c2Verif/Gen/Reader.lean from the table-like parts of
/repo/w2c2/{leb128.h, section.h, reader.c, reader.h, valuetype.h, table.h, import.h, export.h,
stringbuilder.c, c.c, c.h, w2c2_base.h}.

Function bodies are brought to the canonical form of tools/extract/readernorm.py first (switch = if/else-if chain,
`x == 0` = `!x`, `i++` = `i += 1`, for = while, literals by value, operand order of commutative operators, redundant
parentheses, single-assignment temporaries, …; see there) and local / parameter names are bound by back-references, so a
behaviour-preserving rewrite of those kinds gives the same facts.

What is extracted (every item stops with ExtractFail when the source no longer has the shape the
reader model relies on — the check treats that as a broken tie):
  * int32/int64LEB128MaxByteCount and, per decoder, the loop bound macro, the C type of `value`
    and `shift`, the payload mask, the continuation mask, the sign mask and the sign-extension guard;
  * the WasmSectionID enum and the order of wasmSectionReaders[];
  * the value-type codes of wasmDecodeValueType and the empty block type code;
  * the limits kinds of wasmReadLimits (has max, shared) and the default maxima;
  * the data-segment kind table of wasmReadDataSegment;
  * magic/version bytes, function-type indicator, funcref code, import/export kind enums,
    name-subsection id of function names, the two special custom-section names;
  * the WasmModuleReaderErrorCode enum (order = numeric code);
  * every `char buffer[N]` + `sprintf(buffer, fmt, value)` of stringbuilder.c with the C type of the
    argument, and the implementation-file name buffer/format of c.c.
"""
import os
import re

import readernorm as rn
from readernorm import vpat

GEN_NAME = "Reader"


class ExtractFail(Exception):
    pass


def _read(repo, name):
    return open(os.path.join(repo, "w2c2", name)).read()


def _strip_comments(src):
    return re.sub(r"/\*.*?\*/", lambda m: " " * 0 + "\n" * m.group(0).count("\n"), src, flags=re.S)


def _need(m, what):
    if not m:
        raise ExtractFail("EXTRACT-FAIL gen_reader: cannot find " + what)
    return m


def _func_body(src, name, fname):
    """Text of the body of C function `name` (brace matched)."""
    m = re.search(r"\b" + re.escape(name) + r"\s*\(", src)
    while m:
        # find the closing paren, then expect '{'
        i = m.end()
        depth = 1
        while depth and i < len(src):
            depth += {"(": 1, ")": -1}.get(src[i], 0)
            i += 1
        j = i
        while j < len(src) and src[j] in " \t\r\n":
            j += 1
        if j < len(src) and src[j] == "{":
            k = j + 1
            depth = 1
            while depth and k < len(src):
                depth += {"{": 1, "}": -1}.get(src[k], 0)
                k += 1
            return src[j:k]
        m = re.search(r"\b" + re.escape(name) + r"\s*\(", src[m.end():]) and \
            re.compile(r"\b" + re.escape(name) + r"\s*\(").search(src, m.end())
    raise ExtractFail(f"EXTRACT-FAIL {fname}: function {name} not found")


def _cint(s):
    s = s.strip().rstrip("uUlL")
    neg = s.startswith("-")
    if neg:
        s = s[1:].strip()
    v = int(s, 16) if s.lower().startswith("0x") else int(s, 10)
    return -v if neg else v


def _enum(src, name, fname):
    m = _need(re.search(r"typedef\s+enum\s+" + name + r"\s*\{(.*?)\}\s*" + name + r"\s*;", src, re.S),
              f"enum {name} in {fname}")
    items = []
    nxt = 0
    for part in m.group(1).split(","):
        part = part.strip()
        if not part:
            continue
        mm = _need(re.match(r"^(\w+)(?:\s*=\s*(\S+))?$", part), f"enum item `{part}` of {name}")
        if mm.group(2) is not None:
            nxt = _cint(mm.group(2))
        items.append((mm.group(1), nxt))
        nxt += 1
    return items


def _lean_str(s):
    return '"' + s.replace("\\", "\\\\").replace('"', '\\"') + '"'


def _canon(src, fn, fname):
    try:
        return rn.canon(src, fn, fname)
    except Exception as e:           # cfront.ExtractFail of the normaliser
        raise ExtractFail(str(e) if str(e).startswith("EXTRACT-FAIL") else f"EXTRACT-FAIL {fname}: {fn}: {e}")


def leb_info(repo):
    raw = _read(repo, "leb128.h")
    src = _strip_comments(raw)
    out = {}
    for nm in ("int32LEB128MaxByteCount", "int64LEB128MaxByteCount"):
        m = _need(re.search(r"#define\s+" + nm + r"\s+(\d+)", src), nm)
        out[nm] = int(m.group(1))
    decs = []
    for fn, res in (("leb128ReadU32", "U32"), ("leb128ReadI32", "I32"), ("leb128ReadU64", "U64"), ("leb128ReadI64", "I64")):
        norm = _canon(raw, fn, "leb128.h")
        pars = rn.param_names(raw, fn, "leb128.h")
        if len(pars) != 2:
            raise ExtractFail(f"EXTRACT-FAIL leb128.h: {fn} parameters")
        buf, resp = pars
        # the loop: while (count < MAX && bufferReadByte(buffer, &byte)) { count += 1; value |= PAYLOAD << shift; shift += STEP;
        #                                                                 if (!(CONT & byte)) break; }
        lp = _need(re.search(vpat(r"while \(\({count} < (?P<bound>\w+)\) && bufferReadByte\(" + buf + r", &{byte}\)\) \{ {count} \+= 1; "
                                  r"{value} \|= (?P<payexpr>.*?); {shift} \+= (?P<step>\d+); if \(!\((?P<cont>\d+) & {byte}\)\) \{ break; \} \}"), norm),
                   fn + " loop shape")
        count, byte, value, shift = (lp.group(x) for x in ("count", "byte", "value", "shift"))
        vt = _need(re.search(r"\b(U32|I32|U64|I64) " + value + r" = 0;", norm), fn + " value decl").group(1)
        st = _need(re.search(r"\b(U32|U64) " + shift + r" = 0;", norm), fn + " shift decl").group(1)
        _need(re.search(r"\bsize_t " + count + r" = 0;", norm), fn + " count decl")
        bound = lp.group("bound")
        if bound not in out:
            raise ExtractFail(f"EXTRACT-FAIL leb128.h: {fn} loop bound {bound} unknown")
        signed = vt.startswith("I")
        ut = "U" + vt[1:]
        pe = lp.group("payexpr")
        if signed:
            pay = re.fullmatch(r"\(" + vt + r"\) \(\((U32|U64)\) \((\d+) & " + byte + r"\) << " + shift + r"\)", pe)
        else:
            pay = re.fullmatch(r"\((U32|U64)\) \((\d+) & " + byte + r"\) << " + shift, pe)
        pay = _need(pay, fn + " payload expression `" + pe + "`")
        width = 32 if "32" in vt else 64
        if ("32" in pay.group(1)) != (width == 32) or st[1:] != vt[1:] or vt != res:
            raise ExtractFail(f"EXTRACT-FAIL leb128.h: {fn} widths of value/shift/payload cast differ")
        sign_mask = 0
        guard_bits = 0
        form = ""
        tail = norm[lp.end():]
        if signed:
            sg = _need(re.match(r" if \(\((\d+) & " + byte + r"\) && \(" + shift + r" < 8 \* sizeof\((I32|I64)\)\)\) \{ " + value + r" \|= (.*?); \}", tail),
                       fn + " sign extension shape")
            if sg.group(2) != vt:
                raise ExtractFail(f"EXTRACT-FAIL leb128.h: {fn} sign extension type")
            expr = sg.group(3)
            if expr == f"-(({vt}) 1 << {shift})":
                form = "negOneShifted"        # -((T)1 << shift): signed shift and negation
            elif expr == f"({vt}) (~({ut}) 0 << {shift})":
                form = "unsignedMask"         # (T)(~(UT)0 << shift): unsigned shift, implementation-defined conversion
            else:
                raise ExtractFail(f"EXTRACT-FAIL leb128.h: {fn} sign extension expression `{expr}` not recognised")
            sign_mask = int(sg.group(1))
            guard_bits = width
            tail = tail[sg.end():]
        if tail != f" *{resp} = {value}; return {count}; }}":
            raise ExtractFail(f"EXTRACT-FAIL leb128.h: {fn} epilogue `{tail[:120]}`")
        decs.append(dict(name=fn, width=width, signed=signed, max=out[bound], step=int(lp.group("step")),
                         payload=int(pay.group(2)), cont=int(lp.group("cont")), sign=sign_mask, guard=guard_bits, form=form))
    out["decoders"] = decs
    return out


def reader_info(repo):
    out = {}
    sec = _strip_comments(_read(repo, "section.h"))
    out["sections"] = _enum(sec, "WasmSectionID", "section.h")
    out["namesubs"] = _enum(sec, "WasmNameSubsectionID", "section.h")
    rd_raw = _read(repo, "reader.c")
    rd = _strip_comments(rd_raw)
    m = _need(re.search(r"wasmSectionReaders\[\]\s*=\s*\{(.*?)\};", rd_raw, re.S), "wasmSectionReaders[]")
    rows = re.findall(r"/\*\s*(\w+)\s*\*/\s*(\w+)", m.group(1))
    plain = [x.strip() for x in _strip_comments(m.group(1)).split(",") if x.strip()]
    if [r[1] for r in rows] != plain:
        raise ExtractFail("EXTRACT-FAIL reader.c: wasmSectionReaders[] rows/comments mismatch")
    out["readers"] = plain
    m = _need(re.search(r"wasmMagic\[\]\s*=\s*\{(.*?)\};", rd, re.S), "wasmMagic")
    out["magic"] = [_cint(x) for x in m.group(1).split(",") if x.strip()]
    out["functype"] = _cint(_need(re.search(r"wasmFunctionTypeIndicator\s*=\s*(0x[0-9A-Fa-f]+)", rd), "wasmFunctionTypeIndicator").group(1))
    out["funcref"] = _cint(_need(re.search(r"wasmTableTypeFuncRef\s*=\s*(0x[0-9A-Fa-f]+)", _read(repo, "table.h")), "wasmTableTypeFuncRef").group(1))
    out["debugprefix"] = _need(re.search(r'wasmDebugSectionNamePrefix\s*=\s*"([^"]*)"', rd), "debug prefix").group(1)
    out["namesection"] = _need(re.search(r'wasmNameSectionName\s*=\s*"([^"]*)"', rd), "name section name").group(1)
    out["errors"] = [n for n, _ in _enum(_strip_comments(_read(repo, "reader.h")), "WasmModuleReaderErrorCode", "reader.h")]
    out["importkinds"] = _enum(_strip_comments(_read(repo, "import.h")), "WasmImportKind", "import.h")
    out["exportkinds"] = _enum(_strip_comments(_read(repo, "export.h")), "WasmExportKind", "export.h")
    # value types
    vt_raw = _read(repo, "valuetype.h")
    vt = _strip_comments(vt_raw)
    out["valuetypes_enum"] = _enum(vt, "WasmValueType", "valuetype.h")
    body = _canon(vt_raw, "wasmDecodeValueType", "valuetype.h")
    enc, res = rn.param_names(vt_raw, "wasmDecodeValueType", "valuetype.h")
    sw = _need(re.fullmatch(r"\{ switch \(" + enc + r"\) \{ (.* )default: \{ return false; \} \} \}", body), "wasmDecodeValueType switch")
    codes = re.findall(r"case (-?\d+): \{ \*" + res + r" = (\w+); return true; \} ", sw.group(1))
    if len(codes) != 4 or "".join(f"case {c}: {{ *{res} = {n}; return true; }} " for c, n in codes) != sw.group(1):
        raise ExtractFail("EXTRACT-FAIL valuetype.h: wasmDecodeValueType cases")
    order = {n: i for i, (n, _) in enumerate(out["valuetypes_enum"])}
    if any(n not in order for _, n in codes):
        raise ExtractFail("EXTRACT-FAIL valuetype.h: wasmDecodeValueType returns an unknown enumerator")
    out["valuetypes"] = sorted(((int(c), n) for c, n in codes), key=lambda cn: order[cn[1]])
    body = _canon(vt_raw, "wasmReadBlockType", "valuetype.h")
    bbuf, bres = rn.param_names(vt_raw, "wasmReadBlockType", "valuetype.h")
    mm = _need(re.fullmatch(vpat(r"\{ I32 {v} = 0; MUST \(leb128ReadI32\(" + bbuf + r", &{v}\)\) if \((?P<code>-?\d+) == {v}\) \{ \*" + bres +
                                 r" = NULL; return true; \} return wasmDecodeValueType\({v}, \*" + bres + r"\); \}"), body),
               "wasmReadBlockType shape")
    out["emptyblock"] = int(mm.group("code"))
    body = _canon(vt_raw, "wasmReadValueType", "valuetype.h")
    vbuf, vres = rn.param_names(vt_raw, "wasmReadValueType", "valuetype.h")
    _need(re.fullmatch(vpat(r"\{ I32 {v} = 0; MUST \(leb128ReadI32\(" + vbuf + r", &{v}\)\) return wasmDecodeValueType\({v}, " + vres + r"\); \}"), body),
          "wasmReadValueType reads an I32 LEB")
    # limits
    body = _canon(rd_raw, "wasmReadLimits", "reader.c")
    lp = rn.param_names(rd_raw, "wasmReadLimits", "reader.c")
    if len(lp) != 6:
        raise ExtractFail("EXTRACT-FAIL reader.c: wasmReadLimits parameters")
    lrd, lmin, lmax, lhas, lsh, lerr = lp
    sw = _need(re.search(vpat(r"bufferReadByte\(&" + lrd + r"->buffer, &{k}\).*? switch \({k}\) \{ (?P<groups>.*?) default: \{ static WasmModuleReaderError "
                              r"\w+ = \{wasmModuleReaderInvalidLimitKind\}; \*" + lerr + r" = &\w+; return; \} \} \*" + lerr + r" = NULL; \}$"), body),
               "wasmReadLimits switch on the kind byte")
    kinds = []
    consumed = ""
    for mm in re.finditer(r"case (\d+): \{ (.*?)break; \} ", sw.group("groups") + " "):
        blk = mm.group(2)
        consumed += mm.group(0)
        rd_max = re.fullmatch(r"if \(!leb128ReadU32\(&" + lrd + r"->buffer, " + lmax + r"\)\) \{ static WasmModuleReaderError \w+ = \{wasmModuleReaderInvalidLimitMaximum\}; \*"
                              + lerr + r" = &\w+; return; \} \*" + lhas + r" = true; \*" + lsh + r" = (true|false); ", blk)
        no_max = re.fullmatch(r"\*" + lmax + r" = 0; \*" + lhas + r" = false; \*" + lsh + r" = (true|false); ", blk)
        if rd_max:
            kinds.append((int(mm.group(1)), True, rd_max.group(1) == "true"))
        elif no_max:
            kinds.append((int(mm.group(1)), False, no_max.group(1) == "true"))
        else:
            raise ExtractFail("EXTRACT-FAIL reader.c: wasmReadLimits case body not recognised: " + blk[:160])
    if not kinds or consumed != sw.group("groups") + " ":
        raise ExtractFail("EXTRACT-FAIL reader.c: wasmReadLimits switch")
    out["limitkinds"] = kinds
    body = _canon(rd_raw, "wasmReadMemoryType", "reader.c")
    mp = rn.param_names(rd_raw, "wasmReadMemoryType", "reader.c")
    page = _cint(_need(re.search(r"#define\s+WASM_PAGE_SIZE\s+(\d+)", _read(repo, "w2c2_base.h")), "WASM_PAGE_SIZE").group(1))
    out["memdefault"] = 0xFFFFFFFF // page
    call = _need(re.search(vpat(r"wasmReadLimits\(" + mp[0] + r", {min}, {max}, &{h}, {shared}, " + mp[-1] + r"\);"), body), "wasmReadMemoryType calls wasmReadLimits")
    mx, hs = call.group("max"), call.group("h")
    _need(re.search(r"\bbool " + hs + r" = false;", body), "wasmReadMemoryType hasMax local")
    dflt = r" \{ \*" + mx + r" = UINT32_MAX / WASM_PAGE_SIZE; \}"
    if re.search(r"if \(!\*" + mx + r"\)" + dflt, body):
        out["memrule"] = "maxIsZero"
    elif re.search(r"if \(!" + hs + r" \|\| \(UINT32_MAX / WASM_PAGE_SIZE < \*" + mx + r"\)\)" + dflt, body):
        out["memrule"] = "noMaxOrTooLarge"
    else:
        raise ExtractFail("EXTRACT-FAIL reader.c: wasmReadMemoryType default-maximum rule not recognised")
    body = _canon(rd_raw, "wasmReadTableType", "reader.c")
    tp = rn.param_names(rd_raw, "wasmReadTableType", "reader.c")
    call = _need(re.search(vpat(r"wasmReadLimits\(" + tp[0] + r", {min}, {max}, &{h}, {shared}, " + tp[-1] + r"\);"), body), "wasmReadTableType calls wasmReadLimits")
    mx, hs = call.group("max"), call.group("h")
    out["tabledefault"] = 0xFFFFFFFF
    if re.search(r"if \(!\*" + mx + r"\) \{ \*" + mx + r" = UINT32_MAX; \}", body):
        out["tablerule"] = "maxIsZero"
    elif re.search(r"if \(!" + hs + r"\) \{ \*" + mx + r" = UINT32_MAX; \}", body):
        out["tablerule"] = "noMax"
    else:
        raise ExtractFail("EXTRACT-FAIL reader.c: wasmReadTableType default-maximum rule not recognised")
    # name section: are NULL names guarded in the comparator and in the duplicate scan?
    cmpb = _canon(rd_raw, "wasmFunctionNameEntryCompareNames", "reader.c")
    dupb = _canon(rd_raw, "wasmFunctionNamesRemoveDuplicates", "reader.c")
    LV = r"[\w\[\]\-+ .>]+?"        # an lvalue such as `entries[i - 1]` or `entryA`
    cm = _need(re.search(r"return strcmp\((" + LV + r")(->|\.)name, (" + LV + r")(?:->|\.)name\); \}$", cmpb), "name comparator strcmp")
    a, arrow, b = re.escape(cm.group(1)), re.escape(cm.group(2)), re.escape(cm.group(3))
    g1 = False
    for x, y in ((a, b), (b, a)):
        if re.search(r"if \(!" + x + arrow + r"name \|\| !" + y + arrow + r"name\) \{ return \(NULL != " + a + arrow + r"name\) - \(NULL != "
                     + b + arrow + r"name\); \}", cmpb):
            g1 = True
    dm = re.search(r"if \(!strcmp\((" + LV + r")\.name, (" + LV + r")\.name\)\) \{", dupb)
    if dm is None:
        raise ExtractFail("EXTRACT-FAIL reader.c: name de-duplication shape not recognised")
    a, b = re.escape(dm.group(1)), re.escape(dm.group(2))
    g2 = any(re.search(r"if \(!" + x + r"\.name \|\| !" + y + r"\.name\) \{ continue; \}", dupb) for x, y in ((a, b), (b, a)))
    out["namesnullguard"] = g1 and g2
    # data segment kinds
    body = _canon(rd_raw, "wasmReadDataSegment", "reader.c")
    dp = rn.param_names(rd_raw, "wasmReadDataSegment", "reader.c")
    drd, dres, derr = dp
    use = _need(re.search(vpat(r"leb128ReadU32\(&" + drd + r"->buffer, &{kind}\).*? switch \({kind}\) \{ (?P<groups>.*?) default: \{ static WasmModuleReaderError \w+ = "
                               r"\{wasmModuleReaderInvalidDataSectionKind\}; \*" + derr + r" = &\w+; return; \} \} "
                               r"if \({rmi}\) \{ if \(!leb128ReadU32\(&" + drd + r"->buffer, &{mi}\)\) .*? "
                               r"if \({roe}\) \{ {off} = " + drd + r"->buffer; if \(!wasmReadConstantExpr\(&" + drd + r"->buffer\)\) .*? "
                               + dres + r"->passive = {passive}; \}$"), body), "wasmReadDataSegment shape")
    rmi, roe, pas = use.group("rmi"), use.group("roe"), use.group("passive")
    dk = {}
    consumed = ""
    for mm in re.finditer(r"case (\d+): \{ ((?:\w+ = (?:true|false); ){3})break; \} ", use.group("groups") + " "):
        consumed += mm.group(0)
        asg = dict(re.findall(r"(\w+) = (true|false); ", mm.group(2)))
        if set(asg) != {rmi, roe, pas}:
            raise ExtractFail("EXTRACT-FAIL reader.c: wasmReadDataSegment case does not set the three flags")
        dk[int(mm.group(1))] = (asg[rmi] == "true", asg[roe] == "true", asg[pas] == "true")
    if not dk or consumed != use.group("groups") + " ":
        raise ExtractFail("EXTRACT-FAIL reader.c: wasmReadDataSegment kind table")
    out["datakinds"] = [(k,) + dk[k] for k in sorted(dk)]
    # constant expressions: which opcodes wasmReadConstantExpr accepts, with their byte values
    body = _canon(rd_raw, "wasmReadConstantExpr", "reader.c")
    cbuf, = rn.param_names(rd_raw, "wasmReadConstantExpr", "reader.c")
    mm = _need(re.fullmatch(vpat(r"\{ WasmOpcode {op}; MUST \(wasmOpcodeRead\(" + cbuf + r", &{op}\)\) switch \({op}\) \{ (?P<groups>.*?) default: \{ return false; \} \} "
                                 r"MUST \(wasmOpcodeRead\(" + cbuf + r", &{op}\)\) MUST \({op} == (?P<end>\w+)\) return true; \}"), body),
               "wasmReadConstantExpr shape")
    opv = mm.group("op")
    consts, gget, endop = None, None, None
    consumed = ""
    for g in re.finditer(r"((?:case \w+: )+)\{ (.*?) \} (?=case |$)", mm.group("groups") + " "):
        consumed += g.group(0)
        labels = re.findall(r"case (\w+):", g.group(1))
        blk = g.group(2)
        if blk == "return true;" and len(labels) == 1:
            endop = labels[0]
        elif re.fullmatch(r"WasmConstInstruction (\w+); MUST \(wasmConstInstructionRead\(" + cbuf + ", " + opv + r", &\1\)\) break;", blk):
            consts = labels
        elif re.fullmatch(r"WasmGlobalInstruction (\w+); MUST \(wasmGlobalInstructionRead\(" + cbuf + r", &\1\)\) break;", blk) and len(labels) == 1:
            gget = labels[0]
        else:
            raise ExtractFail("EXTRACT-FAIL reader.c: wasmReadConstantExpr group not recognised: " + blk[:120])
    if consts is None or gget is None or endop is None or consumed != mm.group("groups") + " ":
        raise ExtractFail("EXTRACT-FAIL reader.c: wasmReadConstantExpr groups")
    if endop != mm.group("end"):
        raise ExtractFail("EXTRACT-FAIL reader.c: wasmReadConstantExpr end opcode")
    oph = _strip_comments(_read(repo, "opcode.h"))
    def opval(n):
        return _cint(_need(re.search(r"\b" + n + r"\s*=\s*(0x[0-9A-Fa-f]+)", oph), "opcode " + n).group(1))
    ins_raw = _read(repo, "instruction.c")
    ins = _canon(ins_raw, "wasmConstInstructionRead", "instruction.c")
    ib, iop, ires = rn.param_names(ins_raw, "wasmConstInstructionRead", "instruction.c")
    kinds = {}
    for c, fn in re.findall(r"case (\w+): \{ return 0 < (\w+)\(" + ib + r", &" + ires + r"->value\.\w+\); \}", ins):
        kinds[c] = fn
    ce = []
    for c in consts:
        if c not in kinds:
            raise ExtractFail(f"EXTRACT-FAIL instruction.c: wasmConstInstructionRead has no case {c}")
        ce.append((c, opval(c), kinds[c]))
    out["constexpr"] = sorted(ce, key=lambda r: r[1])
    out["globalget"] = (gget, opval(gget))
    out["endop"] = (endop, opval(endop))
    # name section: what happens to a function index outside the function index space known so far, and whether the part
    # of the name table added by growing it is zeroed
    body = _canon(rd_raw, "wasmReadNameSection", "reader.c")
    np_ = rn.param_names(rd_raw, "wasmReadNameSection", "reader.c")
    R, nerr = re.escape(np_[0]), re.escape(np_[-1])
    ERR = lambda code: r"\{ static WasmModuleReaderError \w+ = \{" + code + r"\}; \*" + nerr + r" = &\w+; return; \}"
    tbl = R + r"->module->functionNames"
    ens = _need(re.search(vpat(r"if \(!wasmNamesEnsureCapacity\(&" + tbl + r", {fc}\)\) " + ERR("wasmModuleReaderAllocationFailed") + r" (?P<between>.*?)"
                               + tbl + r"\.length = {fc}; "), body), "wasmReadNameSection: reserve / length store of the name table")
    fc = ens.group("fc")
    zero = (r"if \(" + tbl + r"\.length < " + fc + r"\) \{ memset\(" + tbl + r"\.length \+ " + tbl + r"\.names, 0, \(" + fc + r" - " + tbl
            + r"\.length\) \* sizeof\(char\*\)\); \} ")
    if ens.group("between") == "":
        out["namegrowzeroed"] = False
    elif re.fullmatch(zero, ens.group("between")):
        out["namegrowzeroed"] = True
    else:
        raise ExtractFail("EXTRACT-FAIL reader.c: wasmReadNameSection: code between wasmNamesEnsureCapacity and the length store not recognised: "
                          + ens.group("between")[:200])
    rd_idx = r"if \(!leb128ReadU32\(&" + R + r"->buffer, &{fi}\)\) " + ERR("wasmModuleReaderInvalidNameSectionFunctionIndex") + " "
    rd_nm = r"if \(!wasmReadName\(&" + R + r"->buffer, &{fn}\)\) " + ERR("wasmModuleReaderInvalidNameSectionFunctionName") + " "
    store = tbl + r"\.names\[{fi}\] = {fn};"
    tail = body[ens.end():]
    if re.search(vpat(rd_idx + rd_nm + r"if \(" + fc + r" <= {fi}\) \{ free\({fn}\); continue; \} " + store), tail):
        out["nameindexrange"] = "skip-after-name"
    elif re.search(vpat(rd_idx + r"if \(" + fc + r" <= {fi}\) " + ERR("wasmModuleReaderInvalidNameSectionFunctionIndex") + " " + rd_nm + store), tail):
        out["nameindexrange"] = "error-before-name"
    else:
        raise ExtractFail("EXTRACT-FAIL reader.c: wasmReadNameSection: handling of a function index >= functionCount not recognised")
    # custom sections: how the two special names are recognised
    body = _canon(rd_raw, "wasmReadCustomSection", "reader.c")
    cp = rn.param_names(rd_raw, "wasmReadCustomSection", "reader.c")
    nm = _need(re.search(vpat(r"wasmReadName\(&" + cp[0] + r"->buffer, &{name}\)"), body), "wasmReadCustomSection reads the name").group("name")
    def match_kind(const):
        if ("!strcmp(%s, %s)" % (nm, const)) in body or ("strcmp(%s, %s)" % (nm, const)) in body:
            if ("strncmp(%s, %s" % (nm, const)) in body:
                raise ExtractFail("EXTRACT-FAIL reader.c: wasmReadCustomSection compares with %s twice" % const)
            return "exact"
        if ("strncmp(%s, %s, strlen(%s))" % (nm, const, const)) in body:
            return "prefix"
        raise ExtractFail("EXTRACT-FAIL reader.c: wasmReadCustomSection: comparison with %s not recognised" % const)
    out["debugmatch"] = match_kind("wasmDebugSectionNamePrefix")
    out["namematch"] = match_kind("wasmNameSectionName")
    dbg = r"strncmp\(%s, wasmDebugSectionNamePrefix, strlen\(wasmDebugSectionNamePrefix\)\)" % nm
    nmt = r"!str(?:cmp\(%s, wasmNameSectionName\)|ncmp\(%s, wasmNameSectionName, strlen\(wasmNameSectionName\)\))" % (nm, nm)
    # the dispatch: debug prefix first, then (reader->debug && name section), else skip
    if not re.search(r"if \(" + dbg + r"\) \{ if \(" + cp[0] + r"->debug && " + nmt + r"\) \{ wasmReadNameSection\(" + cp[0] + r", \w+, \w+\); .*? \} else \{ .*?bufferSkip\(&"
                     + cp[0] + r"->buffer, \w+\); .*?\} \} else \{ .*?wasmDebugSectionsAppend\(.*?bufferSkip\(&" + cp[0] + r"->buffer, \w+\); \}", body):
        raise ExtractFail("EXTRACT-FAIL reader.c: wasmReadCustomSection dispatch shape not recognised")
    if out["debugmatch"] != "prefix":
        raise ExtractFail("EXTRACT-FAIL reader.c: .debug_ sections are not recognised by prefix any more (the model knows no other rule)")
    return out


CTYPE_BITS = {"U32": (32, False), "I32": (32, True), "U64": (64, False), "I64": (64, True), "char": (8, True),
              "unsigned char": (8, False), "signed char": (8, True),
              "F32": (32, None), "F64": (64, None)}


def sprintf_info(repo):
    sb = _strip_comments(_read(repo, "stringbuilder.c"))
    rows = []
    for m in re.finditer(r"bool\s+(\w+)\s*\(\s*StringBuilder\*\s*\w+\s*,\s*(?:const\s+)?(\w+)\s+value\s*\)\s*\{\s*char\s+buffer\[(\d+)\];\s*"
                         r"const int length = sprintf\(buffer,\s*\"([^\"]*)\",\s*(?:\(([\w ]+)\)\s*)?value\);", sb):
        fn, cty, size, fmt = m.group(1), m.group(2), int(m.group(3)), m.group(4)
        if m.group(5):          # the argument is cast before it is passed: that is the type printf sees
            cty = m.group(5).strip()
        if cty not in CTYPE_BITS:
            raise ExtractFail(f"EXTRACT-FAIL stringbuilder.c: {fn}: unknown argument type {cty}")
        rows.append((fn, size, fmt, cty))
    n_sprintf = len(re.findall(r"\bsprintf\s*\(", sb))
    n_buf = len(re.findall(r"char\s+\w+\[\w+\]", sb))
    if n_sprintf != len(rows) or n_buf != len(rows):
        raise ExtractFail(f"EXTRACT-FAIL stringbuilder.c: {n_sprintf} sprintf / {n_buf} buffers but {len(rows)} recognised rows")
    cc = _strip_comments(_read(repo, "c.c"))
    ch = _strip_comments(_read(repo, "c.h"))
    flen = _cint(_need(re.search(r"#define\s+W2C2_IMPL_FILENAME_LENGTH\s+(\d+)", ch), "W2C2_IMPL_FILENAME_LENGTH").group(1))
    fm = _need(re.search(r"char filename\[W2C2_IMPL_FILENAME_LENGTH\s*\+\s*(\d+)\];", cc), "filename buffer in c.c")
    ff = _need(re.search(r"sprintf\(filename,\s*\"([^\"]*)\",\s*filePrefix,\s*fileIndex\);", cc), "filename sprintf in c.c")
    others = [x for x in re.findall(r"\bsprintf\s*\(\s*(\w+)", cc) if x != "filename"]
    if others:
        raise ExtractFail("EXTRACT-FAIL c.c: unexpected sprintf into " + ",".join(others))
    return rows, dict(length=flen, size=flen + int(fm.group(1)), fmt=ff.group(1))


def generate(repo):
    leb = leb_info(repo)
    rd = reader_info(repo)
    rows, fn = sprintf_info(repo)
    L = []
    A = L.append
    A("-- GENERATED by tools/extract/gen_reader.py from /repo/w2c2/{leb128.h,section.h,reader.c,reader.h,valuetype.h,"
      "table.h,import.h,export.h,stringbuilder.c,c.c,c.h} — do not edit.")
    A("namespace W2c2Verif.Gen.Reader")
    A("")
    A("/-- `#define int32LEB128MaxByteCount` (leb128.h) -/")
    A(f"def int32LEB128MaxByteCount : Nat := {leb['int32LEB128MaxByteCount']}")
    A("/-- `#define int64LEB128MaxByteCount` (leb128.h) -/")
    A(f"def int64LEB128MaxByteCount : Nat := {leb['int64LEB128MaxByteCount']}")
    A("")
    A("/-- One LEB128 decoder of leb128.h: width of `value`/`shift`, signedness of `value`, loop bound, shift step,")
    A("    payload mask, continuation mask, sign mask, the `shift < 8*sizeof(T)` guard width (0 = no sign extension) and the")
    A("    form of the sign-extension expression: `negOneShifted` = `-((T)1 << shift)`, `unsignedMask` = `(T)(~(UT)0 << shift)`. -/")
    A("structure LebDecoder where")
    A("  name : String\n  width : Nat\n  signed : Bool\n  maxBytes : Nat\n  step : Nat\n  payloadMask : Nat\n  contMask : Nat\n  signMask : Nat\n  guardBits : Nat\n  signExtForm : String")
    A("  deriving Repr, DecidableEq")
    for d in leb["decoders"]:
        A(f"def {d['name']} : LebDecoder := {{ name := {_lean_str(d['name'])}, width := {d['width']}, signed := {str(d['signed']).lower()}, "
          f"maxBytes := {d['max']}, step := {d['step']}, payloadMask := {d['payload']}, contMask := {d['cont']}, signMask := {d['sign']}, guardBits := {d['guard']}, signExtForm := {_lean_str(d['form'])} }}")
    A("")
    A("/-- `enum WasmSectionID` (section.h): (name, value) -/")
    A("def sectionIDs : List (String × Nat) := [" + ", ".join(f"({_lean_str(n)}, {v})" for n, v in rd["sections"]) + "]")
    A("/-- `wasmSectionReaders[]` (reader.c), in table order: index = section id -/")
    A("def sectionReaders : List String := [" + ", ".join(_lean_str(x) for x in rd["readers"]) + "]")
    A("/-- `enum WasmNameSubsectionID` -/")
    A("def nameSubsectionIDs : List (String × Nat) := [" + ", ".join(f"({_lean_str(n)}, {v})" for n, v in rd["namesubs"]) + "]")
    fnid = dict(rd["namesubs"]).get("wasmNameSubsectionIDFunctionNames")
    if fnid is None:
        raise ExtractFail("EXTRACT-FAIL section.h: wasmNameSubsectionIDFunctionNames")
    A(f"def nameSubsectionFunctionNames : Nat := {fnid}")
    A("/-- `wasmMagic[]` (magic + version) -/")
    A("def magic : List UInt8 := [" + ", ".join(str(x) for x in rd["magic"]) + "]")
    A(f"def functionTypeIndicator : Nat := {rd['functype']}")
    A(f"def tableTypeFuncRef : Nat := {rd['funcref']}")
    A(f"def debugSectionNamePrefix : String := {_lean_str(rd['debugprefix'])}")
    A(f"def nameSectionName : String := {_lean_str(rd['namesection'])}")
    A("/-- wasmReadCustomSection: how the name is compared with the constant: `exact` = strcmp(...) == 0, `prefix` = strncmp(..., strlen(constant)) == 0 -/")
    A(f"def nameSectionMatch : String := {_lean_str(rd['namematch'])}")
    A(f"def debugSectionMatch : String := {_lean_str(rd['debugmatch'])}")
    A("/-- `enum WasmValueType` order -/")
    A("def valueTypeEnum : List (String × Nat) := [" + ", ".join(f"({_lean_str(n)}, {v})" for n, v in rd["valuetypes_enum"]) + "]")
    A("/-- `wasmDecodeValueType`: (signed LEB code, enum constant) -/")
    A("def valueTypeCodes : List (Int × String) := [" + ", ".join(f"(({c} : Int), {_lean_str(n)})" for c, n in rd["valuetypes"]) + "]")
    A(f"def emptyBlockTypeCode : Int := {rd['emptyblock']}")
    A("/-- `wasmReadLimits`: (kind byte, reads a maximum, shared) -/")
    A("def limitKinds : List (Nat × Bool × Bool) := [" + ", ".join(f"({k}, {str(h).lower()}, {str(s).lower()})" for k, h, s in rd["limitkinds"]) + "]")
    A(f"/-- `UINT32_MAX / WASM_PAGE_SIZE` (wasmReadMemoryType) -/\ndef memoryDefaultMax : Nat := {rd['memdefault']}")
    A(f"/-- `UINT32_MAX` (wasmReadTableType) -/\ndef tableDefaultMax : Nat := {rd['tabledefault']}")
    A("/-- when the default maximum replaces the decoded one: `maxIsZero` = `if (*max == 0)`; `noMaxOrTooLarge` = `if (!hasMax || *max > UINT32_MAX / WASM_PAGE_SIZE)`; `noMax` = `if (!hasMax)` -/")
    A(f"def memoryMaxRule : String := {_lean_str(rd['memrule'])}")
    A(f"def tableMaxRule : String := {_lean_str(rd['tablerule'])}")
    A("/-- wasmFunctionNameEntryCompareNames / wasmFunctionNamesRemoveDuplicates skip NULL names -/")
    A(f"def functionNamesNullGuard : Bool := {str(rd['namesnullguard']).lower()}")
    A("/-- wasmReadNameSection, a function index >= the number of functions known at that point: `error-before-name` = rejected with")
    A("    InvalidNameSectionFunctionIndex before the name is read; `skip-after-name` = the name is read, freed and ignored -/")
    A(f"def nameIndexOutOfRange : String := {_lean_str(rd['nameindexrange'])}")
    A("/-- wasmReadNameSection zeroes the entries added when the name table grows (`memset(names + length, 0, …)` before the length store) -/")
    A(f"def nameTableGrowthZeroed : Bool := {str(rd['namegrowzeroed']).lower()}")
    A("/-- `wasmReadDataSegment`: (kind, readMemoryIndex, readOffsetExpression, passive) -/")
    A("def dataKinds : List (Nat × Bool × Bool × Bool) := [" + ", ".join(
        f"({k}, {str(a).lower()}, {str(b).lower()}, {str(c).lower()})" for k, a, b, c in rd["datakinds"]) + "]")
    A("/-- `wasmReadConstantExpr`: accepted constant opcodes (name, byte, immediate reader of wasmConstInstructionRead), global.get, end -/")
    A("def constExprConsts : List (String × Nat × String) := [" + ", ".join(f"({_lean_str(n)}, {v}, {_lean_str(f)})" for n, v, f in rd["constexpr"]) + "]")
    A(f"def opcodeGlobalGet : Nat := {rd['globalget'][1]}")
    A(f"def opcodeEnd : Nat := {rd['endop'][1]}")
    A("/-- `enum WasmImportKind` / `enum WasmExportKind` (the `_count` member is the bound of the kind check) -/")
    A("def importKinds : List (String × Nat) := [" + ", ".join(f"({_lean_str(n)}, {v})" for n, v in rd["importkinds"]) + "]")
    A("def exportKinds : List (String × Nat) := [" + ", ".join(f"({_lean_str(n)}, {v})" for n, v in rd["exportkinds"]) + "]")
    A("/-- `enum WasmModuleReaderErrorCode` in order (index = numeric code) -/")
    A("def errorCodes : List String := [" + ", ".join(_lean_str(x) for x in rd["errors"]) + "]")
    A("")
    A("/-- A fixed stack buffer filled by `sprintf`: function, `char buffer[size]`, format, C type of the argument")
    A("    (bits, signed; for `char`: 8 bits signed as on the x86-64/aarch64-darwin ABIs w2c2 is built for — as a variadic")
    A("    argument it is promoted to `int`). -/")
    A("structure SprintfBuffer where")
    A("  func : String\n  size : Nat\n  format : String\n  argType : String\n  argBits : Nat\n  argSigned : Option Bool")
    A("  deriving Repr, DecidableEq")
    A("def sprintfBuffers : List SprintfBuffer := [")
    items = []
    for f, size, fmt, cty in rows:
        bits, sg = CTYPE_BITS[cty]
        sgs = "none" if sg is None else f"some {str(sg).lower()}"
        items.append(f"  {{ func := {_lean_str(f)}, size := {size}, format := {_lean_str(fmt)}, argType := {_lean_str(cty)}, argBits := {bits}, argSigned := {sgs} }}")
    A(",\n".join(items) + "]")
    A(f"/-- `W2C2_IMPL_FILENAME_LENGTH` (c.h), `char filename[W2C2_IMPL_FILENAME_LENGTH+1]` and its format (c.c) -/")
    A(f"def implFilenameLength : Nat := {fn['length']}")
    A(f"def implFilenameBufferSize : Nat := {fn['size']}")
    A(f"def implFilenameFormat : String := {_lean_str(fn['fmt'])}")
    A("")
    A("end W2c2Verif.Gen.Reader")
    return "\n".join(L) + "\n"


if __name__ == "__main__":
    import sys
    print(generate(sys.argv[1] if len(sys.argv) > 1 else "/repo"))
