"""gen_reader — regenerate lean/W2c2Verif/Gen/Reader.lean from the table-like parts of
/repo/w2c2/{leb128.h, section.h, reader.c, reader.h, valuetype.h, table.h, import.h, export.h,
stringbuilder.c, c.c, c.h, w2c2_base.h}.

What is extracted (every item stops with ExtractFail when the source no longer has the shape the
reader model relies on — the check treats that as a broken tie):
  * int32/int64LEB128MaxByteCount and, per decoder, the loop bound macro, the C type of `value`
    and `shift`, the payload mask, the continuation mask, the sign mask and the sign-extension guard;
  * the WasmSectionID enum and the order of wasmSectionReaders[];
  * the value-type codes of wasmDecodeValueType and the empty block type code;
  * the limits kinds of wasmReadLimits (has max, shared) and the default maxima;
  * the data-segment kind table of wasmReadDataSegment;
  * magic/version bytes, function-type indicator, funcref code, import/export kind enums,
    name-subsection id of function names, the two special custom-section names;
  * the WasmModuleReaderErrorCode enum (order = numeric code);
  * every `char buffer[N]` + `sprintf(buffer, fmt, value)` of stringbuilder.c with the C type of the
    argument, and the implementation-file name buffer/format of c.c.
"""
import os
import re

GEN_NAME = "Reader"


class ExtractFail(Exception):
    pass


def _read(repo, name):
    return open(os.path.join(repo, "w2c2", name)).read()


def _strip_comments(src):
    return re.sub(r"/\*.*?\*/", lambda m: " " * 0 + "\n" * m.group(0).count("\n"), src, flags=re.S)


def _need(m, what):
    if not m:
        raise ExtractFail("EXTRACT-FAIL gen_reader: cannot find " + what)
    return m


def _func_body(src, name, fname):
    """Text of the body of C function `name` (brace matched)."""
    m = re.search(r"\b" + re.escape(name) + r"\s*\(", src)
    while m:
        # find the closing paren, then expect '{'
        i = m.end()
        depth = 1
        while depth and i < len(src):
            depth += {"(": 1, ")": -1}.get(src[i], 0)
            i += 1
        j = i
        while j < len(src) and src[j] in " \t\r\n":
            j += 1
        if j < len(src) and src[j] == "{":
            k = j + 1
            depth = 1
            while depth and k < len(src):
                depth += {"{": 1, "}": -1}.get(src[k], 0)
                k += 1
            return src[j:k]
        m = re.search(r"\b" + re.escape(name) + r"\s*\(", src[m.end():]) and \
            re.compile(r"\b" + re.escape(name) + r"\s*\(").search(src, m.end())
    raise ExtractFail(f"EXTRACT-FAIL {fname}: function {name} not found")


def _cint(s):
    s = s.strip().rstrip("uUlL")
    neg = s.startswith("-")
    if neg:
        s = s[1:].strip()
    v = int(s, 16) if s.lower().startswith("0x") else int(s, 10)
    return -v if neg else v


def _enum(src, name, fname):
    m = _need(re.search(r"typedef\s+enum\s+" + name + r"\s*\{(.*?)\}\s*" + name + r"\s*;", src, re.S),
              f"enum {name} in {fname}")
    items = []
    nxt = 0
    for part in m.group(1).split(","):
        part = part.strip()
        if not part:
            continue
        mm = _need(re.match(r"^(\w+)(?:\s*=\s*(\S+))?$", part), f"enum item `{part}` of {name}")
        if mm.group(2) is not None:
            nxt = _cint(mm.group(2))
        items.append((mm.group(1), nxt))
        nxt += 1
    return items


def _lean_str(s):
    return '"' + s.replace("\\", "\\\\").replace('"', '\\"') + '"'


def leb_info(repo):
    src = _strip_comments(_read(repo, "leb128.h"))
    out = {}
    for nm in ("int32LEB128MaxByteCount", "int64LEB128MaxByteCount"):
        m = _need(re.search(r"#define\s+" + nm + r"\s+(\d+)", src), nm)
        out[nm] = int(m.group(1))
    decs = []
    for fn, res in (("leb128ReadU32", "U32"), ("leb128ReadI32", "I32"), ("leb128ReadU64", "U64"), ("leb128ReadI64", "I64")):
        body = _func_body(src, fn, "leb128.h")
        norm = re.sub(r"\s+", " ", body)
        vt = _need(re.search(r"\b(U32|I32|U64|I64) value = 0;", norm), fn + " value decl").group(1)
        st = _need(re.search(r"\b(U32|U64) shift = 0;", norm), fn + " shift decl").group(1)
        lp = _need(re.search(r"while \(count < (\w+) && bufferReadByte\(buffer, &byte\)\) \{ count\+\+; "
                             r"value \|= (.*?) << shift\)?; shift \+= (\d+); if \(\(byte & (0x[0-9A-Fa-f]+)\) == 0\) \{ break; \} \}", norm),
                   fn + " loop shape")
        bound = lp.group(1)
        if bound not in out:
            raise ExtractFail(f"EXTRACT-FAIL leb128.h: {fn} loop bound {bound} unknown")
        pay = _need(re.search(r"\(\((U32|U64)\) \(byte & (0x[0-9A-Fa-f]+)\)\)$", lp.group(2).replace("(" + vt + ") (", "", 1) if vt.startswith("I") else lp.group(2)),
                    fn + " payload expression `" + lp.group(2) + "`")
        width = 32 if "32" in vt else 64
        if ("32" in pay.group(1)) != (width == 32) or st[1:] != vt[1:]:
            raise ExtractFail(f"EXTRACT-FAIL leb128.h: {fn} widths of value/shift/payload cast differ")
        signed = vt.startswith("I")
        sign_mask = 0
        guard_bits = 0
        form = ""
        if signed:
            sg = _need(re.search(r"if \(\(shift < 8 \* sizeof\((I32|I64)\)\) && \(byte & (0x[0-9A-Fa-f]+)\)\) \{ value \|= (.*?); \}", norm),
                       fn + " sign extension shape")
            if sg.group(1) != vt:
                raise ExtractFail(f"EXTRACT-FAIL leb128.h: {fn} sign extension type")
            expr = sg.group(3)
            ut = "U" + vt[1:]
            if expr == f"-(({vt}) 1 << shift)":
                form = "negOneShifted"        # -((T)1 << shift): signed shift and negation
            elif expr == f"({vt}) (~({ut}) 0 << shift)":
                form = "unsignedMask"         # (T)(~(UT)0 << shift): unsigned shift, implementation-defined conversion
            else:
                raise ExtractFail(f"EXTRACT-FAIL leb128.h: {fn} sign extension expression `{expr}` not recognised")
            sign_mask = _cint(sg.group(2))
            guard_bits = width
        elif "value |= -" in norm:
            raise ExtractFail(f"EXTRACT-FAIL leb128.h: {fn} unexpectedly sign-extends")
        _need(re.search(r"\*result = value; return count; \}$", norm), fn + " epilogue")
        decs.append(dict(name=fn, width=width, signed=signed, max=out[bound], step=int(lp.group(3)),
                         payload=_cint(pay.group(2)), cont=_cint(lp.group(4)), sign=sign_mask, guard=guard_bits, form=form))
    out["decoders"] = decs
    return out


def reader_info(repo):
    out = {}
    sec = _strip_comments(_read(repo, "section.h"))
    out["sections"] = _enum(sec, "WasmSectionID", "section.h")
    out["namesubs"] = _enum(sec, "WasmNameSubsectionID", "section.h")
    rd_raw = _read(repo, "reader.c")
    rd = _strip_comments(rd_raw)
    m = _need(re.search(r"wasmSectionReaders\[\]\s*=\s*\{(.*?)\};", rd_raw, re.S), "wasmSectionReaders[]")
    rows = re.findall(r"/\*\s*(\w+)\s*\*/\s*(\w+)", m.group(1))
    plain = [x.strip() for x in _strip_comments(m.group(1)).split(",") if x.strip()]
    if [r[1] for r in rows] != plain:
        raise ExtractFail("EXTRACT-FAIL reader.c: wasmSectionReaders[] rows/comments mismatch")
    out["readers"] = plain
    m = _need(re.search(r"wasmMagic\[\]\s*=\s*\{(.*?)\};", rd, re.S), "wasmMagic")
    out["magic"] = [_cint(x) for x in m.group(1).split(",") if x.strip()]
    out["functype"] = _cint(_need(re.search(r"wasmFunctionTypeIndicator\s*=\s*(0x[0-9A-Fa-f]+)", rd), "wasmFunctionTypeIndicator").group(1))
    out["funcref"] = _cint(_need(re.search(r"wasmTableTypeFuncRef\s*=\s*(0x[0-9A-Fa-f]+)", _read(repo, "table.h")), "wasmTableTypeFuncRef").group(1))
    out["debugprefix"] = _need(re.search(r'wasmDebugSectionNamePrefix\s*=\s*"([^"]*)"', rd), "debug prefix").group(1)
    out["namesection"] = _need(re.search(r'wasmNameSectionName\s*=\s*"([^"]*)"', rd), "name section name").group(1)
    out["errors"] = [n for n, _ in _enum(_strip_comments(_read(repo, "reader.h")), "WasmModuleReaderErrorCode", "reader.h")]
    out["importkinds"] = _enum(_strip_comments(_read(repo, "import.h")), "WasmImportKind", "import.h")
    out["exportkinds"] = _enum(_strip_comments(_read(repo, "export.h")), "WasmExportKind", "export.h")
    # value types
    vt = _strip_comments(_read(repo, "valuetype.h"))
    out["valuetypes_enum"] = _enum(vt, "WasmValueType", "valuetype.h")
    body = _func_body(vt, "wasmDecodeValueType", "valuetype.h")
    codes = re.findall(r"case\s+(-?0x[0-9A-Fa-f]+|-?\d+)\s*:\s*\*result\s*=\s*(\w+)\s*;\s*return true;", body)
    if len(codes) != 4:
        raise ExtractFail("EXTRACT-FAIL valuetype.h: wasmDecodeValueType cases")
    out["valuetypes"] = [(_cint(c), n) for c, n in codes]
    body = _func_body(vt, "wasmReadBlockType", "valuetype.h")
    out["emptyblock"] = _cint(_need(re.search(r"encodedValueType\s*==\s*(-?\d+)", body), "empty block type").group(1))
    for fn in ("wasmReadValueType", "wasmReadBlockType"):
        _need(re.search(r"MUST\s*\(leb128ReadI32\(buffer, &encodedValueType\)\)", _func_body(vt, fn, "valuetype.h")), fn + " reads an I32 LEB")
    # limits
    body = re.sub(r"\s+", " ", _func_body(rd, "wasmReadLimits", "reader.c"))
    kinds = []
    for mm in re.finditer(r"case (0x[0-9A-Fa-f]+): \{(.*?)break; \}", body):
        blk = mm.group(2)
        has_max = "leb128ReadU32(&reader->buffer, max)" in blk
        if not has_max and "*max = 0;" not in blk:
            raise ExtractFail("EXTRACT-FAIL reader.c: wasmReadLimits case without max")
        sh = _need(re.search(r"\*shared = (true|false);", blk), "limits shared").group(1) == "true"
        kinds.append((_cint(mm.group(1)), has_max, sh))
    if not kinds:
        raise ExtractFail("EXTRACT-FAIL reader.c: wasmReadLimits switch")
    out["limitkinds"] = kinds
    body = re.sub(r"\s+", " ", _func_body(rd, "wasmReadMemoryType", "reader.c"))
    page = _cint(_need(re.search(r"#define\s+WASM_PAGE_SIZE\s+(\d+)", _read(repo, "w2c2_base.h")), "WASM_PAGE_SIZE").group(1))
    out["memdefault"] = 0xFFFFFFFF // page
    if re.search(r"if \(\*max == 0\) \{ \*max = UINT32_MAX / WASM_PAGE_SIZE; \}", body):
        out["memrule"] = "maxIsZero"
    elif re.search(r"if \(!hasMax \|\| \*max > UINT32_MAX / WASM_PAGE_SIZE\) \{ \*max = UINT32_MAX / WASM_PAGE_SIZE; \}", body):
        out["memrule"] = "noMaxOrTooLarge"
    else:
        raise ExtractFail("EXTRACT-FAIL reader.c: wasmReadMemoryType default-maximum rule not recognised")
    body = re.sub(r"\s+", " ", _func_body(rd, "wasmReadTableType", "reader.c"))
    out["tabledefault"] = 0xFFFFFFFF
    if re.search(r"if \(\*max == 0\) \{ \*max = UINT32_MAX; \}", body):
        out["tablerule"] = "maxIsZero"
    elif re.search(r"if \(!hasMax\) \{ \*max = UINT32_MAX; \}", body):
        out["tablerule"] = "noMax"
    else:
        raise ExtractFail("EXTRACT-FAIL reader.c: wasmReadTableType default-maximum rule not recognised")
    # name section: are NULL names guarded in the comparator and in the duplicate scan?
    cmpb = re.sub(r"\s+", " ", _func_body(rd, "wasmFunctionNameEntryCompareNames", "reader.c"))
    dupb = re.sub(r"\s+", " ", _func_body(rd, "wasmFunctionNamesRemoveDuplicates", "reader.c"))
    g1 = bool(re.search(r"if \(entryA->name == NULL \|\| entryB->name == NULL\) \{ return \(entryA->name != NULL\) - \(entryB->name != NULL\); \}", cmpb))
    g2 = bool(re.search(r"if \(previous\.name == NULL \|\| current\.name == NULL\) \{ continue; \}", dupb))
    if "strcmp(entryA->name, entryB->name)" not in cmpb or "strcmp(previous.name, current.name) == 0" not in dupb:
        raise ExtractFail("EXTRACT-FAIL reader.c: name de-duplication shape not recognised")
    out["namesnullguard"] = g1 and g2
    # data segment kinds
    body = re.sub(r"\s+", " ", _func_body(rd, "wasmReadDataSegment", "reader.c"))
    dk = []
    for mm in re.finditer(r"case (0x[0-9A-Fa-f]+): \{? ?readMemoryIndex = (true|false); readOffsetExpression = (true|false); passive = (true|false); break;", body):
        dk.append((_cint(mm.group(1)), mm.group(2) == "true", mm.group(3) == "true", mm.group(4) == "true"))
    if len(dk) < 1:
        raise ExtractFail("EXTRACT-FAIL reader.c: wasmReadDataSegment kind table")
    out["datakinds"] = dk
    # constant expressions: which opcodes wasmReadConstantExpr accepts, with their byte values
    body = re.sub(r"\s+", " ", _func_body(rd, "wasmReadConstantExpr", "reader.c"))
    mm = _need(re.search(r"switch \(opcode\) \{ ((?:case \w+: )+)\{ WasmConstInstruction instruction; MUST \(wasmConstInstructionRead\(buffer, opcode, &instruction\)\) break; \} "
                         r"case (\w+): \{ WasmGlobalInstruction instruction; MUST \(wasmGlobalInstructionRead\(buffer, &instruction\)\) break; \} "
                         r"case (\w+): return true; default: return false; \} MUST \(wasmOpcodeRead\(buffer, &opcode\)\) MUST \(opcode == (\w+)\) return true;", body),
               "wasmReadConstantExpr shape")
    consts = re.findall(r"case (\w+):", mm.group(1))
    if mm.group(3) != mm.group(4):
        raise ExtractFail("EXTRACT-FAIL reader.c: wasmReadConstantExpr end opcode")
    oph = _strip_comments(_read(repo, "opcode.h"))
    def opval(n):
        return _cint(_need(re.search(r"\b" + n + r"\s*=\s*(0x[0-9A-Fa-f]+)", oph), "opcode " + n).group(1))
    ins = re.sub(r"\s+", " ", _func_body(_strip_comments(_read(repo, "instruction.c")), "wasmConstInstructionRead", "instruction.c"))
    kinds = {}
    for c, fn in re.findall(r"case (\w+): return (\w+)\(buffer, &result->value\.\w+\) > 0;", ins):
        kinds[c] = fn
    ce = []
    for c in consts:
        if c not in kinds:
            raise ExtractFail(f"EXTRACT-FAIL instruction.c: wasmConstInstructionRead has no case {c}")
        ce.append((c, opval(c), kinds[c]))
    out["constexpr"] = ce
    out["globalget"] = (mm.group(2), opval(mm.group(2)))
    out["endop"] = (mm.group(3), opval(mm.group(3)))
    return out


CTYPE_BITS = {"U32": (32, False), "I32": (32, True), "U64": (64, False), "I64": (64, True), "char": (8, True),
              "unsigned char": (8, False), "signed char": (8, True),
              "F32": (32, None), "F64": (64, None)}


def sprintf_info(repo):
    sb = _strip_comments(_read(repo, "stringbuilder.c"))
    rows = []
    for m in re.finditer(r"bool\s+(\w+)\s*\(\s*StringBuilder\*\s*\w+\s*,\s*(?:const\s+)?(\w+)\s+value\s*\)\s*\{\s*char\s+buffer\[(\d+)\];\s*"
                         r"const int length = sprintf\(buffer,\s*\"([^\"]*)\",\s*(?:\(([\w ]+)\)\s*)?value\);", sb):
        fn, cty, size, fmt = m.group(1), m.group(2), int(m.group(3)), m.group(4)
        if m.group(5):          # the argument is cast before it is passed: that is the type printf sees
            cty = m.group(5).strip()
        if cty not in CTYPE_BITS:
            raise ExtractFail(f"EXTRACT-FAIL stringbuilder.c: {fn}: unknown argument type {cty}")
        rows.append((fn, size, fmt, cty))
    n_sprintf = len(re.findall(r"\bsprintf\s*\(", sb))
    n_buf = len(re.findall(r"char\s+\w+\[\w+\]", sb))
    if n_sprintf != len(rows) or n_buf != len(rows):
        raise ExtractFail(f"EXTRACT-FAIL stringbuilder.c: {n_sprintf} sprintf / {n_buf} buffers but {len(rows)} recognised rows")
    cc = _strip_comments(_read(repo, "c.c"))
    ch = _strip_comments(_read(repo, "c.h"))
    flen = _cint(_need(re.search(r"#define\s+W2C2_IMPL_FILENAME_LENGTH\s+(\d+)", ch), "W2C2_IMPL_FILENAME_LENGTH").group(1))
    fm = _need(re.search(r"char filename\[W2C2_IMPL_FILENAME_LENGTH\s*\+\s*(\d+)\];", cc), "filename buffer in c.c")
    ff = _need(re.search(r"sprintf\(filename,\s*\"([^\"]*)\",\s*filePrefix,\s*fileIndex\);", cc), "filename sprintf in c.c")
    others = [x for x in re.findall(r"\bsprintf\s*\(\s*(\w+)", cc) if x != "filename"]
    if others:
        raise ExtractFail("EXTRACT-FAIL c.c: unexpected sprintf into " + ",".join(others))
    return rows, dict(length=flen, size=flen + int(fm.group(1)), fmt=ff.group(1))


def generate(repo):
    leb = leb_info(repo)
    rd = reader_info(repo)
    rows, fn = sprintf_info(repo)
    L = []
    A = L.append
    A("-- GENERATED by tools/extract/gen_reader.py from /repo/w2c2/{leb128.h,section.h,reader.c,reader.h,valuetype.h,"
      "table.h,import.h,export.h,stringbuilder.c,c.c,c.h} — do not edit.")
    A("namespace W2c2Verif.Gen.Reader")
    A("")
    A("/-- `#define int32LEB128MaxByteCount` (leb128.h) -/")
    A(f"def int32LEB128MaxByteCount : Nat := {leb['int32LEB128MaxByteCount']}")
    A("/-- `#define int64LEB128MaxByteCount` (leb128.h) -/")
    A(f"def int64LEB128MaxByteCount : Nat := {leb['int64LEB128MaxByteCount']}")
    A("")
    A("/-- One LEB128 decoder of leb128.h: width of `value`/`shift`, signedness of `value`, loop bound, shift step,")
    A("    payload mask, continuation mask, sign mask, the `shift < 8*sizeof(T)` guard width (0 = no sign extension) and the")
    A("    form of the sign-extension expression: `negOneShifted` = `-((T)1 << shift)`, `unsignedMask` = `(T)(~(UT)0 << shift)`. -/")
    A("structure LebDecoder where")
    A("  name : String\n  width : Nat\n  signed : Bool\n  maxBytes : Nat\n  step : Nat\n  payloadMask : Nat\n  contMask : Nat\n  signMask : Nat\n  guardBits : Nat\n  signExtForm : String")
    A("  deriving Repr, DecidableEq")
    for d in leb["decoders"]:
        A(f"def {d['name']} : LebDecoder := {{ name := {_lean_str(d['name'])}, width := {d['width']}, signed := {str(d['signed']).lower()}, "
          f"maxBytes := {d['max']}, step := {d['step']}, payloadMask := {d['payload']}, contMask := {d['cont']}, signMask := {d['sign']}, guardBits := {d['guard']}, signExtForm := {_lean_str(d['form'])} }}")
    A("")
    A("/-- `enum WasmSectionID` (section.h): (name, value) -/")
    A("def sectionIDs : List (String × Nat) := [" + ", ".join(f"({_lean_str(n)}, {v})" for n, v in rd["sections"]) + "]")
    A("/-- `wasmSectionReaders[]` (reader.c), in table order: index = section id -/")
    A("def sectionReaders : List String := [" + ", ".join(_lean_str(x) for x in rd["readers"]) + "]")
    A("/-- `enum WasmNameSubsectionID` -/")
    A("def nameSubsectionIDs : List (String × Nat) := [" + ", ".join(f"({_lean_str(n)}, {v})" for n, v in rd["namesubs"]) + "]")
    fnid = dict(rd["namesubs"]).get("wasmNameSubsectionIDFunctionNames")
    if fnid is None:
        raise ExtractFail("EXTRACT-FAIL section.h: wasmNameSubsectionIDFunctionNames")
    A(f"def nameSubsectionFunctionNames : Nat := {fnid}")
    A("/-- `wasmMagic[]` (magic + version) -/")
    A("def magic : List UInt8 := [" + ", ".join(str(x) for x in rd["magic"]) + "]")
    A(f"def functionTypeIndicator : Nat := {rd['functype']}")
    A(f"def tableTypeFuncRef : Nat := {rd['funcref']}")
    A(f"def debugSectionNamePrefix : String := {_lean_str(rd['debugprefix'])}")
    A(f"def nameSectionName : String := {_lean_str(rd['namesection'])}")
    A("/-- `enum WasmValueType` order -/")
    A("def valueTypeEnum : List (String × Nat) := [" + ", ".join(f"({_lean_str(n)}, {v})" for n, v in rd["valuetypes_enum"]) + "]")
    A("/-- `wasmDecodeValueType`: (signed LEB code, enum constant) -/")
    A("def valueTypeCodes : List (Int × String) := [" + ", ".join(f"(({c} : Int), {_lean_str(n)})" for c, n in rd["valuetypes"]) + "]")
    A(f"def emptyBlockTypeCode : Int := {rd['emptyblock']}")
    A("/-- `wasmReadLimits`: (kind byte, reads a maximum, shared) -/")
    A("def limitKinds : List (Nat × Bool × Bool) := [" + ", ".join(f"({k}, {str(h).lower()}, {str(s).lower()})" for k, h, s in rd["limitkinds"]) + "]")
    A(f"/-- `UINT32_MAX / WASM_PAGE_SIZE` (wasmReadMemoryType) -/\ndef memoryDefaultMax : Nat := {rd['memdefault']}")
    A(f"/-- `UINT32_MAX` (wasmReadTableType) -/\ndef tableDefaultMax : Nat := {rd['tabledefault']}")
    A("/-- when the default maximum replaces the decoded one: `maxIsZero` = `if (*max == 0)`; `noMaxOrTooLarge` = `if (!hasMax || *max > UINT32_MAX / WASM_PAGE_SIZE)`; `noMax` = `if (!hasMax)` -/")
    A(f"def memoryMaxRule : String := {_lean_str(rd['memrule'])}")
    A(f"def tableMaxRule : String := {_lean_str(rd['tablerule'])}")
    A("/-- wasmFunctionNameEntryCompareNames / wasmFunctionNamesRemoveDuplicates skip NULL names -/")
    A(f"def functionNamesNullGuard : Bool := {str(rd['namesnullguard']).lower()}")
    A("/-- `wasmReadDataSegment`: (kind, readMemoryIndex, readOffsetExpression, passive) -/")
    A("def dataKinds : List (Nat × Bool × Bool × Bool) := [" + ", ".join(
        f"({k}, {str(a).lower()}, {str(b).lower()}, {str(c).lower()})" for k, a, b, c in rd["datakinds"]) + "]")
    A("/-- `wasmReadConstantExpr`: accepted constant opcodes (name, byte, immediate reader of wasmConstInstructionRead), global.get, end -/")
    A("def constExprConsts : List (String × Nat × String) := [" + ", ".join(f"({_lean_str(n)}, {v}, {_lean_str(f)})" for n, v, f in rd["constexpr"]) + "]")
    A(f"def opcodeGlobalGet : Nat := {rd['globalget'][1]}")
    A(f"def opcodeEnd : Nat := {rd['endop'][1]}")
    A("/-- `enum WasmImportKind` / `enum WasmExportKind` (the `_count` member is the bound of the kind check) -/")
    A("def importKinds : List (String × Nat) := [" + ", ".join(f"({_lean_str(n)}, {v})" for n, v in rd["importkinds"]) + "]")
    A("def exportKinds : List (String × Nat) := [" + ", ".join(f"({_lean_str(n)}, {v})" for n, v in rd["exportkinds"]) + "]")
    A("/-- `enum WasmModuleReaderErrorCode` in order (index = numeric code) -/")
    A("def errorCodes : List String := [" + ", ".join(_lean_str(x) for x in rd["errors"]) + "]")
    A("")
    A("/-- A fixed stack buffer filled by `sprintf`: function, `char buffer[size]`, format, C type of the argument")
    A("    (bits, signed; for `char`: 8 bits signed as on the x86-64/aarch64-darwin ABIs w2c2 is built for — as a variadic")
    A("    argument it is promoted to `int`). -/")
    A("structure SprintfBuffer where")
    A("  func : String\n  size : Nat\n  format : String\n  argType : String\n  argBits : Nat\n  argSigned : Option Bool")
    A("  deriving Repr, DecidableEq")
    A("def sprintfBuffers : List SprintfBuffer := [")
    items = []
    for f, size, fmt, cty in rows:
        bits, sg = CTYPE_BITS[cty]
        sgs = "none" if sg is None else f"some {str(sg).lower()}"
        items.append(f"  {{ func := {_lean_str(f)}, size := {size}, format := {_lean_str(fmt)}, argType := {_lean_str(cty)}, argBits := {bits}, argSigned := {sgs} }}")
    A(",\n".join(items) + "]")
    A(f"/-- `W2C2_IMPL_FILENAME_LENGTH` (c.h), `char filename[W2C2_IMPL_FILENAME_LENGTH+1]` and its format (c.c) -/")
    A(f"def implFilenameLength : Nat := {fn['length']}")
    A(f"def implFilenameBufferSize : Nat := {fn['size']}")
    A(f"def implFilenameFormat : String := {_lean_str(fn['fmt'])}")
    A("")
    A("end W2c2Verif.Gen.Reader")
    return "\n".join(L) + "\n"


if __name__ == "__main__":
    import sys
    print(generate(sys.argv[1] if len(sys.argv) > 1 else "/repo"))
