"""gen_futex_loads — regenerate lean/W2c2Verif/Gen/FutexLoads.lean: every access of GUEST memory made by the futex runtime
(/repo/futex/futex.c), for C19 ("every load … applies exactly one byte reversal of exactly that width on a big-endian host").

From /repo/w2c2/w2c2_base.h: the endian-aware load accessors, i.e. every function instantiated by
`DEFINE_LOAD{,8,16,32,64}(name, t1, …)` / `DEFINE_ATOMIC_LOAD(name, t1, …)` with the width (bits of `t1`) of the cell it reads —
these are the functions whose big-endian bodies Props/C19.lean proves equal to the little-endian ones.

From futex.c, for every function with a `wasmMemory*` parameter `m`:
  * every call that passes `m` itself as an argument (the callee can reach the guest bytes): callee name, and — when the call
    sits in a branch of the `wait64 ? … : …` selection — the width that branch must read (64 / 32);
  * every mention of `m->data` (a raw touch of the guest bytes), with the callee it is an argument of, if any.
Uses of the descriptor fields `mutex`, `futex`, `futexFree`, `shared` are not guest memory.  Any other field of `m`, or `m`
escaping in another way (assigned, returned, address taken), is an ExtractFail: the tie is broken, never approximated.
"""
import os
import re

from cfront import ExtractFail, lean_str

GEN_NAME = "FutexLoads"
DESCRIPTOR_FIELDS = {"mutex", "futex", "futexFree", "shared"}
BITS = {"U8": 8, "I8": 8, "U16": 16, "I16": 16, "U32": 32, "I32": 32, "F32": 32, "U64": 64, "I64": 64, "F64": 64}


def strip_comments(src):
    return re.sub(r"/\*.*?\*/", lambda m: " " * 0 + re.sub(r"[^\n]", " ", m.group(0)), src, flags=re.S)


def accessors(repo):
    src = strip_comments(open(os.path.join(repo, "w2c2", "w2c2_base.h")).read())
    out = []
    for m in re.finditer(r"^DEFINE_(ATOMIC_LOAD|LOAD(?:8|16|32|64)?)\(\s*(\w+)\s*,\s*(\w+)\s*,", src, re.M):
        if m.group(3) not in BITS:
            raise ExtractFail("w2c2_base.h", f"{m.group(0)}: unknown cell type {m.group(3)}")
        out.append((m.group(2), BITS[m.group(3)], m.group(1).startswith("ATOMIC")))
    if not out:
        raise ExtractFail("w2c2_base.h", "no DEFINE_LOAD*/DEFINE_ATOMIC_LOAD instantiations found")
    return out


def _functions(src):
    """(name, params text, body text, line) of every function definition at top level"""
    res = []
    for m in re.finditer(r"\b(\w+)\s*\(([^()]*)\)\s*\{", src):
        if src[:m.start()].count("{") != src[:m.start()].count("}"):
            continue
        depth, i = 1, m.end()
        while i < len(src) and depth:
            depth += {"{": 1, "}": -1}.get(src[i], 0)
            i += 1
        res.append((m.group(1), m.group(2), src[m.end():i - 1], src[:m.end()].count("\n") + 1))
    return res


def _call_of(body, pos):
    """innermost call `f(` whose parentheses enclose position pos: (name, start, end) or None"""
    depth = 0
    i = pos
    while i > 0:
        i -= 1
        c = body[i]
        if c == ")":
            depth += 1
        elif c == "(":
            if depth == 0:
                m = re.search(r"(\w+)\s*$", body[:i])
                if m and m.group(1) not in ("if", "while", "for", "switch", "return", "sizeof"):
                    d, j = 1, i + 1
                    while j < len(body) and d:
                        d += {"(": 1, ")": -1}.get(body[j], 0)
                        j += 1
                    return m.group(1), m.start(1), j
                # a parenthesised expression or cast: keep looking outwards
            else:
                depth -= 1
    return None


def _ternary_width(body, pos):
    """width demanded by the `wait64 ? A : B` selection around pos: 64 in A, 32 in B, else 0"""
    for m in re.finditer(r"\bwait64\s*\?", body):
        depth, i, colon = 0, m.end(), None
        end = len(body)
        while i < len(body):
            c = body[i]
            if c in "([{":
                depth += 1
            elif c in ")]}":
                if depth == 0:
                    end = i
                    break
                depth -= 1
            elif c == ":" and depth == 0 and colon is None:
                colon = i
            elif c == ";" and depth == 0:
                end = i
                break
            i += 1
        if colon is None:
            raise ExtractFail("futex.c", "`wait64 ?` without `:`")
        if m.end() <= pos < colon:
            return 64
        if colon < pos < end:
            return 32
    return 0


def scan(repo):
    src = strip_comments(open(os.path.join(repo, "futex", "futex.c")).read())
    rows = []
    for name, params, body, line in _functions(src):
        pm = [re.fullmatch(r"\s*wasmMemory\s*\*\s*(\w+)\s*", p) for p in params.split(",")]
        mems = [m.group(1) for m in pm if m]
        for mv in mems:
            for m in re.finditer(r"\b%s\b" % re.escape(mv), body):
                after = body[m.end():]
                fld = re.match(r"\s*->\s*(\w+)", after)
                ln = line + body[:m.start()].count("\n")
                if fld:
                    if fld.group(1) in DESCRIPTOR_FIELDS:
                        continue
                    if fld.group(1) != "data":
                        raise ExtractFail(f"futex.c:{ln}", f"{name}: use of {mv}->{fld.group(1)} is not modelled")
                    call = _call_of(body, m.start())
                    rows.append((name, call[0] if call else "", True, _ternary_width(body, m.start()), ln))
                    continue
                call = _call_of(body, m.start())
                before = body[:m.start()].rstrip()
                if not call or not (before.endswith("(") or before.endswith(",")) or not re.match(r"\s*[,)]", after):
                    raise ExtractFail(f"futex.c:{ln}", f"{name}: `{mv}` is used other than as a plain call argument or through a field")
                rows.append((name, call[0], False, _ternary_width(body, m.start()), ln))
    return rows


def generate(repo):
    acc = accessors(repo)
    rows = scan(repo)
    L = []
    A = L.append
    A("/- GENERATED by tools/extract/gen_futex_loads.py from /repo/futex/futex.c and /repo/w2c2/w2c2_base.h — do not edit. -/")
    A("namespace W2c2Verif.Gen.FutexLoads")
    A("")
    A("/-- an endian-aware load accessor of w2c2_base.h (instantiated by DEFINE_LOAD* / DEFINE_ATOMIC_LOAD) and the width in bits of")
    A("    the memory cell it reads -/")
    A("structure Accessor where")
    A("  name : String")
    A("  bits : Nat")
    A("  atomic : Bool")
    A("  deriving DecidableEq, Repr")
    A("")
    A("def accessors : List Accessor := [")
    A(",\n".join(f"  ⟨{lean_str(n)}, {b}, {'true' if a else 'false'}⟩" for n, b, a in acc))
    A("]")
    A("")
    A("/-- one access of guest memory in futex.c: enclosing function, the callee that receives the memory (\"\" = none), whether the")
    A("    guest bytes are touched directly (`mem->data`), the width the `wait64 ? … : …` selection demands there (0 = none), line -/")
    A("structure Access where")
    A("  func : String")
    A("  callee : String")
    A("  raw : Bool")
    A("  needBits : Nat")
    A("  line : Nat")
    A("  deriving DecidableEq, Repr")
    A("")
    A("def accesses : List Access := [")
    A(",\n".join(f"  ⟨{lean_str(f)}, {lean_str(c)}, {'true' if r else 'false'}, {w}, {ln}⟩" for f, c, r, w, ln in rows))
    A("]")
    A("")
    A("end W2c2Verif.Gen.FutexLoads")
    return "\n".join(L) + "\n"


if __name__ == "__main__":
    import sys
    print(generate(sys.argv[1] if len(sys.argv) > 1 else "/repo"))
