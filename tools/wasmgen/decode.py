"""Independent binary decoder for the supported feature set (spec binary grammar).

    decode(data: bytes) -> wasm_ast.Module
    raises DecodeError   -- malformed per the spec grammar (over-long LEB, bad flags, size mismatch, ...)
    raises Unsupported   -- well-formed-looking but outside the feature set (ref types, SIMD,
                            multi-value, table.* bulk ops, non-MVP element segments, ...)

It does not share code with encode.py (only the opcode table in wasm_ast.py).  It checks syntax
only (no type checking / index validation).
"""
from .wasm_ast import (Module, FuncType, Limits, TableType, GlobalType, Import, Export, Instr, Function,
                       Global, ElemSegment, DataSegment, CustomSection, NameSection, OPS_BY_CODE,
                       VALTYPES, FUNCREF, KIND_BY_CODE, SECTION_ORDER)


class DecodeError(Exception):
    pass


class Unsupported(Exception):
    pass


class Reader(object):
    def __init__(self, data, pos=0, end=None):
        self.d = data
        self.pos = pos
        self.end = len(data) if end is None else end

    def eof(self):
        return self.pos >= self.end

    def byte(self):
        if self.pos >= self.end:
            raise DecodeError('unexpected end')
        b = self.d[self.pos]
        self.pos += 1
        return b

    def peek(self):
        if self.pos >= self.end:
            raise DecodeError('unexpected end')
        return self.d[self.pos]

    def bytes(self, n):
        if n < 0 or self.pos + n > self.end:
            raise DecodeError('unexpected end')
        b = self.d[self.pos:self.pos + n]
        self.pos += n
        return bytes(b)

    def uleb(self, bits=32):
        """uN: at most ceil(N/7) bytes; unused bits of the last byte must be 0."""
        result, shift = 0, 0
        maxbytes = (bits + 6) // 7
        for n in range(maxbytes):
            b = self.byte()
            result |= (b & 0x7F) << shift
            shift += 7
            if not (b & 0x80):
                if result >> bits:
                    raise DecodeError('integer too large')
                return result
        raise DecodeError('integer representation too long')

    def sleb(self, bits):
        """sN: at most ceil(N/7) bytes; unused bits of the last byte must equal the sign bit."""
        result, shift = 0, 0
        maxbytes = (bits + 6) // 7
        for n in range(maxbytes):
            b = self.byte()
            result |= (b & 0x7F) << shift
            shift += 7
            if not (b & 0x80):
                if b & 0x40:
                    result -= 1 << shift
                if result < -(1 << (bits - 1)) or result >= (1 << (bits - 1)):
                    raise DecodeError('integer too large')
                return result
        raise DecodeError('integer representation too long')

    def u32(self):
        return self.uleb(32)

    def name(self, check_utf8=True):
        n = self.u32()
        b = self.bytes(n)
        if check_utf8:
            try:
                b.decode('utf-8')
            except UnicodeDecodeError:
                raise DecodeError('malformed UTF-8 encoding')
        return b

    def sub(self, size):
        if size < 0 or self.pos + size > self.end:
            raise DecodeError('length out of bounds')
        r = Reader(self.d, self.pos, self.pos + size)
        self.pos += size
        return r


def _valtype(r):
    b = r.byte()
    if b in VALTYPES:
        return b
    if b in (0x7B, 0x70, 0x6F):
        raise Unsupported('value type 0x%02x' % b)
    raise DecodeError('malformed value type 0x%02x' % b)


def _limits(r, what):
    flag = r.byte()
    if flag == 0x00:
        return Limits(r.u32())
    if flag == 0x01:
        mn = r.u32()
        return Limits(mn, r.u32())
    if flag == 0x03 and what == 'memory':
        mn = r.u32()
        return Limits(mn, r.u32(), shared=True)
    if flag == 0x02 and what == 'memory':
        raise DecodeError('shared memory must have maximum')
    if flag in (0x04, 0x05, 0x06, 0x07) and what == 'memory':
        raise Unsupported('memory64 limits flag')
    raise DecodeError('malformed limits flag 0x%02x' % flag)


def _tabletype(r):
    et = r.byte()
    if et == 0x6F:
        raise Unsupported('externref table')
    if et != FUNCREF:
        raise DecodeError('malformed reference type')
    return TableType(_limits(r, 'table'), et)


def _globaltype(r):
    vt = _valtype(r)
    m = r.byte()
    if m not in (0, 1):
        raise DecodeError('malformed mutability')
    return GlobalType(vt, m == 1)


def _blocktype(r):
    b = r.peek()
    if b == 0x40:
        r.byte()
        return None
    if b in VALTYPES:
        r.byte()
        return b
    if b in (0x7B, 0x70, 0x6F):
        raise Unsupported('block type 0x%02x' % b)
    v = r.sleb(33)
    if v < 0:
        raise DecodeError('malformed block type')
    raise Unsupported('multi-value block type')


def _zero(r, what):
    b = r.byte()
    if b != 0:
        # a non-zero index here is multi-memory / reference-types territory or malformed
        raise DecodeError('zero byte expected (%s)' % what)


def _instr_seq(r, terminators, depth=0):
    """Parse instructions up to (and consuming) a terminator byte; returns (list, terminator)."""
    if depth > 5000:
        raise DecodeError('nesting too deep')
    out = []
    while True:
        b = r.byte()
        if b in terminators:
            return out, b
        if b == 0x0B or b == 0x05:
            raise DecodeError('unexpected else/end')
        if b in (0xFC, 0xFE):
            sub = r.u32()
            info = OPS_BY_CODE.get((b, sub))
            if info is None:
                if b == 0xFC and 12 <= sub <= 17:
                    raise Unsupported('table bulk op 0xFC %d' % sub)
                raise DecodeError('illegal opcode 0x%02x %d' % (b, sub))
        else:
            info = OPS_BY_CODE.get((None, b))
            if info is None:
                if b in (0xFD, 0xFB, 0x1C, 0x25, 0x26, 0xD0, 0xD1, 0xD2, 0x12, 0x13, 0x06, 0x07,
                         0x08, 0x09, 0x0A, 0x14, 0x15, 0x18, 0x19, 0xD3, 0xD4, 0xD5, 0xD6):
                    raise Unsupported('opcode 0x%02x' % b)
                raise DecodeError('illegal opcode 0x%02x' % b)
        k = info.imm
        if k == 'none':
            ins = Instr(info.name)
        elif k == 'block':
            bt = _blocktype(r)
            body, _ = _instr_seq(r, (0x0B,), depth + 1)
            ins = Instr(info.name, bt, body=body)
        elif k == 'if':
            bt = _blocktype(r)
            body, t = _instr_seq(r, (0x0B, 0x05), depth + 1)
            els = None
            if t == 0x05:
                els, _ = _instr_seq(r, (0x0B,), depth + 1)
            ins = Instr('if', bt, body=body, else_body=els)
        elif k in ('label', 'func', 'local', 'global', 'data'):
            ins = Instr(info.name, r.u32())
        elif k == 'br_table':
            n = r.u32()
            if n > r.end - r.pos:
                raise DecodeError('br_table count out of bounds')
            labels = [r.u32() for _ in range(n)]
            ins = Instr('br_table', labels, r.u32())
        elif k == 'call_indirect':
            ti = r.u32()
            tb = r.u32()       # tableidx: a u32, any padding (`80 00`, LLVM's relocatable `80 80 80 80 00`)
            if tb != 0:
                raise Unsupported('call_indirect on table %d' % tb)
            ins = Instr('call_indirect', ti, 0)
        elif k == 'memarg':
            a = r.u32()
            if a >= 32:
                if a & 0x40:
                    raise Unsupported('multi-memory memarg')
                raise DecodeError('malformed memop flags')
            ins = Instr(info.name, a, r.u32())
        elif k == 'mem0':
            _zero(r, info.name)
            ins = Instr(info.name)
        elif k == 'i32':
            ins = Instr('i32.const', r.sleb(32))
        elif k == 'i64':
            ins = Instr('i64.const', r.sleb(64))
        elif k == 'f32':
            ins = Instr('f32.const', int.from_bytes(r.bytes(4), 'little'))
        elif k == 'f64':
            ins = Instr('f64.const', int.from_bytes(r.bytes(8), 'little'))
        elif k == 'memory.init':
            di = r.u32()
            _zero(r, 'memory.init')
            ins = Instr('memory.init', di)
        elif k == 'memory.copy':
            _zero(r, 'memory.copy')
            _zero(r, 'memory.copy')
            ins = Instr('memory.copy')
        elif k in ('memory.fill', 'fence'):
            _zero(r, info.name)
            ins = Instr(info.name)
        else:
            raise AssertionError(k)
        out.append(ins)


def _const_expr(r):
    body, _ = _instr_seq(r, (0x0B,))
    if len(body) != 1:
        if any(i.op not in ('i32.const', 'i64.const', 'f32.const', 'f64.const', 'global.get') for i in body):
            raise Unsupported('non-constant / extended constant expression')
        if not body:
            raise DecodeError('empty constant expression')
        raise Unsupported('extended constant expression')
    if body[0].op not in ('i32.const', 'i64.const', 'f32.const', 'f64.const', 'global.get'):
        raise Unsupported('constant expression %s' % body[0].op)
    return body[0]


def _vec(r, fn):
    n = r.u32()
    if n > r.end - r.pos:
        raise DecodeError('vector count out of bounds')
    return [fn(r) for _ in range(n)]


def _functype(r):
    if r.byte() != 0x60:
        raise DecodeError('malformed function type')
    params = _vec(r, _valtype)
    results = _vec(r, _valtype)
    if len(results) > 1:
        raise Unsupported('multi-value function type')
    return FuncType(params, results)


def _import(r):
    mod = r.name()
    field = r.name()
    k = r.byte()
    if k == 0:
        return Import(mod, field, 'func', r.u32())
    if k == 1:
        return Import(mod, field, 'table', _tabletype(r))
    if k == 2:
        return Import(mod, field, 'memory', _limits(r, 'memory'))
    if k == 3:
        return Import(mod, field, 'global', _globaltype(r))
    if k == 4:
        raise Unsupported('tag import')
    raise DecodeError('malformed import kind')


def _export(r):
    nm = r.name()
    k = r.byte()
    if k not in KIND_BY_CODE:
        if k == 4:
            raise Unsupported('tag export')
        raise DecodeError('malformed export kind')
    return Export(nm, KIND_BY_CODE[k], r.u32())


def _global(r):
    gt = _globaltype(r)
    return Global(gt, _const_expr(r))


def _elem(r):
    flag = r.u32()
    if flag != 0:
        if flag <= 7:
            raise Unsupported('element segment flag %d' % flag)
        raise DecodeError('malformed element segment flag')
    off = _const_expr(r)
    return ElemSegment(0, off, _vec(r, lambda rr: rr.u32()))


def _data(r):
    flag = r.u32()
    if flag == 0:
        off = _const_expr(r)
        return DataSegment('active', r.bytes(r.u32()), off, 0, enc_flag=0)
    if flag == 1:
        return DataSegment('passive', r.bytes(r.u32()))
    if flag == 2:
        mi = r.u32()
        off = _const_expr(r)
        return DataSegment('active', r.bytes(r.u32()), off, mi, enc_flag=2)
    raise DecodeError('malformed data segment flag')


def _code(r):
    size = r.u32()
    b = r.sub(size)
    decls = _vec(b, lambda rr: (rr.u32(), _valtype(rr)))
    if sum(n for n, _ in decls) >= (1 << 32):
        raise DecodeError('too many locals')
    body, _ = _instr_seq(b, (0x0B,))
    if not b.eof():
        raise DecodeError('function body size mismatch')
    return decls, body


def _name_section(r):
    """Parse a "name" section payload; returns NameSection or None when it is not in the simple shape."""
    ns = NameSection()
    last = -1
    try:
        while not r.eof():
            sid = r.byte()
            sub = r.sub(r.u32())
            if sid <= last or sid > 2:
                return None
            last = sid
            if sid == 0:
                ns.module_name = sub.name()
            elif sid == 1:
                ns.func_names = _vec(sub, lambda rr: (rr.u32(), rr.name()))
            else:
                ns.local_names = _vec(sub, lambda rr: (rr.u32(), _vec(rr, lambda q: (q.u32(), q.name()))))
            if not sub.eof():
                return None
    except DecodeError:
        return None
    return ns


def decode(data):
    data = bytes(data)
    r = Reader(data)
    if r.bytes(4) != b'\x00asm':
        raise DecodeError('magic header not detected')
    if r.bytes(4) != b'\x01\x00\x00\x00':
        raise DecodeError('unknown binary version')
    m = Module()
    order = {sid: i for i, sid in enumerate(SECTION_ORDER)}
    last = -1            # index into SECTION_ORDER of the last non-custom section
    functypes = None
    codes = None
    while not r.eof():
        sid = r.byte()
        size = r.u32()
        s = r.sub(size)
        if sid == 0:
            nm = s.name()
            payload = s.bytes(s.end - s.pos)
            if nm == b'name':
                ns = _name_section(Reader(payload))
                if ns is not None:
                    payload = ns
            m.customs.append(CustomSection(nm, payload, last + 1))
            continue
        if sid not in order:
            if sid == 13:
                raise Unsupported('tag section')
            raise DecodeError('malformed section id %d' % sid)
        if order[sid] <= last:
            raise DecodeError('unexpected content after last section (section %d out of order)' % sid)
        last = order[sid]
        if sid == 1:
            m.types = _vec(s, _functype)
        elif sid == 2:
            m.imports = _vec(s, _import)
        elif sid == 3:
            functypes = _vec(s, lambda rr: rr.u32())
        elif sid == 4:
            m.tables = _vec(s, _tabletype)
        elif sid == 5:
            m.mems = _vec(s, lambda rr: _limits(rr, 'memory'))
        elif sid == 6:
            m.globals = _vec(s, _global)
        elif sid == 7:
            m.exports = _vec(s, _export)
        elif sid == 8:
            m.start = s.u32()
        elif sid == 9:
            m.elems = _vec(s, _elem)
        elif sid == 12:
            m.datacount = s.u32()
        elif sid == 10:
            codes = _vec(s, _code)
        elif sid == 11:
            m.datas = _vec(s, _data)
        if not s.eof():
            raise DecodeError('section size mismatch (section %d)' % sid)
    functypes = functypes or []
    codes = codes or []
    if len(functypes) != len(codes):
        raise DecodeError('function and code section have inconsistent lengths')
    if m.datacount is not None and m.datacount != len(m.datas):
        raise DecodeError('data count and data section have inconsistent lengths')
    m.funcs = [Function(t, decls, body) for t, (decls, body) in zip(functypes, codes)]
    if m.datacount is None:
        from .wasm_ast import uses_data_index
        if uses_data_index(m):
            raise DecodeError('data count section required')
    return m
