"""Run WebAssembly modules in node's V8 (independent oracle).  Batches requests over one process.

    validate(wasm) -> bool
    compile_error(wasm) -> None | message
    run(wasm, calls, imports_spec=None, mem_hash=False, timeout=10.0) -> RunResult

calls: [(export_name: bytes|str, [(type, bits), ...]), ...] executed in order on ONE instance.
imports_spec: {'globals': {import_ordinal: bits}, 'mem_fill': {import_ordinal: [[offset, hexbytes], ...]}}  (optional; ordinals index
module.imports; mem_fill = bytes the embedder writes into an imported memory before instantiation);
  function imports are always satisfied by logging host functions whose result is
  host_result(type, host_hash(func_import_index, arg_bits)) (see below); memories/tables are
  created with their declared limits.
Result entries: ('val', [(type, bits)]) | ('trap', class) | ('error', message).
f32/f64 arguments and results cross the JS boundary through a generated wasm trampoline that
reinterprets them as i32/i64, so NaN payloads are preserved exactly.  Host (imported) functions
see JS numbers, so NaN arguments are logged/hashed as the canonical NaN.
"""
import atexit
import json
import os
import select
import subprocess

from . import wasm_ast as A
from .encode import encode
from .decode import decode, DecodeError, Unsupported

_JS = os.path.join(os.path.dirname(os.path.abspath(__file__)), 'v8run.js')
NODE = os.environ.get('WASMGEN_NODE', 'node')
M64 = (1 << 64) - 1


class V8Error(Exception):
    pass


class V8Timeout(V8Error):
    pass


class RunResult(object):
    """instantiate: ('ok',) | ('trap', cls) | ('link', msg) | ('invalid', msg)
    results: list parallel to calls; host_log: [(func_import_index, [(type, bits)])]
    mem: None | {'sha256': hex, 'pages': n}; globals: {export name bytes: (type, bits)}"""

    def __init__(self):
        self.instantiate = None
        self.results = []
        self.host_log = []
        self.mem = None
        self.globals = {}
        self.messages = []

    def __repr__(self):
        return 'RunResult(%r, %r, log=%d, mem=%r)' % (self.instantiate, self.results, len(self.host_log), self.mem)


def host_hash(func_import_index, arg_bits):
    h = (0xcbf29ce484222325 ^ func_import_index) & M64
    for a in arg_bits:
        h = ((h ^ a) * 0x100000001b3) & M64
    return h ^ (h >> 32)


def host_result_bits(vt_name, h):
    """Bit pattern of the value an imported host function returns for hash h."""
    import struct
    if vt_name == 'i32':
        return h & 0xFFFFFFFF
    if vt_name == 'i64':
        return h & M64
    if vt_name == 'f32':
        return struct.unpack('<I', struct.pack('<f', ((h & 0xFFFFFF) - 0x800000) / 8.0))[0]
    return struct.unpack('<Q', struct.pack('<d', ((h & 0xFFFFFFFFFFFFF) - (1 << 51)) / 1024.0))[0]


def trampoline(sig):
    """wasm module importing m.f : sig and exporting t with f32/f64 replaced by i32/i64 bit patterns."""
    conv = {A.F32: A.I32, A.F64: A.I64}
    m = A.Module()
    m.types = [A.FuncType(sig.params, sig.results),
               A.FuncType([conv.get(t, t) for t in sig.params], [conv.get(t, t) for t in sig.results])]
    m.imports = [A.Import(b'm', b'f', 'func', 0)]
    body = []
    for i, t in enumerate(sig.params):
        body.append(A.Instr('local.get', i))
        if t == A.F32:
            body.append(A.Instr('f32.reinterpret_i32'))
        elif t == A.F64:
            body.append(A.Instr('f64.reinterpret_i64'))
    body.append(A.Instr('call', 0))
    for t in sig.results:
        if t == A.F32:
            body.append(A.Instr('i32.reinterpret_f32'))
        elif t == A.F64:
            body.append(A.Instr('i64.reinterpret_f64'))
    m.funcs = [A.Function(1, [], body)]
    m.exports = [A.Export(b't', 'func', 1)]
    return encode(m)


def _sig_key(sig):
    return ','.join(A.VT_NAME[t] for t in sig.params) + '>' + ','.join(A.VT_NAME[t] for t in sig.results)


class Session(object):
    def __init__(self, node=None):
        self.node = node or NODE
        self.proc = None
        self.seq = 0
        self.buf = b''

    def _start(self):
        self.proc = subprocess.Popen([self.node, _JS], stdin=subprocess.PIPE, stdout=subprocess.PIPE,
                                     stderr=subprocess.DEVNULL, bufsize=0)
        self.buf = b''

    def close(self):
        if self.proc is not None:
            try:
                self.proc.stdin.close()
                self.proc.kill()
                self.proc.wait()
            except Exception:
                pass
            self.proc = None

    def request(self, req, timeout=10.0):
        if self.proc is None or self.proc.poll() is not None:
            self._start()
        self.seq += 1
        req = dict(req, id=self.seq)
        try:
            self.proc.stdin.write((json.dumps(req) + '\n').encode('ascii'))
            self.proc.stdin.flush()
        except (BrokenPipeError, OSError):
            self.close()
            raise V8Error('node process died')
        fd = self.proc.stdout.fileno()
        import time
        deadline = time.time() + timeout
        while True:
            nl = self.buf.find(b'\n')
            if nl >= 0:
                line, self.buf = self.buf[:nl], self.buf[nl + 1:]
                rep = json.loads(line.decode('utf-8'))
                if rep.get('id') != self.seq:
                    continue
                if not rep.get('ok'):
                    raise V8Error(rep.get('error'))
                return rep
            left = deadline - time.time()
            if left <= 0:
                self.close()
                raise V8Timeout('no reply within %.1fs (node killed)' % timeout)
            r, _, _ = select.select([fd], [], [], left)
            if r:
                chunk = os.read(fd, 1 << 16)
                if not chunk:
                    self.close()
                    raise V8Error('node process exited (crash or out of memory)')
                self.buf += chunk

    # ---- API
    def validate(self, wasm):
        return bool(self.request({'cmd': 'validate', 'wasm': bytes(wasm).hex()})['valid'])

    def compile_error(self, wasm):
        rep = self.request({'cmd': 'compile', 'wasm': bytes(wasm).hex()})
        return None if rep['valid'] else rep.get('message', '?')

    def run(self, wasm, calls, imports_spec=None, mem_hash=False, timeout=10.0, module=None, mem_dump=0):
        wasm = bytes(wasm)
        if module is None:
            try:
                module = decode(wasm)
            except (DecodeError, Unsupported):
                module = None
        req = {'cmd': 'run', 'wasm': wasm.hex(), 'mem_hash': bool(mem_hash), 'mem_dump': mem_dump,
               'imports': [], 'calls': [], 'tramps': {}}
        gl = (imports_spec or {}).get('globals', {})
        exports = {}
        if module is not None:
            for n, im in enumerate(module.imports):
                e = {'module': im.module.hex(), 'field': im.field.hex(), 'kind': im.kind}
                if im.kind == 'func':
                    ft = module.types[im.desc]
                    e['params'] = [A.VT_NAME[t] for t in ft.params]
                    e['results'] = [A.VT_NAME[t] for t in ft.results]
                elif im.kind == 'global':
                    e['type'] = A.VT_NAME[im.desc.valtype]
                    e['mutable'] = im.desc.mutable
                    e['bits'] = str(gl.get(n, gl.get(str(n), 0)))
                elif im.kind == 'memory':
                    e.update(min=im.desc.min, max=im.desc.max, shared=im.desc.shared)
                    mf = (imports_spec or {}).get('mem_fill') or {}
                    if mf.get(n, mf.get(str(n))):
                        e['fill'] = [[int(o), str(h)] for o, h in mf.get(n, mf.get(str(n)))]
                else:
                    e.update(min=im.desc.limits.min, max=im.desc.limits.max)
                req['imports'].append(e)
            for ex in module.exports:
                if ex.kind == 'func':
                    exports[ex.name] = module.func_sig(ex.index)
        elif imports_spec and 'raw' in imports_spec:
            req['imports'] = imports_spec['raw']
        for name, args in calls:
            nb = name.encode('utf-8') if isinstance(name, str) else bytes(name)
            c = {'name': nb.hex(), 'args': [[t if isinstance(t, str) else A.VT_NAME[t], str(b)] for t, b in args],
                 'sig': None}
            sig = exports.get(nb)
            if sig is not None:
                c['sig'] = {'params': [A.VT_NAME[t] for t in sig.params],
                            'results': [A.VT_NAME[t] for t in sig.results]}
                if any(t in (A.F32, A.F64) for t in sig.params + sig.results):
                    k = _sig_key(sig)
                    if k not in req['tramps']:
                        req['tramps'][k] = trampoline(sig).hex()
            req['calls'].append(c)
        rep = self.request(req, timeout)
        out = RunResult()
        inst = rep['instantiate']
        out.instantiate = tuple(inst[:2])
        if len(inst) > 2:
            out.messages.append(inst[2])
        for r in rep['results']:
            if r[0] == 'val':
                out.results.append(('val', [(t, int(b)) for t, b in r[1]]))
            elif r[0] == 'trap':
                out.results.append(('trap', r[1]))
                out.messages.append(r[2])
            else:
                out.results.append(('error', r[1]))
        out.host_log = [(i, [(t, int(b)) for t, b in a]) for i, a in rep['host_log']]
        out.mem = rep.get('mem')
        gtypes = {}
        if module is not None:
            gts = module.global_types()
            for ex in module.exports:
                if ex.kind == 'global':
                    gtypes[ex.name] = gts[ex.index].valtype
        import struct
        for k, (t, b) in rep.get('globals', {}).items():
            name = bytes.fromhex(k)
            b = int(b)
            if t == 'num' and name in gtypes:
                x = struct.unpack('<d', struct.pack('<Q', b))[0]
                vt = gtypes[name]
                if vt == A.I32:
                    t, b = 'i32', int(x) & 0xFFFFFFFF
                elif vt == A.F32:
                    t, b = 'f32', struct.unpack('<I', struct.pack('<f', x))[0]
                else:
                    t = 'f64'
            out.globals[name] = (t, b)
        return out


def _family_request(module, wasm, plan, script, imports_spec, mem_hash):
    """request of the `family` command (several live instances of one module; see v8run.js)"""
    req = {'cmd': 'family', 'wasm': bytes(wasm).hex(), 'mem_hash': bool(mem_hash), 'imports': [], 'script': [], 'tramps': {},
           'plan': [dict(p) for p in plan]}
    gl = (imports_spec or {}).get('globals', {})
    for n, im in enumerate(module.imports):
        e = {'module': im.module.hex(), 'field': im.field.hex(), 'kind': im.kind}
        if im.kind == 'func':
            ft = module.types[im.desc]
            e['params'] = [A.VT_NAME[t] for t in ft.params]
            e['results'] = [A.VT_NAME[t] for t in ft.results]
        elif im.kind == 'global':
            e['type'] = A.VT_NAME[im.desc.valtype]
            e['mutable'] = im.desc.mutable
            e['bits'] = str(gl.get(n, gl.get(str(n), 0)))
        elif im.kind == 'memory':
            e.update(min=im.desc.min, max=im.desc.max, shared=im.desc.shared)
            mf = (imports_spec or {}).get('mem_fill') or {}
            if mf.get(n, mf.get(str(n))):
                e['fill'] = [[int(o), str(h)] for o, h in mf.get(n, mf.get(str(n)))]
        else:
            e.update(min=im.desc.limits.min, max=im.desc.limits.max)
        req['imports'].append(e)
    exports = {}
    for ex in module.exports:
        if ex.kind == 'func':
            exports.setdefault(bytes(ex.name), module.func_sig(ex.index))
    for inst, name, args in script:
        nb = name.encode('utf-8') if isinstance(name, str) else bytes(name)
        c = {'inst': int(inst), 'name': nb.hex(), 'args': [[t if isinstance(t, str) else A.VT_NAME[t], str(b)] for t, b in args], 'sig': None}
        sig = exports.get(nb)
        if sig is not None:
            c['sig'] = {'params': [A.VT_NAME[t] for t in sig.params], 'results': [A.VT_NAME[t] for t in sig.results]}
            if any(t in (A.F32, A.F64) for t in sig.params + sig.results):
                k = _sig_key(sig)
                if k not in req['tramps']:
                    req['tramps'][k] = trampoline(sig).hex()
        req['script'].append(c)
    return req


def _family_result(module, rep):
    import struct
    out = RunResult()
    inst = rep['instantiate']
    out.instantiate = tuple(inst[:2])
    if len(inst) > 2:
        out.messages.append(inst[2])
    for r in rep['results']:
        if r[0] == 'val':
            out.results.append(('val', [(t, int(b)) for t, b in r[1]]))
        elif r[0] == 'trap':
            out.results.append(('trap', r[1]))
            out.messages.append(r[2])
        elif r[0] == 'skip':
            out.results.append(('skip',))
        else:
            out.results.append(('error', r[1]))
    out.host_log = [(i, [(t, int(b)) for t, b in a]) for i, a in rep['host_log']]
    out.mem = rep.get('mem')
    gtypes = {}
    gts = module.global_types()
    for ex in module.exports:
        if ex.kind == 'global':
            gtypes[ex.name] = gts[ex.index].valtype
    for k, (t, b) in rep.get('globals', {}).items():
        name = bytes.fromhex(k)
        b = int(b)
        if t == 'num' and name in gtypes:
            x = struct.unpack('<d', struct.pack('<Q', b))[0]
            vt = gtypes[name]
            if vt == A.I32:
                t, b = 'i32', int(x) & 0xFFFFFFFF
            elif vt == A.F32:
                t, b = 'f32', struct.unpack('<I', struct.pack('<f', x))[0]
            else:
                t = 'f64'
        out.globals[name] = (t, b)
    return out


def run_family(wasm, plan, script, imports_spec=None, mem_hash=True, timeout=20.0, module=None):
    """Several live instances of ONE module.  plan[k] = {'kind': 'new'} (instantiated before the script with its own import
    objects) | {'kind': 'child', 'parent': p, 'at': j} (instantiated right before script entry j with the import objects of
    instance p: imported memories and globals are shared, tables and host functions are per instance);
    script = [(instance, export name, [(ty, bits)])].  Returns one RunResult per instance (`results` = its own calls, in order); every
    result also carries `family_log`, the host calls of all instances in the order they happened."""
    if module is None:
        module = decode(bytes(wasm))
    rep = session().request(_family_request(module, wasm, plan, script, imports_spec, mem_hash), timeout)
    out = [_family_result(module, r) for r in rep['instances']]
    flog = [(i, [(t, int(b)) for t, b in a]) for i, a in rep.get('family_log', [])]
    for r in out:
        r.family_log = flog          # host calls of the whole family in the order they happened (not attributed to an instance)
    return out


_default = None


def session():
    global _default
    if _default is None:
        _default = Session()
        atexit.register(_default.close)
    return _default


def validate(wasm):
    return session().validate(wasm)


def compile_error(wasm):
    return session().compile_error(wasm)


def run(wasm, calls, imports_spec=None, mem_hash=False, timeout=10.0, module=None):
    return session().run(wasm, calls, imports_spec, mem_hash, timeout, module)
