"""Typed synthesis of function bodies (valid by construction).

FuncGen keeps the validation algorithm's state (operand stack of value types with `None` for
"unknown", control frames with an `unreachable` flag) and every instruction goes through `emit`,
which applies the spec typing rule and raises GenBug if the instruction would not validate.
"""
from .wasm_ast import (I32, I64, F32, F64, VALTYPES, OPS, Instr, natural_align, const as mk_const)

MAX_MULT = 64          # bound on the product of enclosing loop trip counts
CALL_MULT = 4          # defined functions are only called where the loop multiplicity is <= this
MAX_CALL_SITES = 3     # call sites to defined functions per body
ADDR_MASK = 0xFFF      # dynamic addresses are masked into [0, 0xFFF]
MAX_OFFSET = 65536 - ADDR_MASK - 1 - 8   # so that ea + width <= 65536 (first page)


class GenBug(Exception):
    pass


# ---- op classification from the table
UNOPS, BINOPS, CMPS, CVTS, LOADS, STORES = {}, {}, {}, {}, {}, {}
ALOADS, ASTORES, ARMW, ACMPXCHG = {}, {}, {}, {}
for _n, _o in OPS.items():
    if _o.params is None:
        continue
    if _o.imm == 'none':
        if len(_o.params) == 1 and _o.results == _o.params:
            UNOPS.setdefault(_o.params[0], []).append(_n)
        elif len(_o.params) == 2 and _o.params[0] == _o.params[1] and _o.results == (_o.params[0],):
            BINOPS.setdefault(_o.params[0], []).append(_n)
        elif len(_o.params) == 2 and _o.results == (I32,):
            CMPS.setdefault(_o.params[0], []).append(_n)
        elif len(_o.params) == 1 and len(_o.results) == 1:
            CVTS.setdefault(_o.results[0], []).append(_n)
    elif _o.imm == 'memarg':
        if _o.prefix is None:
            if _o.results:
                LOADS.setdefault(_o.results[0], []).append(_n)
            else:
                STORES.setdefault(_o.params[1], []).append(_n)
        elif '.atomic.load' in _n:
            ALOADS.setdefault(_o.results[0], []).append(_n)
        elif '.atomic.store' in _n:
            ASTORES.setdefault(_o.params[1], []).append(_n)
        elif 'cmpxchg' in _n:
            ACMPXCHG.setdefault(_o.results[0], []).append(_n)
        elif '.atomic.rmw' in _n:
            ARMW.setdefault(_o.results[0], []).append(_n)
for _d in (UNOPS, BINOPS, CMPS, CVTS, LOADS, STORES, ALOADS, ASTORES, ARMW, ACMPXCHG):
    for _k in _d:
        _d[_k].sort()

DIVREM = ('div_s', 'div_u', 'rem_s', 'rem_u')

# ---- boundary-heavy constants (bit patterns)
I32_EDGE = [0, 1, 2, 3, 7, 8, 15, 16, 31, 32, 33, 63, 64, 65, 0x7F, 0x80, 0xFF, 0x100, 0x7FFF, 0x8000,
            0xFFFF, 0x10000, 0x7FFFFFFF, 0x80000000, 0x80000001, 0xFFFFFFFF, 0xFFFFFFFE, 0xFFFFFF80,
            0xFFFF8000, 0x55555555, 0xAAAAAAAA, 0x01010101, 0x00FF00FF, 0xDEADBEEF]
I64_EDGE = [0, 1, 2, 31, 32, 33, 63, 64, 65, 0x7F, 0x80, 0xFF, 0xFFFF, 0x7FFFFFFF, 0x80000000, 0xFFFFFFFF,
            0x100000000, 0x7FFFFFFFFFFFFFFF, 0x8000000000000000, 0x8000000000000001, 0xFFFFFFFFFFFFFFFF,
            0xFFFFFFFFFFFFFFFE, 0xFFFFFFFF80000000, 0xFFFFFFFFFFFFFF80, 0xFFFFFFFFFFFF8000,
            0x5555555555555555, 0xAAAAAAAAAAAAAAAA, 0x0123456789ABCDEF, 0x00000000FFFFFFFF]
F32_EDGE = [0x00000000, 0x80000000, 0x3F800000, 0xBF800000, 0x3F000000, 0xBF000000, 0x3FC00000, 0x40200000,
            0xC0200000, 0x7F800000, 0xFF800000, 0x7FC00000, 0xFFC00000, 0x7FA00000, 0x7F800001, 0x7FFFFFFF,
            0x00000001, 0x80000001, 0x007FFFFF, 0x00800000, 0x7F7FFFFF, 0xFF7FFFFF, 0x4B000000, 0x4B000001,
            0x4AFFFFFF, 0x4F000000, 0xCF000000, 0xCF000001, 0x4EFFFFFF, 0x4F800000, 0x4F7FFFFF, 0x5F000000,
            0xDF000000, 0x5F800000, 0x5EFFFFFF, 0xBF7FFFFF, 0x3EFFFFFF, 0x3F000001, 0x40490FDB]
F64_EDGE = [0x0000000000000000, 0x8000000000000000, 0x3FF0000000000000, 0xBFF0000000000000,
            0x3FE0000000000000, 0xBFE0000000000000, 0x3FF8000000000000, 0x4004000000000000,
            0xC004000000000000, 0x7FF0000000000000, 0xFFF0000000000000, 0x7FF8000000000000,
            0xFFF8000000000000, 0x7FF4000000000000, 0x7FF0000000000001, 0x7FFFFFFFFFFFFFFF,
            0x0000000000000001, 0x8000000000000001, 0x000FFFFFFFFFFFFF, 0x0010000000000000,
            0x7FEFFFFFFFFFFFFF, 0xFFEFFFFFFFFFFFFF, 0x4330000000000000, 0x4330000000000001,
            0x432FFFFFFFFFFFFF, 0x41E0000000000000, 0xC1E0000000000000, 0xC1E0000000200000,
            0x41DFFFFFFFC00000, 0x41F0000000000000, 0x41EFFFFFFFE00000, 0x43E0000000000000,
            0xC3E0000000000000, 0x43F0000000000000, 0x43DFFFFFFFFFFFFF, 0xBFEFFFFFFFFFFFFF,
            0x3FDFFFFFFFFFFFFF, 0x3FE0000000000001, 0x400921FB54442D18, 0x47EFFFFFE0000000,
            0x47EFFFFFF0000000, 0x36A0000000000000, 0x3690000000000000]
EDGES = {I32: I32_EDGE, I64: I64_EDGE, F32: F32_EDGE, F64: F64_EDGE}


def rand_bits(rng, vt):
    bits = 32 if vt in (I32, F32) else 64
    r = rng.random()
    if r < 0.55:
        return rng.choice(EDGES[vt])
    if r < 0.75 and vt in (I32, I64):
        return rng.randint(-16, 16) & ((1 << bits) - 1)
    if r < 0.85 and vt in (F32, F64):
        # small integers / halves as floats
        import struct
        x = rng.randint(-64, 64) / 2.0
        return struct.unpack('<I', struct.pack('<f', x))[0] if vt == F32 else \
            struct.unpack('<Q', struct.pack('<d', x))[0]
    return rng.getrandbits(bits)


class Frame(object):
    __slots__ = ('kind', 'label_types', 'results', 'height', 'unreachable', 'counter', 'has_continue')

    def __init__(self, kind, label_types, results, height):
        self.kind, self.label_types, self.results, self.height = kind, label_types, results, height
        self.unreachable = False
        self.counter = None
        self.has_continue = False


class FuncGen(object):
    def __init__(self, ctx, func_index, sig, weights, max_nest=4, budget=60, expr_depth=4):
        self.ctx, self.rng, self.func_index, self.sig = ctx, ctx.rng, func_index, sig
        self.w = weights
        self.max_nest, self.budget, self.expr_depth = max_nest, budget, expr_depth
        self.locals = list(sig.params)
        self.n_params = len(sig.params)
        self.reserved = set()
        self.stack = []
        self.frames = []
        self.out = []
        self.mult = 1
        self.call_sites = 0
        self.types = ctx.valtypes

    # ------------------------------------------------------------ validation state
    def push(self, t):
        self.stack.append(t)

    def pop(self, expect=None):
        fr = self.frames[-1]
        if len(self.stack) == fr.height:
            if fr.unreachable:
                return None
            raise GenBug('stack underflow (want %r)' % (expect,))
        t = self.stack.pop()
        if expect is not None and t is not None and t != expect:
            raise GenBug('type mismatch: have %r want %r' % (t, expect))
        return t

    def dead(self):
        return self.frames[-1].unreachable

    def mark_unreachable(self):
        fr = self.frames[-1]
        del self.stack[fr.height:]
        fr.unreachable = True

    def label(self, l):
        if l >= len(self.frames):
            raise GenBug('label out of range')
        return self.frames[-1 - l]

    def emit(self, op, *imm):
        """Append one non-structured instruction, applying its typing rule."""
        ins = Instr(op, *imm)
        o = OPS[op]
        self.budget -= 1
        if o.params is not None:
            if o.imm == 'memarg' or op.startswith('memory.') or op in ('data.drop', 'atomic.fence'):
                if not self.ctx.has_mem:
                    raise GenBug('memory op without memory')
                if o.imm == 'memarg':
                    nat = natural_align(op)
                    if imm[0] > nat or (o.prefix == 0xFE and imm[0] != nat):
                        raise GenBug('bad alignment')
                if op in ('memory.init', 'data.drop') and imm[0] >= len(self.ctx.datas):
                    raise GenBug('bad data index')
            for t in reversed(o.params):
                self.pop(t)
            for t in o.results:
                self.push(t)
        elif op == 'unreachable':
            self.mark_unreachable()
        elif op == 'drop':
            self.pop()
        elif op == 'select':
            self.pop(I32)
            t1 = self.pop()
            t2 = self.pop(t1)
            self.push(t1 if t1 is not None else t2)
        elif op in ('local.get', 'local.set', 'local.tee'):
            t = self.locals[imm[0]]
            if op != 'local.get':
                self.pop(t)
            if op != 'local.set':
                self.push(t)
        elif op == 'global.get':
            self.push(self.ctx.globals[imm[0]].valtype)
        elif op == 'global.set':
            g = self.ctx.globals[imm[0]]
            if not g.mutable:
                raise GenBug('global.set of immutable')
            self.pop(g.valtype)
        elif op == 'br':
            for t in reversed(self.label(imm[0]).label_types):
                self.pop(t)
            self.mark_unreachable()
        elif op == 'br_if':
            self.pop(I32)
            lt = self.label(imm[0]).label_types
            for t in reversed(lt):
                self.pop(t)
            for t in lt:
                self.push(t)
        elif op == 'br_table':
            self.pop(I32)
            lt = self.label(imm[1]).label_types
            for l in imm[0]:
                if self.label(l).label_types != lt:
                    raise GenBug('br_table label type mismatch')
            for t in reversed(lt):
                self.pop(t)
            self.mark_unreachable()
        elif op == 'return':
            for t in reversed(self.frames[0].results):
                self.pop(t)
            self.mark_unreachable()
        elif op == 'call':
            ft = self.ctx.func_sigs[imm[0]]
            for t in reversed(ft.params):
                self.pop(t)
            for t in ft.results:
                self.push(t)
        elif op == 'call_indirect':
            if not self.ctx.has_table:
                raise GenBug('call_indirect without table')
            ft = self.ctx.module.types[imm[0]]
            self.pop(I32)
            for t in reversed(ft.params):
                self.pop(t)
            for t in ft.results:
                self.push(t)
        else:
            raise GenBug('emit: unhandled %s' % op)
        self.out.append(ins)
        return ins

    def _end_frame(self, fr):
        for t in reversed(fr.results):
            self.pop(t)
        if len(self.stack) != fr.height:
            raise GenBug('values left on the stack at end of %s: %r' % (fr.kind, self.stack[fr.height:]))

    def structured(self, kind, bt, gen_body, gen_else=None, counter=None):
        """Emit block/loop/if with bodies produced by the callbacks."""
        if kind == 'if':
            self.pop(I32)
            if bt is not None and gen_else is None:
                raise GenBug('if with result needs else')
        self.budget -= 1
        results = () if bt is None else (bt,)
        fr = Frame(kind, () if kind == 'loop' else results, results, len(self.stack))
        fr.counter = counter
        saved, body, else_body = self.out, [], None
        self.frames.append(fr)
        self.out = body
        gen_body()
        self._end_frame(fr)
        if gen_else is not None:
            else_body = []
            self.out = else_body
            fr.unreachable = False
            del self.stack[fr.height:]
            gen_else()
            self._end_frame(fr)
        self.frames.pop()
        self.out = saved
        self.out.append(Instr(kind, bt, body=body, else_body=else_body))
        for t in results:
            self.push(t)

    def can_nest(self):
        return len(self.frames) < self.max_nest and self.budget > 0

    # ------------------------------------------------------------ helpers
    def pick(self, table):
        """table: [(weight, fn)] -> call one fn chosen by weight."""
        total = 0.0
        for w, _ in table:
            total += w
        x = self.rng.random() * total
        for w, fn in table:
            x -= w
            if x < 0:
                return fn()
        return table[-1][1]()

    def new_local(self, t, reserved=False):
        self.locals.append(t)
        if reserved:
            self.reserved.add(len(self.locals) - 1)
        return len(self.locals) - 1

    def locals_of(self, t, writable=False):
        return [i for i, lt in enumerate(self.locals) if lt == t and not (writable and i in self.reserved)]

    def rand_type(self):
        return self.rng.choice(self.types)

    def const(self, t, bits=None):
        if bits is None:
            bits = rand_bits(self.rng, t)
        ins = mk_const(t, bits)
        self.emit(ins.op, *ins.imm)

    def leaf(self, t):
        opts = [(self.w.get('const', 1) + 0.2, lambda: self.const(t))]
        ls = self.locals_of(t)
        if ls:
            opts.append((self.w.get('local', 1) + 0.2, lambda: self.emit('local.get', self.rng.choice(ls))))
        gs = [i for i, g in enumerate(self.ctx.globals) if g.valtype == t]
        if gs and self.w.get('global', 0) > 0:
            opts.append((self.w['global'], lambda: self.emit('global.get', self.rng.choice(gs))))
        self.pick(opts)

    # ------------------------------------------------------------ expressions
    def expr(self, t, d=None):
        """Emit code whose net effect is pushing one value of type t (or diverging)."""
        if d is None:
            d = self.expr_depth
        if self.dead() or d <= 0 or self.budget <= 0:
            return self.leaf(t)
        w, c = self.w, self.ctx
        isint = t in (I32, I64)
        o = [(w.get('const', 1), lambda: self.const(t)), (w.get('local', 1), lambda: self.leaf(t))]

        def add(name, fn, cond=True):
            wt = w.get(name, 0)
            if wt > 0 and cond:
                o.append((wt, fn))
        add('unop', lambda: self.e_unop(t, d), t in UNOPS)
        add('binop', lambda: self.e_binop(t, d))
        add('cmp', lambda: self.e_cmp(d), t == I32)
        add('cvt', lambda: self.e_cvt(t, d), any(OPS[n].params[0] in self.types for n in CVTS[t]))
        add('select', lambda: self.e_select(t, d))
        add('tee', lambda: self.e_tee(t, d), bool(self.locals_of(t, True)))
        add('load', lambda: self.e_load(t, d), c.has_mem)
        add('atomic', lambda: self.e_atomic(t, d), c.has_mem and isint)
        add('memsize', lambda: self.emit('memory.size'), c.has_mem and t == I32)
        add('memgrow', lambda: self.e_memgrow(d), c.has_mem and t == I32 and self.mult <= 8)
        add('notify', lambda: self.e_notify(d), c.has_mem and t == I32 and c.mem_shared)
        if self.can_nest():
            add('block', lambda: self.e_block(t, d))
            add('if', lambda: self.e_if(t, d))
            add('loop', lambda: self.e_loop(t, d), self.mult * 2 <= MAX_MULT)
            add('br_if_val', lambda: self.e_br_if_val(t, d), len(self.frames) < self.max_nest)
        add('br', lambda: self.s_br(d), len(self.frames) >= 2)
        add('br_table', lambda: self.s_br_table(d), len(self.frames) >= 2)
        add('return', lambda: self.s_return(d))
        add('call', lambda: self.e_call(t, d), bool(self.call_targets((t,))))
        add('call_indirect', lambda: self.e_call_indirect(t, d), c.has_table and bool(self.indirect_targets((t,))))
        self.pick(o)

    def e_unop(self, t, d):
        self.expr(t, d - 1)
        self.emit(self.rng.choice(UNOPS[t]))

    def e_binop(self, t, d):
        op = self.rng.choice(BINOPS[t])
        self.expr(t, d - 1)
        self.expr(t, d - 1)
        if op.endswith(DIVREM) and self.rng.random() < 0.5 and not self.dead():
            self.const(t, 1)           # make the divisor odd, hence non-zero
            self.emit(op[:3] + '.or')
        self.emit(op)

    def e_cmp(self, d):
        ts = [x for x in self.types if x in CMPS]
        t = self.rng.choice(ts)
        if t in (I32, I64) and self.rng.random() < 0.15:
            self.expr(t, d - 1)
            return self.emit('i32.eqz' if t == I32 else 'i64.eqz')
        self.expr(t, d - 1)
        self.expr(t, d - 1)
        self.emit(self.rng.choice(CMPS[t]))

    def e_cvt(self, t, d):
        ops = [n for n in CVTS[t] if OPS[n].params[0] in self.types]
        sat = [n for n in ops if 'trunc_sat' in n]
        op = self.rng.choice(sat) if sat and self.rng.random() < 0.3 else self.rng.choice(ops)
        self.expr(OPS[op].params[0], d - 1)
        self.emit(op)

    def e_select(self, t, d):
        self.expr(t, d - 1)
        self.expr(t, d - 1)
        self.expr(I32, d - 1)
        self.emit('select')

    def e_tee(self, t, d):
        self.expr(t, d - 1)
        self.emit('local.tee', self.rng.choice(self.locals_of(t, True)))

    # ---- memory
    def addr(self, d, width, aligned=False):
        """Push an in-bounds address; returns a static offset such that addr+offset+width <= 65536."""
        rng = self.rng
        mask = ADDR_MASK & ~(width - 1) if (aligned or rng.random() < 0.3) else rng.choice((ADDR_MASK, 0xFF, 0xFFD, 0x7))
        if rng.random() < 0.35:
            self.const(I32, rng.choice((0, 1, 4, 8, 16, 0xFF8, rng.randint(0, ADDR_MASK))) & mask)
        else:
            self.expr(I32, d - 1)
            self.const(I32, mask)
            self.emit('i32.and')
        r = rng.random()
        off = 0 if r < 0.3 else rng.randint(0, 64) if r < 0.7 else rng.randint(0, MAX_OFFSET) \
            if r < 0.95 else MAX_OFFSET
        if aligned:
            off &= ~(width - 1)
        return off

    def memarg(self, op, d, atomic=False):
        width = OPS[op].width
        off = self.addr(d, width, aligned=atomic)
        nat = natural_align(op)
        return (nat if atomic else self.rng.randint(0, nat)), off

    def e_load(self, t, d):
        op = self.rng.choice(LOADS[t])
        a, off = self.memarg(op, d)
        self.emit(op, a, off)

    def e_atomic(self, t, d):
        kind = self.rng.choice(('load', 'rmw', 'rmw', 'cmpxchg'))
        op = self.rng.choice({'load': ALOADS, 'rmw': ARMW, 'cmpxchg': ACMPXCHG}[kind][t])
        a, off = self.memarg(op, d, atomic=True)
        if kind != 'load':
            self.expr(t, d - 1)
        if kind == 'cmpxchg':
            self.expr(t, d - 1)
        self.emit(op, a, off)

    def e_notify(self, d):
        a, off = self.memarg('memory.atomic.notify', d, atomic=True)
        self.const(I32, self.rng.choice((0, 0, 1, 0xFFFFFFFF)))
        self.emit('memory.atomic.notify', a, off)

    def e_memgrow(self, d):
        r = self.rng.random()
        if r < 0.6:
            self.const(I32, self.rng.choice((0, 0, 1, 1, 2)))
        elif r < 0.8:
            self.expr(I32, d - 1)
            self.const(I32, 1)
            self.emit('i32.and')
        else:
            self.const(I32, self.rng.choice((0x10000, 0x10001, 0xFFFFFFFF, 0x80000000, 0x7FFFFFFF)))
        self.emit('memory.grow')

    # ---- structured expressions
    def e_block(self, t, d):
        n = self.rng.randint(1, 3) if self.w.get('nest_blocks', 0) and self.rng.random() < self.w['nest_blocks'] else 1

        def body(k):
            def g():
                if k > 1 and self.can_nest():
                    self.structured('block', t, body(k - 1))
                    if not self.dead() and t in UNOPS and self.rng.random() < 0.5:
                        self.emit(self.rng.choice(UNOPS[t]))
                else:
                    self.stmts(self.rng.randint(0, 2), d - 1)
                    self.expr(t, d - 1)
            return g
        self.structured('block', t, body(n))

    def e_if(self, t, d):
        self.expr(I32, d - 1)
        self.structured('if', t, lambda: (self.stmts(self.rng.randint(0, 1), d - 1), self.expr(t, d - 1)),
                        lambda: (self.stmts(self.rng.randint(0, 1), d - 1), self.expr(t, d - 1)))

    def loop_common(self, bt, d, tail):
        n = self.rng.randint(1, min(5, MAX_MULT // self.mult))
        c = self.new_local(I32, reserved=True)
        self.const(I32, n)
        self.emit('local.set', c)
        old = self.mult
        self.mult *= n

        def body():
            fr = self.frames[-1]
            self.stmts(self.rng.randint(1, 3), d - 1)
            if not self.dead():
                self.back_edge(0, fr)
            tail()
        self.structured('loop', bt, body, counter=c)
        self.mult = old

    def back_edge(self, l, fr):
        """Decrement the loop counter of frame fr and branch to it while it is still positive."""
        self.emit('local.get', fr.counter)
        self.const(I32, 1)
        self.emit('i32.sub')
        self.emit('local.tee', fr.counter)
        self.const(I32, 0)
        self.emit('i32.gt_s')
        self.emit('br_if', l)

    def e_loop(self, t, d):
        self.loop_common(t, d, lambda: self.expr(t, d - 1))

    # ---- branches
    def targets(self, types=None, min_depth=0):
        """Labels (relative indices) of non-loop frames, optionally with the given label types."""
        out = []
        for l in range(min_depth, len(self.frames)):
            fr = self.frames[-1 - l]
            if fr.kind == 'loop':
                continue
            if types is None or fr.label_types == types:
                out.append(l)
        return out

    def extras(self, d):
        n = self.rng.choice((0, 0, 1, 1, 2, 3)) if self.w.get('extras', 0) else 0
        for _ in range(n):
            self.expr(self.rand_type(), min(d - 1, 1))
        return n

    def pick_label(self, ls):
        deep = [l for l in ls if l >= 1]
        return self.rng.choice(deep) if deep and self.rng.random() < 0.75 else self.rng.choice(ls)

    def s_br(self, d):
        """(diverging) extras; label values; br l; dead code."""
        ls = self.targets()
        l = self.pick_label(ls)
        self.extras(d)
        for t in self.label(l).label_types:
            self.expr(t, d - 1)
        self.emit('br', l)
        self.dead_code()

    def s_br_table(self, d):
        ls = self.targets()
        dflt = self.pick_label(ls)
        lt = self.label(dflt).label_types
        same = self.targets(lt)
        labels = [self.rng.choice(same) for _ in range(self.rng.choice((0, 1, 2, 3, 4, 8)))]
        self.extras(d)
        for t in lt:
            self.expr(t, d - 1)
        if self.rng.random() < 0.4:
            self.const(I32, self.rng.randint(0, len(labels) + 1))
        else:
            self.expr(I32, d - 1)
        self.emit('br_table', labels, dflt)
        self.dead_code()

    def s_return(self, d):
        self.extras(d)
        for t in self.frames[0].results:
            self.expr(t, d - 1)
        self.emit('return')
        self.dead_code()

    def e_br_if_val(self, t, d):
        """block (result t) extras value cond br_if L(+1) br 0 end -- both carry a value over extras."""
        ls = self.targets((t,))

        def body():
            self.extras(d)
            self.expr(t, d - 1)
            if ls and not self.dead():
                self.expr(I32, d - 1)
                self.emit('br_if', self.pick_label(ls) + 1)
            if self.rng.random() < 0.7 or len(self.stack) - self.frames[-1].height != 1:
                self.emit('br', 0)
                self.dead_code()
        self.structured('block', t, body)

    # ---- calls
    def call_targets(self, results=None):
        c = self.ctx
        out = []
        for f, ft in enumerate(c.func_sigs):
            if results is not None and ft.results != results:
                continue
            if f < c.n_func_imports:
                out.append(f)
            elif c.depth_guard:
                if self.call_sites < MAX_CALL_SITES and self.mult <= CALL_MULT and self.can_nest():
                    out.append(f)
            elif f < self.func_index and c.dag_calls and self.call_sites < 2 and self.mult <= CALL_MULT:
                out.append(f)
        return out

    def call_args(self, ft, d, guarded):
        for i, t in enumerate(ft.params):
            if guarded and i == 0:
                self.emit('local.get', 0)
                self.const(I32, 1)
                self.emit('i32.sub')
            else:
                self.expr(t, d - 1)

    def guarded(self, ft, d, do_call):
        """local.get 0; if (result..) <args, call> else <defaults> end"""
        self.call_sites += 1
        bt = ft.results[0] if ft.results else None
        self.emit('local.get', 0)
        self.structured('if', bt, do_call,
                        (lambda: [self.expr(t, 1) for t in ft.results]) if (bt is not None or self.rng.random() < 0.3) else None)

    def e_call(self, t, d, results=None):
        results = (t,) if results is None else results
        f = self.rng.choice(self.call_targets(results))
        ft = self.ctx.func_sigs[f]
        if f >= self.ctx.n_func_imports and self.ctx.depth_guard:
            self.guarded(ft, d, lambda: (self.call_args(ft, d, True), self.emit('call', f)))
        else:
            if f >= self.ctx.n_func_imports:
                self.call_sites += 1
            self.call_args(ft, d, False)
            self.emit('call', f)

    def indirect_targets(self, results=None):
        """Table slots usable for a call_indirect that will not recurse unboundedly."""
        ok = set(self.call_targets(results))
        return [(s, f) for s, f in enumerate(self.ctx.table) if f is not None and f in ok]

    def e_call_indirect(self, t, d, results=None):
        c, rng = self.ctx, self.rng
        results = (t,) if results is None else results
        slot, f = rng.choice(self.indirect_targets(results))
        ft = c.func_sigs[f]
        ti = c.type_index_of(f) if rng.random() < 0.7 else c.any_type_index(ft)
        need_guard = c.depth_guard and any(c.func_sigs[g] == ft for g in range(c.n_func_imports, len(c.func_sigs)))

        def index():
            r = rng.random()
            if r < 0.8:
                self.const(I32, slot)
            elif r < 0.9 and c.depth_guard and len(c.table) > 0:
                # dynamic index over a power-of-two window of the table (may trap on null / type mismatch)
                m = 1
                while m * 2 <= len(c.table):
                    m *= 2
                self.expr(I32, d - 1)
                self.const(I32, m - 1)
                self.emit('i32.and')
            else:
                bad = [s for s, g in enumerate(c.table) if g is None or c.func_sigs[g] != ft]
                self.const(I32, rng.choice(bad + [len(c.table), len(c.table) + 1, 0xFFFFFFFF]))

        def do():
            self.call_args(ft, d, need_guard)
            index()
            self.emit('call_indirect', ti, 0)
        if need_guard:
            self.guarded(ft, d, do)
        else:
            if f >= c.n_func_imports:
                self.call_sites += 1
            do()

    # ------------------------------------------------------------ statements
    def stmts(self, n, d):
        for _ in range(n):
            if self.dead() or self.budget <= 0:
                return
            self.stmt(d)
            if self.dead():
                self.cleanup()

    def stmt(self, d):
        w, c = self.w, self.ctx
        o = [(w.get('nop', 0.2), lambda: self.emit('nop'))]

        def add(name, fn, cond=True):
            wt = w.get(name, 0)
            if wt > 0 and cond:
                o.append((wt, fn))
        add('set', lambda: self.s_set(d), any(i not in self.reserved for i in range(len(self.locals))))
        add('gset', lambda: self.s_gset(d), bool(c.mutable_globals))
        add('drop', lambda: (self.expr(self.rand_type(), d), self.emit('drop')))
        add('store', lambda: self.s_store(d), c.has_mem)
        add('atomic_store', lambda: self.s_atomic_store(d), c.has_mem)
        add('fence', lambda: self.emit('atomic.fence'), c.has_mem)
        add('memfill', lambda: self.s_memfill(d), c.has_mem)
        add('memcopy', lambda: self.s_memcopy(d), c.has_mem)
        add('meminit', lambda: self.s_meminit(d), c.has_mem and bool(c.datas) and c.datacount)
        add('datadrop', lambda: self.emit('data.drop', self.rng.randrange(len(c.datas))),
            c.has_mem and bool(c.datas) and c.datacount)
        if self.can_nest():
            add('s_block', lambda: self.structured('block', None, lambda: self.stmts(self.rng.randint(1, 3), d - 1)))
            add('s_if', lambda: self.s_if(d))
            add('s_loop', lambda: self.loop_common(None, d, lambda: None), self.mult * 2 <= MAX_MULT)
        add('br', lambda: self.s_br(d), len(self.frames) >= 2)
        add('br_if', lambda: self.s_br_if(d), bool(self.targets(())))
        add('br_table', lambda: self.s_br_table(d), len(self.frames) >= 2)
        add('continue', lambda: self.s_continue(), any(f.kind == 'loop' for f in self.frames))
        add('return', lambda: self.s_return(d))
        add('unreachable', lambda: (self.emit('unreachable'), self.dead_code()))
        add('call', lambda: self.s_call(d), bool(self.call_targets()))
        add('call_indirect', lambda: self.s_call(d, True), c.has_table and bool(self.indirect_targets()))
        self.pick(o)

    def s_set(self, d):
        i = self.rng.choice([i for i in range(len(self.locals)) if i not in self.reserved])
        self.expr(self.locals[i], d)
        self.emit('local.set', i)

    def s_gset(self, d):
        g = self.rng.choice(self.ctx.mutable_globals)
        self.expr(self.ctx.globals[g].valtype, d)
        self.emit('global.set', g)

    def s_store(self, d):
        t = self.rand_type()
        op = self.rng.choice(STORES[t])
        a, off = self.memarg(op, d)
        self.expr(t, d - 1)
        self.emit(op, a, off)

    def s_atomic_store(self, d):
        t = self.rng.choice((I32, I64))
        op = self.rng.choice(ASTORES[t])
        a, off = self.memarg(op, d, atomic=True)
        self.expr(t, d - 1)
        self.emit(op, a, off)

    def small_addr(self, d, base_max=0xE000):
        rng = self.rng
        if rng.random() < 0.5:
            self.const(I32, rng.randint(0, base_max + ADDR_MASK))
        else:
            self.expr(I32, d - 1)
            self.const(I32, ADDR_MASK)
            self.emit('i32.and')
            if rng.random() < 0.5:
                self.const(I32, rng.randint(0, base_max))
                self.emit('i32.add')

    def small_len(self, d):
        if self.rng.random() < 0.6:
            self.const(I32, self.rng.choice((0, 0, 1, 2, 3, 4, 7, 8, 9, 16, 31, 64, 255)))
        else:
            self.expr(I32, d - 1)
            self.const(I32, 0xFF)
            self.emit('i32.and')

    def s_memfill(self, d):
        self.small_addr(d)
        self.expr(I32, d - 1)
        self.small_len(d)
        self.emit('memory.fill')

    def s_memcopy(self, d):
        self.small_addr(d)
        self.small_addr(d)
        self.small_len(d)
        self.emit('memory.copy')

    def s_meminit(self, d):
        c, rng = self.ctx, self.rng
        passive = [i for i, (mode, n) in enumerate(c.datas) if mode == 'passive']
        k = rng.choice(passive) if passive and rng.random() < 0.9 else rng.randrange(len(c.datas))
        mode, n = c.datas[k]
        if mode == 'active':
            n = 0          # active segments are dropped after instantiation
        src = rng.randint(0, n)
        self.small_addr(d)
        self.const(I32, src)
        self.const(I32, rng.randint(0, n - src))
        self.emit('memory.init', k)

    def s_if(self, d):
        self.expr(I32, d - 1)
        self.structured('if', None, lambda: self.stmts(self.rng.randint(1, 3), d - 1),
                        (lambda: self.stmts(self.rng.randint(0, 2), d - 1)) if self.rng.random() < 0.5 else None)

    def s_br_if(self, d):
        l = self.pick_label(self.targets(()))
        n = self.extras(d)
        self.expr(I32, d - 1)
        self.emit('br_if', l)
        if self.dead():
            self.cleanup()
        else:
            for _ in range(n):
                self.emit('drop')

    def s_continue(self):
        ls = [l for l in range(len(self.frames)) if self.frames[-1 - l].kind == 'loop']
        l = self.rng.choice(ls)
        fr = self.frames[-1 - l]
        fr.has_continue = True
        self.back_edge(l, fr)

    def s_call(self, d, indirect=False):
        if indirect:
            slot, f = self.rng.choice(self.indirect_targets())
            res = self.ctx.func_sigs[f].results
            self.e_call_indirect(None, d, res)
        else:
            f = self.rng.choice(self.call_targets())
            res = self.ctx.func_sigs[f].results
            self.e_call(None, d, res)
        for _ in res:
            self.emit('drop')

    def cleanup(self):
        """In unreachable code drop every concrete value above the frame base."""
        if self.dead():
            while len(self.stack) > self.frames[-1].height:
                self.emit('drop')

    # ------------------------------------------------------------ dead code
    def attempt(self, fn):
        """Run fn(); if it would not validate against the concrete values on the stack, undo it."""
        fr = self.frames[-1]
        snap = (list(self.stack), fr.unreachable, len(self.out), len(self.frames), self.out)
        try:
            fn()
            return True
        except GenBug:
            self.stack[:] = snap[0]
            fr.unreachable = snap[1]
            self.out = snap[4]
            del self.out[snap[2]:]
            del self.frames[snap[3]:]
            return False

    def dead_code(self):
        n = len(self.frames)
        self._dead_code()
        assert len(self.frames) == n

    def _dead_code(self):
        """0-6 instructions that are only valid because the stack is polymorphic here."""
        rng, c = self.rng, self.ctx
        assert self.dead()
        for _ in range(rng.randint(0, 6) if self.w.get('dead', 1) else 0):
            def one():
                r = rng.random()
                t = self.rand_type()
                if r < 0.12:
                    self.emit('drop')
                elif r < 0.30:
                    self.emit(rng.choice(BINOPS[t] if rng.random() < 0.7 else UNOPS[t]))
                elif r < 0.38:
                    self.leaf(t)
                elif r < 0.45:
                    self.emit('select')
                elif r < 0.52:
                    ws = [i for i in range(len(self.locals)) if i not in self.reserved]
                    if ws:
                        self.emit(rng.choice(('local.set', 'local.tee')), rng.choice(ws))
                elif r < 0.60:
                    ls = self.targets()
                    if ls:
                        self.emit('br_if', rng.choice(ls))
                elif r < 0.68:
                    ls = self.targets()
                    k = rng.random()
                    if k < 0.4 and ls:
                        self.emit('br', rng.choice(ls))
                    elif k < 0.6 and ls:
                        l = rng.choice(ls)
                        same = self.targets(self.label(l).label_types)
                        self.emit('br_table', [rng.choice(same) for _ in range(rng.randint(0, 3))], l)
                    elif k < 0.8:
                        self.emit('return')
                    else:
                        self.emit('unreachable')
                elif r < 0.72:
                    self.emit('nop')
                elif r < 0.86 and len(self.frames) < self.max_nest + 2:
                    bt = rng.choice((None, t))
                    kind = rng.choice(('block', 'if', 'if', 'loop'))

                    def body():
                        k = rng.random()
                        if k < 0.3 and kind != 'loop':
                            if bt is not None:
                                self.leaf(bt)
                            self.emit('br', 0)
                        elif k < 0.5:
                            self.emit('unreachable')
                            if rng.random() < 0.5:
                                self.emit(rng.choice(BINOPS[t]))
                                self.emit('drop')
                        if bt is not None and (not self.dead() or rng.random() < 0.5):
                            self.leaf(bt)
                    if kind == 'if':
                        self.structured('if', bt, body, body if (bt is not None or rng.random() < 0.6) else None)
                    else:
                        self.structured(kind, bt, body)
                elif r < 0.93 and c.has_mem:
                    if rng.random() < 0.5:
                        op = rng.choice(LOADS[t])
                        self.emit(op, rng.randint(0, natural_align(op)), rng.randint(0, 100))
                    else:
                        op = rng.choice(STORES[t])
                        self.emit(op, rng.randint(0, natural_align(op)), rng.randint(0, 100))
                else:
                    fs = self.call_targets()
                    fs = [f for f in fs if f < c.n_func_imports]
                    if fs:
                        self.emit('call', rng.choice(fs))
                    else:
                        self.emit('nop')
            self.attempt(one)
        # a nested frame created above starts reachable; we are back in the unreachable frame here
        self.cleanup()

    # ------------------------------------------------------------ whole function
    def function(self, prologue=None, n_stmts=None):
        fr = Frame('func', self.sig.results, self.sig.results, 0)
        self.frames = [fr]
        self.stack = []
        self.out = []
        if prologue:
            prologue(self)
        self.stmts(self.rng.randint(0, 5) if n_stmts is None else n_stmts, self.expr_depth)
        for t in self.sig.results:
            self.expr(t, self.expr_depth)
        self._end_frame(fr)
        return self.out
