"""Binary encoder with an explicit LEB128 padding policy.

    encode(module, policy=Policy()) -> bytes

Every unsigned LEB field (section sizes, vector counts, indices, memarg align/offset, local
counts, body sizes, name lengths, br_table entries, prefixed sub-opcodes) and every signed LEB
immediate (i32.const s32, i64.const s64) goes through the policy: 'minimal', 'max' (5 bytes for
32-bit fields, 10 for 64-bit) or 'random' (uniform between minimal and max, from policy.rng).
Block types (0x40 / value type) and the reserved 0x00 memory-index bytes (memory.size/grow/fill/copy/init,
atomic.fence) are single bytes and never padded (V8 rejects `80 00` there); the TABLE index of call_indirect is a
u32 (`80 00`, or `80 80 80 80 00` as LLVM emits for relocatable indices) and follows the policy.

The locals vector of a function body has many encodings of the same sequence of locals (vec(locals) denotes the
concatenation t^n): `Policy(locals=…)` re-groups it — zero-count groups at the beginning / in the middle / at the
end, groups split, adjacent groups of one type merged (`relocals`).
"""
import random as _random

from .wasm_ast import (OPS, SECTION_ORDER, KIND_CODE, NameSection, EMPTY_BLOCK, uses_data_index,
                       to_signed)

LOCALS_MODES = ('keep', 'zero_lead', 'zero_mid', 'zero_end', 'zero_all', 'split', 'merge', 'random')
_VT_ORDER = (0x7E, 0x7C, 0x7F, 0x7D)      # i64, f64, i32, f32


def _other_type(t):
    """a value type different from `t` (so that a lookup that returns the empty group's type is visibly wrong)"""
    for c in _VT_ORDER:
        if c != t:
            return c


def expand_locals(groups):
    out = []
    for n, t in groups:
        out += [t] * n
    return out


def relocals(groups, mode, rng=None):
    """Another grouping [(count, valtype)] of the same sequence of locals.

    zero_lead: one or two zero-count groups first;  zero_mid: a zero-count group between any two groups and inside
    every group of two or more;  zero_end: a zero-count group last;  zero_all: all three;  split: every group of
    n >= 2 locals becomes (1, n-1);  merge: adjacent groups of one type are merged and zero-count groups dropped (the
    canonical run-length form);  random: a random mixture (needs rng)."""
    groups = [(int(n), t) for n, t in groups]
    if mode == 'keep':
        return groups
    if mode == 'merge':
        out = []
        for n, t in groups:
            if n == 0:
                continue
            if out and out[-1][1] == t:
                out[-1] = (out[-1][0] + n, t)
            else:
                out.append((n, t))
        return out
    if mode == 'split':
        out = []
        for n, t in groups:
            if n >= 2:
                out += [(1, t), (n - 1, t)]
            else:
                out.append((n, t))
        return out
    first = groups[0][1] if groups else 0x7F
    if mode == 'zero_lead':
        return [(0, _other_type(first)), (0, first)] + groups
    if mode == 'zero_end':
        return groups + [(0, _other_type(groups[-1][1] if groups else 0x7F))]
    if mode == 'zero_mid':
        out = []
        for k, (n, t) in enumerate(groups):
            if k:
                out.append((0, _other_type(t)))
            if n >= 2:
                out += [(n // 2, t), (0, _other_type(t)), (n - n // 2, t)]
            else:
                out.append((n, t))
        return out
    if mode == 'zero_all':
        return relocals(relocals(relocals(groups, 'zero_mid'), 'zero_lead'), 'zero_end')
    if mode == 'random':
        if rng is None:
            rng = _random.Random(0)
        out = []
        types = expand_locals(groups)
        for _ in range(rng.choice((0, 0, 1, 2))):
            out.append((0, rng.choice(_VT_ORDER)))
        i = 0
        while i < len(types):
            j = i
            while j < len(types) and types[j] == types[i]:
                j += 1
            n = rng.randint(1, j - i)
            out.append((n, types[i]))
            i += n
            if rng.random() < 0.25:
                out.append((0, rng.choice(_VT_ORDER)))
        return out
    raise ValueError('unknown locals mode %r' % (mode,))


def _max_len(bits):
    return (bits + 6) // 7


def leb_u(value, pad_to=None, bits=32):
    """Unsigned LEB128 of `value`; padded with 0x80 continuation bytes to exactly `pad_to` bytes."""
    if value < 0 or value >> bits:
        raise ValueError('u%d out of range: %r' % (bits, value))
    out = bytearray()
    v = value
    while True:
        b = v & 0x7F
        v >>= 7
        if v:
            out.append(b | 0x80)
        else:
            out.append(b)
            break
    if pad_to is not None:
        if pad_to < len(out) or pad_to > _max_len(bits):
            raise ValueError('cannot encode %r in %r bytes' % (value, pad_to))
        while len(out) < pad_to:
            out[-1] |= 0x80
            out.append(0x00)
    return bytes(out)


def leb_s(value, bits, pad_to=None):
    """Signed LEB128 of `value` (an s<bits> integer); padding bytes carry the sign (0xFF.. 0x7F)."""
    if value < -(1 << (bits - 1)) or value >= (1 << (bits - 1)):
        raise ValueError('s%d out of range: %r' % (bits, value))
    out = bytearray()
    v = value
    while True:
        b = v & 0x7F
        v >>= 7   # arithmetic shift
        if (v == 0 and not (b & 0x40)) or (v == -1 and (b & 0x40)):
            out.append(b)
            break
        out.append(b | 0x80)
    if pad_to is not None:
        if pad_to < len(out) or pad_to > _max_len(bits):
            raise ValueError('cannot encode %r in %r bytes' % (value, pad_to))
        fill = 0x7F if value < 0 else 0x00
        while len(out) < pad_to:
            out[-1] |= 0x80
            out.append(fill)
    return bytes(out)


def leb_u_len(value):
    n = 1
    while value >= 0x80:
        value >>= 7
        n += 1
    return n


class Policy(object):
    """Encoding options.  None of them changes decode(encode(m)) except `datacount` when forced.

    leb:        'minimal' | 'max' | 'random'  (random needs rng, a random.Random)
    pad_subop:  also pad the LEB sub-opcode after 0xFC / 0xFE prefixes (spec-legal)
    emit_empty: emit type/import/.../data sections even when they have 0 entries: True (all of them) or a set of section
                ids (only those; the data-count section, id 12, is governed by `datacount`)
    data_flag:  'keep' (segment hint, default 0) | 0 | 2 | 'random'  for active data segments
    datacount:  'auto' (follow module.datacount) | True | False
    locals:     grouping of the locals vector of every body, one of LOCALS_MODES (see `relocals`)
    table_index_width: None (follow `leb`) | 1..5: width of the call_indirect table index
    """

    def __init__(self, leb='minimal', rng=None, pad_subop=True, emit_empty=False,
                 data_flag='keep', datacount='auto', locals='keep', table_index_width=None):
        assert leb in ('minimal', 'max', 'random')
        assert locals in LOCALS_MODES
        if leb == 'random' and rng is None:
            rng = _random.Random(0)
        self.leb, self.rng, self.pad_subop = leb, rng, pad_subop
        self.emit_empty, self.data_flag, self.datacount = emit_empty, data_flag, datacount
        self.locals, self.table_index_width = locals, table_index_width

    def _width(self, minimal, bits):
        if self.leb == 'minimal':
            return None
        mx = _max_len(bits)
        if self.leb == 'max':
            return mx
        return self.rng.randint(minimal, mx)

    def u(self, value, bits=32):
        if self.leb == 'minimal':
            return leb_u(value, None, bits)
        return leb_u(value, self._width(leb_u_len(value), bits), bits)

    def s(self, value, bits):
        m = leb_s(value, bits)
        if self.leb == 'minimal':
            return m
        return leb_s(value, bits, self._width(len(m), bits))


MINIMAL = Policy()


class _Enc(object):
    def __init__(self, module, policy):
        self.m, self.p = module, policy

    # ---- primitives
    def u32(self, v):
        return self.p.u(v, 32)

    def vec(self, items, fn):
        return self.u32(len(items)) + b''.join(fn(x) for x in items)

    def name(self, b):
        return self.u32(len(b)) + bytes(b)

    def valtype(self, t):
        return bytes([t])

    def limits(self, l):
        if l.shared:
            if l.max is None:
                return b'\x02' + self.u32(l.min)   # invalid per spec; encodable for negative tests
            return b'\x03' + self.u32(l.min) + self.u32(l.max)
        if l.max is None:
            return b'\x00' + self.u32(l.min)
        return b'\x01' + self.u32(l.min) + self.u32(l.max)

    def tabletype(self, t):
        return bytes([t.elemtype]) + self.limits(t.limits)

    def globaltype(self, g):
        return bytes([g.valtype, 1 if g.mutable else 0])

    def functype(self, ft):
        return b'\x60' + self.vec(ft.params, self.valtype) + self.vec(ft.results, self.valtype)

    def blocktype(self, bt):
        return bytes([EMPTY_BLOCK if bt is None else bt])

    # ---- instructions
    def opcode(self, info):
        if info.prefix is None:
            return bytes([info.code])
        if self.p.pad_subop:
            return bytes([info.prefix]) + self.u32(info.code)
        return info.enc

    def instr(self, i, out):
        info = OPS[i.op]
        out += self.opcode(info)
        k = info.imm
        if k == 'none':
            pass
        elif k == 'block':
            out += self.blocktype(i.imm[0])
            self.seq(i.body, out)
            out.append(0x0B)
        elif k == 'if':
            out += self.blocktype(i.imm[0])
            self.seq(i.body, out)
            if i.else_body is not None:
                out.append(0x05)
                self.seq(i.else_body, out)
            out.append(0x0B)
        elif k in ('label', 'func', 'local', 'global', 'data'):
            out += self.u32(i.imm[0])
        elif k == 'br_table':
            out += self.vec(i.imm[0], self.u32) + self.u32(i.imm[1])
        elif k == 'call_indirect':
            out += self.u32(i.imm[0])
            tb = i.imm[1] if len(i.imm) > 1 else 0
            if self.p.table_index_width is not None:
                out += leb_u(tb, self.p.table_index_width, 32)
            else:
                out += self.u32(tb)
        elif k == 'memarg':
            out += self.u32(i.imm[0]) + self.u32(i.imm[1])
        elif k in ('mem0', 'memory.fill', 'fence'):
            out.append(0)
        elif k == 'i32':
            out += self.p.s(to_signed(i.imm[0], 32), 32)
        elif k == 'i64':
            out += self.p.s(to_signed(i.imm[0], 64), 64)
        elif k == 'f32':
            out += (i.imm[0] & 0xFFFFFFFF).to_bytes(4, 'little')
        elif k == 'f64':
            out += (i.imm[0] & 0xFFFFFFFFFFFFFFFF).to_bytes(8, 'little')
        elif k == 'memory.init':
            out += self.u32(i.imm[0])
            out.append(0)
        elif k == 'memory.copy':
            out += b'\x00\x00'
        else:
            raise AssertionError(k)

    def seq(self, instrs, out):
        for i in instrs:
            self.instr(i, out)

    def expr(self, instrs):
        out = bytearray()
        self.seq(instrs, out)
        out.append(0x0B)
        return bytes(out)

    def const_expr(self, ins):
        return self.expr([ins] if not isinstance(ins, (list, tuple)) else ins)

    # ---- sections
    def section(self, sid, payload):
        return bytes([sid]) + self.u32(len(payload)) + payload

    def import_(self, im):
        b = self.name(im.module) + self.name(im.field) + bytes([KIND_CODE[im.kind]])
        if im.kind == 'func':
            return b + self.u32(im.desc)
        if im.kind == 'table':
            return b + self.tabletype(im.desc)
        if im.kind == 'memory':
            return b + self.limits(im.desc)
        return b + self.globaltype(im.desc)

    def export(self, e):
        return self.name(e.name) + bytes([KIND_CODE[e.kind]]) + self.u32(e.index)

    def global_(self, g):
        return self.globaltype(g.type) + self.const_expr(g.init)

    def elem(self, e):
        return self.u32(e.table) + self.const_expr(e.offset) + self.vec(e.funcs, self.u32)

    def data(self, d):
        if d.mode == 'passive':
            return b'\x01' + self.u32(len(d.data)) + d.data
        flag = self.p.data_flag
        if flag == 'keep':
            flag = d.enc_flag if d.enc_flag in (0, 2) else 0
        elif flag == 'random':
            flag = self.p.rng.choice((0, 2)) if self.p.rng else 0
        if d.memory != 0:
            flag = 2
        if flag == 0:
            return b'\x00' + self.const_expr(d.offset) + self.u32(len(d.data)) + d.data
        return b'\x02' + self.u32(d.memory) + self.const_expr(d.offset) + self.u32(len(d.data)) + d.data

    def code(self, f):
        groups = relocals(f.locals, self.p.locals, self.p.rng)
        body = self.vec(groups, lambda l: self.u32(l[0]) + self.valtype(l[1])) + self.expr(f.body)
        return self.u32(len(body)) + body

    def name_section(self, ns):
        out = b''
        if ns.module_name is not None:
            out += self.section(0, self.name(ns.module_name))
        if ns.func_names is not None:
            out += self.section(1, self.vec(ns.func_names, lambda e: self.u32(e[0]) + self.name(e[1])))
        if ns.local_names is not None:
            out += self.section(2, self.vec(ns.local_names, lambda e: self.u32(e[0]) + self.vec(
                e[1], lambda l: self.u32(l[0]) + self.name(l[1]))))
        return out

    def custom(self, c):
        payload = self.name_section(c.payload) if isinstance(c.payload, NameSection) else c.payload
        return self.section(0, self.name(c.name) + payload)

    def module(self):
        m, p = self.m, self.p
        dc = p.datacount
        if dc == 'auto':
            dcv = m.datacount
        elif dc:
            dcv = m.datacount if m.datacount is not None else len(m.datas)
        else:
            dcv = None
        bodies = {
            1: (m.types, lambda: self.vec(m.types, self.functype)),
            2: (m.imports, lambda: self.vec(m.imports, self.import_)),
            3: (m.funcs, lambda: self.vec(m.funcs, lambda f: self.u32(f.type))),
            4: (m.tables, lambda: self.vec(m.tables, self.tabletype)),
            5: (m.mems, lambda: self.vec(m.mems, self.limits)),
            6: (m.globals, lambda: self.vec(m.globals, self.global_)),
            7: (m.exports, lambda: self.vec(m.exports, self.export)),
            9: (m.elems, lambda: self.vec(m.elems, self.elem)),
            10: (m.funcs, lambda: self.vec(m.funcs, self.code)),
            11: (m.datas, lambda: self.vec(m.datas, self.data)),
        }
        out = bytearray(b'\x00asm\x01\x00\x00\x00')
        customs = sorted(enumerate(m.customs), key=lambda ic: (max(0, min(12, ic[1].slot)), ic[0]))
        ci = 0
        for k, sid in enumerate(SECTION_ORDER):
            while ci < len(customs) and customs[ci][1].slot <= k:
                out += self.custom(customs[ci][1])
                ci += 1
            if sid == 8:
                if m.start is not None:
                    out += self.section(8, self.u32(m.start))
            elif sid == 12:
                if dcv is not None:
                    out += self.section(12, self.u32(dcv))
            else:
                items, fn = bodies[sid]
                if items or p.emit_empty is True or (p.emit_empty and sid in p.emit_empty):
                    out += self.section(sid, fn())
        while ci < len(customs):
            out += self.custom(customs[ci][1])
            ci += 1
        return bytes(out)


def encode(module, policy=None):
    """Encode `module` (wasm_ast.Module) to bytes under `policy` (default: minimal LEBs)."""
    return _Enc(module, policy or MINIMAL).module()


def encode_expr(instrs, policy=None):
    """Encode an instruction sequence followed by `end` (for tests / mutators)."""
    return _Enc(None, policy or MINIMAL).expr(instrs)


def needs_datacount(module):
    return uses_data_index(module)
