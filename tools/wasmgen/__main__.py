"""CLI: python3 -m wasmgen --replay SEED:PROFILE:INDEX [-o out.wasm] [--leb minimal|max|random] [--dump]"""
import argparse
import random
import sys

from . import gen
from .encode import encode, Policy


def main():
    ap = argparse.ArgumentParser(prog='wasmgen')
    ap.add_argument('--replay', required=True, help='SEED:PROFILE:INDEX')
    ap.add_argument('-o', '--out')
    ap.add_argument('--leb', default='minimal', choices=('minimal', 'max', 'random'))
    ap.add_argument('--dump', action='store_true', help='print the module structure')
    a = ap.parse_args()
    seed, profile, index = a.replay.rsplit(':', 2)
    m = gen.module_for(seed, profile, int(index))
    b = encode(m, Policy(a.leb, random.Random('pad:' + a.replay)))
    if a.dump:
        for k, f in enumerate(m.funcs):
            print('func', k + len(m.imported('func')), m.types[f.type], f.locals)
            _dump(f.body, 1)
        print('meta', m.meta)
    if a.out:
        with open(a.out, 'wb') as f:
            f.write(b)
    elif not a.dump:
        sys.stdout.write(b.hex() + '\n')


def _dump(body, ind):
    for i in body:
        print('  ' * ind + i.op + ' ' + ' '.join(str(x) for x in i.imm))
        if i.body is not None:
            _dump(i.body, ind + 1)
        if i.else_body is not None:
            print('  ' * ind + 'else')
            _dump(i.else_body, ind + 1)


if __name__ == '__main__':
    main()
