"""Typed random module generator: gen_module(rng, profile) -> wasm_ast.Module (always valid).

    module_for(seed, profile, index)   deterministic replay of one module
    arg_vectors(rng, module, func_index, n)  boundary-heavy argument vectors
    add_random_customs(rng, module)    sprinkle custom sections at section boundaries

module.meta: {'profile', 'imports_spec': {'globals': {import ordinal: bits}}, 'exports': [(name, func index)]}
"""
import random

from .wasm_ast import (I32, I64, F32, F64, VALTYPES, Module, FuncType, Limits, TableType, GlobalType, Import,
                       Export, Function, Global, ElemSegment, DataSegment, CustomSection, NameSection,
                       Instr, const as mk_const, i32_const, uses_data_index, VT_NAME)
from .gen_body import FuncGen, rand_bits, GenBug

PROFILES = ('int', 'float', 'control', 'calls', 'memory', 'atomics', 'init', 'names')

W_INT = dict(const=2, local=3, unop=3, binop=8, cmp=2, cvt=2, select=1, tee=1, set=3, drop=1, s_if=0.5, **{'if': 0.5})
W_FLOAT = dict(const=2, local=3, unop=4, binop=7, cmp=2, cvt=6, select=1, tee=1, set=3, drop=1)
W_CONTROL = dict(const=2, local=3, unop=1, binop=3, cmp=1.5, cvt=1, select=1.5, tee=1, block=3, loop=1.2,
                 br_if_val=2.5, br=1.2, br_table=1.5, set=3, drop=1.5, s_block=2.5, s_if=3, s_loop=1.5,
                 br_if=2.5, unreachable=0.15, extras=1, nest_blocks=0.7, gset=1, nop=0.5,
                 **{'if': 3, 'return': 0.6, 'continue': 1, 'global': 1})
W_CALLS = dict(const=2, local=3, unop=1, binop=3, cmp=1, cvt=1, select=0.5, tee=0.5, block=0.5, set=2, drop=1,
               s_if=1, s_block=0.5, s_loop=0.4, call=5, call_indirect=4, gset=1, br_if=0.5, extras=1,
               **{'if': 1, 'return': 0.3, 'global': 1})
W_MEMORY = dict(const=2, local=3, unop=1, binop=3, cmp=1, cvt=1, select=0.5, tee=0.5, load=6, memsize=0.7,
                memgrow=0.5, set=2, drop=1, store=7, memfill=1.2, memcopy=1.2, meminit=1.2, datadrop=0.12,
                s_if=1, s_loop=0.6, s_block=0.5, block=0.3, **{'if': 0.5})
W_ATOMICS = dict(const=2, local=3, unop=1, binop=2, cmp=1, cvt=0.5, tee=0.5, load=1.5, atomic=7, notify=0.4,
                 set=2, drop=1.5, store=1.5, atomic_store=4, fence=1, s_if=1, s_loop=0.6, memsize=0.3, **{'if': 0.5})
W_INIT = dict(const=2, local=2, binop=1.5, cmp=0.5, load=4, memsize=0.5, call_indirect=3, call=1, set=1, drop=1,
              store=2, gset=2, meminit=1, datadrop=0.3, memcopy=0.5, s_if=0.5, **{'global': 5})
W_START = dict(const=3, local=1, binop=1, store=4, gset=4, set=1, nop=0.3, dead=0, **{'global': 2})
W_NAMES = dict(const=2, local=3, binop=3, cmp=1, set=1, drop=1, call=2, s_if=0.5)
WEIGHTS = dict(int=W_INT, float=W_FLOAT, control=W_CONTROL, calls=W_CALLS, memory=W_MEMORY,
               atomics=W_ATOMICS, init=W_INIT, names=W_NAMES)


class Ctx(object):
    def __init__(self, rng, profile):
        self.rng, self.profile = rng, profile
        self.module = Module()
        self.valtypes = list(VALTYPES)
        self.func_sigs = []          # FuncType per function index (imports first)
        self.func_types = []         # type index per function index
        self.n_func_imports = 0
        self.globals = []            # GlobalType per global index
        self.global_values = []      # known initial bits per global index
        self.mutable_globals = []
        self.has_mem = False
        self.mem_shared = False
        self.has_table = False
        self.table = []              # static model of the table: func index | None per slot
        self.datas = []              # (mode, length) per data segment
        self.datacount = False
        self.depth_guard = False
        self.dag_calls = False
        self.imports_spec = {'globals': {}}

    def type_index(self, ft, allow_dup=True):
        m, rng = self.module, self.rng
        idx = [i for i, t in enumerate(m.types) if t == ft]
        if idx and not (allow_dup and rng.random() < 0.08):
            return rng.choice(idx)
        m.types.append(FuncType(ft.params, ft.results))
        return len(m.types) - 1

    def type_index_of(self, f):
        return self.func_types[f]

    def any_type_index(self, ft):
        return self.rng.choice([i for i, t in enumerate(self.module.types) if t == ft])

    def add_func_import(self, mod, field, ft):
        ti = self.type_index(ft)
        self.module.imports.append(Import(mod, field, 'func', ti))
        self.func_sigs.append(self.module.types[ti])
        self.func_types.append(ti)
        self.n_func_imports += 1

    def add_global_import(self, mod, field, vt, mutable, bits):
        self.imports_spec['globals'][len(self.module.imports)] = bits
        self.module.imports.append(Import(mod, field, 'global', GlobalType(vt, mutable)))
        self.globals.append(GlobalType(vt, mutable))
        self.global_values.append(bits)
        if mutable:
            self.mutable_globals.append(len(self.globals) - 1)

    def add_global(self, vt, mutable, init=None):
        """init: None -> random constant, or index of an imported immutable global of the same type."""
        if init is None:
            bits = rand_bits(self.rng, vt)
            ins = mk_const(vt, bits)
        else:
            bits = self.global_values[init]
            ins = Instr('global.get', init)
        self.module.globals.append(Global(GlobalType(vt, mutable), ins))
        self.globals.append(GlobalType(vt, mutable))
        self.global_values.append(bits)
        if mutable:
            self.mutable_globals.append(len(self.globals) - 1)

    def rand_sig(self, max_params, types=None, first_i32=False, results=None):
        rng = self.rng
        types = types or self.valtypes
        n = rng.randint(0, max_params)
        params = [rng.choice(types) for _ in range(n)]
        if first_i32:
            params = [I32] + params[:max(0, max_params - 1)]
        if results is None:
            results = [] if rng.random() < 0.25 else [rng.choice(types)]
        return FuncType(params, results)

    def imported_const_globals(self, vt):
        n_imp = len([i for i in self.module.imports if i.kind == 'global'])
        return [i for i in range(n_imp) if self.globals[i].valtype == vt and not self.globals[i].mutable]

    def offset_expr(self, value):
        """i32.const value, or global.get of an imported immutable i32 global holding that value."""
        cands = [i for i in self.imported_const_globals(I32) if self.global_values[i] == value & 0xFFFFFFFF]
        if cands and self.rng.random() < 0.8:
            return Instr('global.get', self.rng.choice(cands))
        return i32_const(value)


def _rle_locals(rng, types):
    out = []
    for t in types:
        if out and out[-1][1] == t and rng.random() < 0.8:
            out[-1] = (out[-1][0] + 1, t)
        else:
            if rng.random() < 0.04:
                out.append((0, rng.choice(VALTYPES)))
            out.append((1, t))
    if rng.random() < 0.03:
        out.append((0, rng.choice(VALTYPES)))
    return out


def _gen_function(ctx, f, weights, max_nest, budget, expr_depth, extra_locals, prologue=None, n_stmts=None,
                  allow_defined_calls=True):
    sig = ctx.func_sigs[f]
    g = FuncGen(ctx, f, sig, weights, max_nest=max_nest, budget=budget, expr_depth=expr_depth)
    for t in extra_locals:
        g.new_local(t)
    if ctx.depth_guard and prologue is not None:
        g.reserved.add(0)
    saved = (ctx.depth_guard, ctx.dag_calls)
    if not allow_defined_calls:
        ctx.depth_guard, ctx.dag_calls = False, False
    try:
        body = g.function(prologue, n_stmts)
    finally:
        ctx.depth_guard, ctx.dag_calls = saved
    return Function(ctx.func_types[f], _rle_locals(ctx.rng, g.locals[g.n_params:]), body)


def _depth_prologue(mask):
    def p(g):
        g.emit('local.get', 0)
        g.const(I32, mask)
        g.emit('i32.and')
        g.emit('local.set', 0)
    return p


# ---------------------------------------------------------------------------- names
def _adversarial_name(rng, used, maxlen=4096):
    while True:
        k = rng.random()
        if k < 0.12:
            s = ''.join(rng.choice('_X') for _ in range(rng.randint(1, 12)))
        elif k < 0.22:
            s = rng.choice(['', ' ', '"', "'", '\\', '\\n', '\\x41', '%s', '*/', '/*', '??/', 'a b', 'main', 'int',
                            'if', 'trap', 'memory', 'f0', '_start', 'X5F', '_5F', 'a.b', 'a-b', 'a$b', '0abc',
                            '\n', '\t', '\r\n', '\x7f', '\x01', 'wasmMemory', 'e', 'i', 'U32', '__', '_X_'])
        elif k < 0.45:
            alphabet = ['é', 'ÿ', '\u0080', '߿', 'ࠀ', '￿', '\U00010000', '\U0010ffff',
                        '中', ' ', '﻿', 'a', '_', 'X', '0', '"', '\\', '.']
            s = ''.join(rng.choice(alphabet) for _ in range(rng.randint(1, 10)))
        elif k < 0.55:
            n = rng.choice((63, 64, 65, 255, 256, 257, 1023, 1024, 1025, 4095, 4096, rng.randint(100, 4096)))
            unit = rng.choice(('a', '_', 'X', 'é', 'ab_X', '\\', '"'))
            s = (unit * (n // len(unit.encode('utf-8')) + 1))
            b = s.encode('utf-8')[:min(n, maxlen)]
            s = b.decode('utf-8', 'ignore')
        else:
            alphabet = 'abcXYZ_019 .-$"\\\'%/*<>[](){}#@!~`^&|;:,?=+\x00\x1f'
            s = ''.join(rng.choice(alphabet) for _ in range(rng.randint(1, 24)))
        b = s.encode('utf-8')[:maxlen]
        try:
            b.decode('utf-8')
        except UnicodeDecodeError:
            continue
        if b not in used:
            used.add(b)
            return b


def _name_section(rng, ctx, m, adversarial):
    used = set()
    nfuncs = len(ctx.func_sigs)

    def nm(prefix, i):
        if adversarial and rng.random() < 0.6:
            return _adversarial_name(rng, set(), 300) if rng.random() < 0.8 else b'dup'
        return ('%s%d' % (prefix, i)).encode()
    fn = None
    if nfuncs and rng.random() < 0.9:
        idx = [i for i in range(nfuncs) if rng.random() < 0.8]
        fn = [(i, nm('func', i)) for i in idx]
    ln = None
    if m.funcs and rng.random() < 0.6:
        ln = []
        for k, f in enumerate(m.funcs):
            if rng.random() < 0.6:
                fi = ctx.n_func_imports + k
                nl = len(ctx.func_sigs[fi].params) + sum(c for c, _ in f.locals)
                ln.append((fi, [(j, nm('l', j)) for j in range(nl) if rng.random() < 0.7]))
    mn = nm('module', 0) if rng.random() < 0.7 else None
    return NameSection(mn, fn, ln)


def add_random_customs(rng, module, n=None):
    """Insert 1-4 custom sections at random section boundaries (names never b'name')."""
    for _ in range(rng.randint(1, 4) if n is None else n):
        name = rng.choice([b'', b'x', b'producers', b'.debug_info_not', b'linking', b'\xc3\xa9', b'target_features',
                           bytes(rng.getrandbits(7) for _ in range(rng.randint(0, 20)))])
        if name == b'name':
            name = b'name2'
        payload = bytes(rng.getrandbits(8) for _ in range(rng.choice((0, 0, 1, 5, 127, 128, 300))))
        module.customs.append(CustomSection(name, payload, rng.randint(0, 12)))
    return module


# ---------------------------------------------------------------------------- module shapes
def gen_module(rng, profile):
    if profile not in PROFILES:
        raise ValueError('unknown profile %r' % (profile,))
    c = Ctx(rng, profile)
    m = c.module
    W = dict(WEIGHTS[profile])
    adversarial = profile == 'names'
    used_names = set()

    if profile == 'int':
        c.valtypes = [I32, I64]
    # ---- imports: globals first or interleaved does not matter for index spaces of different kinds
    n_imp_funcs = {'calls': rng.randint(0, 4), 'names': rng.randint(0, 3), 'init': rng.randint(0, 2)}.get(
        profile, 1 if rng.random() < 0.15 else 0)
    n_imp_globals = {'init': rng.randint(0, 3), 'calls': rng.randint(0, 2), 'names': rng.randint(0, 1)}.get(profile, 0)
    imp_mem = profile == 'init' and rng.random() < 0.3
    imp_table = profile in ('init', 'calls') and rng.random() < 0.25
    no_mem = profile == 'init' and not imp_mem and rng.random() < 0.25
    import_plan = ['func'] * n_imp_funcs + ['global'] * n_imp_globals + (['memory'] if imp_mem else []) + \
        (['table'] if imp_table else [])
    rng.shuffle(import_plan)
    pairs = set()

    def import_name(kind, i):
        while True:
            if adversarial and rng.random() < 0.7:
                mod, field = _adversarial_name(rng, set()), _adversarial_name(rng, set())
            else:
                mod = rng.choice([b'env', b'host', b'm'])
                field = ('%s%d' % (kind[0], i)).encode()
            if (mod, field) not in pairs:
                pairs.add((mod, field))
                return mod, field
    table_min = 0
    for i, kind in enumerate(import_plan):
        mod, field = import_name(kind, i)
        if kind == 'func':
            c.add_func_import(mod, field, c.rand_sig(rng.choice((0, 1, 2, 3, 8)), first_i32=False))
        elif kind == 'global':
            vt = I32 if rng.random() < 0.6 else rng.choice(c.valtypes)
            bits = rng.choice((0, 1, 2, 4, 8, 16, 100)) if vt == I32 and rng.random() < 0.8 else rand_bits(rng, vt)
            c.add_global_import(mod, field, vt, rng.random() < 0.15, bits)
        elif kind == 'memory':
            mn = rng.randint(1, 2)
            m.imports.append(Import(mod, field, 'memory', Limits(mn, rng.choice((None, mn, mn + 2)))))
            c.has_mem = True
        else:
            table_min = rng.randint(1, 10)
            m.imports.append(Import(mod, field, 'table', TableType(Limits(table_min, rng.choice((None, table_min + 5))))))
            c.has_table = True

    # ---- defined function signatures
    nf = {'int': rng.randint(1, 3), 'float': rng.randint(1, 3), 'control': rng.randint(1, 3),
          'calls': rng.randint(1, 12), 'memory': rng.randint(1, 3), 'atomics': rng.randint(1, 3),
          'init': rng.randint(1, 5), 'names': rng.randint(1, 5)}[profile]
    c.depth_guard = profile == 'calls'
    c.dag_calls = profile in ('init', 'names')
    max_params = {'calls': 8, 'control': 5}.get(profile, 4)
    if profile == 'calls':
        # a small pool of types so that direct / indirect calls find matching callees
        pool = [c.rand_sig(rng.choice((1, 2, 3, 8)), first_i32=True) for _ in range(rng.randint(1, 4))]
        if rng.random() < 0.2:
            m.types.append(FuncType([rng.choice(VALTYPES)], []))     # an unused type
    for k in range(nf):
        if profile == 'calls':
            ft = rng.choice(pool)
        else:
            ft = c.rand_sig(max_params, results=None if profile != 'int' or rng.random() < 0.1 else [rng.choice(c.valtypes)])
        ti = c.type_index(ft)
        c.func_sigs.append(m.types[ti])
        c.func_types.append(ti)
    start = None
    if profile == 'init' and rng.random() < 0.5 or profile in ('memory', 'calls', 'names') and rng.random() < 0.15:
        ti = c.type_index(FuncType([], []))
        c.func_sigs.append(m.types[ti])
        c.func_types.append(ti)
        start = len(c.func_sigs) - 1
        nf += 1

    # ---- memory
    if profile in ('memory', 'atomics') or (profile == 'init' and not c.has_mem and not no_mem) or \
            (profile in ('control', 'names') and rng.random() < 0.2):
        mn = rng.randint(1, 4)
        if profile == 'atomics':
            m.mems.append(Limits(mn, mn + rng.randint(0, 4), shared=True))
            c.mem_shared = True
        else:
            m.mems.append(Limits(mn, rng.choice((None, None, mn, mn + 1, mn + 4, 65536))))
        c.has_mem = True
    # ---- globals
    ng = {'init': rng.randint(0, 5), 'control': rng.randint(0, 3), 'calls': rng.randint(0, 3),
          'names': rng.randint(0, 2)}.get(profile, rng.randint(0, 1))
    for _ in range(ng):
        vt = rng.choice(c.valtypes)
        cands = c.imported_const_globals(vt)
        c.add_global(vt, rng.random() < 0.6, rng.choice(cands) if cands and rng.random() < 0.5 else None)
    # ---- table + element segments
    if not c.has_table and (profile == 'calls' and rng.random() < 0.85 or profile == 'init' and rng.random() < 0.6):
        table_min = rng.randint(1, 12)
        m.tables.append(TableType(Limits(table_min, rng.choice((None, table_min, table_min + 3)))))
        c.has_table = True
    if c.has_table:
        c.table = [None] * table_min
        nfuncs_all = len(c.func_sigs)
        for _ in range(rng.randint(0, 3) if profile == 'init' else rng.randint(1, 3)):
            if nfuncs_all == 0:
                break
            cands = sorted(set(c.global_values[i] for i in c.imported_const_globals(I32)
                               if c.global_values[i] <= table_min))
            off = rng.choice(cands) if cands and rng.random() < 0.5 else rng.randint(0, table_min)
            n = rng.randint(0, table_min - off)
            funcs = [rng.randrange(nfuncs_all) for _ in range(n)]
            if start is not None:
                funcs = [f if f != start or rng.random() < 0.3 else rng.randrange(nfuncs_all) for f in funcs]
            m.elems.append(ElemSegment(0, c.offset_expr(off), funcs))
            c.table[off:off + n] = funcs
    # ---- data segments
    if c.has_mem:
        nd = {'memory': rng.randint(0, 4), 'init': rng.randint(0, 4), 'atomics': rng.randint(0, 1)}.get(profile, 0)
        last = 0
        for _ in range(nd):
            passive = rng.random() < (0.4 if profile == 'memory' else 0.25) and not c.mem_shared
            ln = rng.choice((0, 1, 2, 3, 4, 8, 15, 16, 17, 64, 255, 256, 300))
            data = bytes(rng.getrandbits(8) for _ in range(ln))
            if passive:
                m.datas.append(DataSegment('passive', data))
            else:
                cands = sorted(set(c.global_values[i] for i in c.imported_const_globals(I32)
                                   if c.global_values[i] + ln <= 65536))
                r = rng.random()
                if cands and r < 0.4:
                    off = rng.choice(cands)
                elif r < 0.6:
                    off = max(0, last - rng.randint(0, 8))       # overlap the previous segment
                elif r < 0.7:
                    off = 65536 - ln                               # flush with the end of page 0
                else:
                    off = rng.randint(0, 0x1100)
                off = min(off, 65536 - ln)
                last = off + ln
                m.datas.append(DataSegment('active', data, c.offset_expr(off), 0,
                                           enc_flag=rng.choice((0, 0, 2))))
            c.datas.append((m.datas[-1].mode, ln))
        if m.datas and (any(d.mode == 'passive' for d in m.datas) or rng.random() < 0.5):
            c.datacount = True
            m.datacount = len(m.datas)
        elif not m.datas and rng.random() < 0.1:
            m.datacount = 0

    # ---- bodies
    max_nest = {'control': 12, 'calls': 6, 'int': 3, 'float': 3}.get(profile, 4)
    for k in range(len(c.func_sigs) - c.n_func_imports):
        f = c.n_func_imports + k
        n_extra = rng.randint(0, 4) if profile != 'control' else rng.randint(2, 8)
        extra = [rng.choice(c.valtypes) for _ in range(n_extra)]
        if profile == 'control' and rng.random() < 0.7:
            extra += list(VALTYPES)
        if f == start:
            fn = _gen_function(c, f, W_START if profile != 'calls' else dict(W_START, store=0), 3,
                               rng.randint(4, 25), 2, extra[:2], n_stmts=rng.randint(0, 6),
                               allow_defined_calls=False)
        else:
            budget = {'control': rng.randint(20, 160), 'calls': rng.randint(10, 70), 'init': rng.randint(5, 40),
                      'names': rng.randint(3, 25)}.get(profile, rng.randint(10, 110))
            depth = {'int': rng.randint(2, 7), 'float': rng.randint(2, 6)}.get(profile, rng.randint(2, 4))
            prologue = _depth_prologue(rng.choice((1, 3, 3))) if profile == 'calls' else None
            fn = _gen_function(c, f, W, max_nest, budget, depth, extra, prologue)
        m.funcs.append(fn)
    if not c.datacount and uses_data_index(m):
        raise GenBug('memory.init/data.drop without datacount')
    m.start = start

    # ---- exports
    exported = []

    def export_name(default):
        if adversarial and rng.random() < 0.85:
            return _adversarial_name(rng, used_names)
        b = default.encode()
        while b in used_names:
            b += b'_'
        used_names.add(b)
        return b
    for k in range(len(m.funcs)):
        f = c.n_func_imports + k
        if f == start and rng.random() < 0.7:
            continue
        if profile in ('init', 'names') and rng.random() < 0.2 and exported:
            continue
        nm = export_name('f%d' % f)
        m.exports.append(Export(nm, 'func', f))
        exported.append((nm, f))
        if rng.random() < 0.05:
            m.exports.append(Export(export_name('alias%d' % f), 'func', f))
    if profile in ('names', 'calls') and c.n_func_imports and rng.random() < 0.3:
        f = rng.randrange(c.n_func_imports)          # re-export of an imported function
        nm = export_name('imp%d' % f)
        m.exports.append(Export(nm, 'func', f))
        exported.append((nm, f))
    if c.has_mem and (profile in ('memory', 'atomics') or rng.random() < 0.7):
        m.exports.append(Export(export_name('mem'), 'memory', 0))
    if c.has_table and rng.random() < 0.3:
        m.exports.append(Export(export_name('tab'), 'table', 0))
    for gi, gt in enumerate(c.globals):
        if rng.random() < (0.4 if profile in ('init', 'names') else 0.1):
            m.exports.append(Export(export_name('g%d' % gi), 'global', gi))
    if profile in ('init', 'names'):
        rng.shuffle(m.exports)

    # ---- name section / customs
    if profile == 'names' or rng.random() < 0.1:
        m.customs.append(CustomSection(b'name', _name_section(rng, c, m, adversarial), 12))
    m.meta = {'profile': profile, 'imports_spec': c.imports_spec, 'exports': exported}
    return m


def module_for(seed, profile, index):
    """Deterministically regenerate module number `index` of `profile` for `seed`."""
    return gen_module(random.Random('%s:%s:%d' % (seed, profile, index)), profile)


def arg_vectors(rng, module, func_index, n):
    """n argument vectors [(type name, bits), ...] for function `func_index` (boundary heavy)."""
    sig = module.func_sig(func_index)
    out = []
    for k in range(n):
        if k == 0:
            out.append([(VT_NAME[t], 0) for t in sig.params])
        else:
            out.append([(VT_NAME[t], rand_bits(rng, t)) for t in sig.params])
    return out
