"""Abstract WebAssembly module representation for the feature set w2c2 supports.

MVP + sign-extension + sat-trunc + bulk-memory (memory.* only) + threads.
Everything is plain data; structural equality is `a == b` (via `to_tuple()`).
Names (import module/field, export, custom section, name section) are *bytes*.
"""

# ---------------------------------------------------------------- value types
I32, I64, F32, F64 = 0x7F, 0x7E, 0x7D, 0x7C
VALTYPES = (I32, I64, F32, F64)
VT_NAME = {I32: 'i32', I64: 'i64', F32: 'f32', F64: 'f64'}
VT_BY_NAME = {v: k for k, v in VT_NAME.items()}
VT_BITS = {I32: 32, I64: 64, F32: 32, F64: 64}
FUNCREF = 0x70
EMPTY_BLOCK = 0x40  # blocktype byte for "no result"; in the AST the blocktype is None

# section ids in the order they must appear in a binary
SECTION_ORDER = (1, 2, 3, 4, 5, 6, 7, 8, 9, 12, 10, 11)
SECTION_NAME = {0: 'custom', 1: 'type', 2: 'import', 3: 'function', 4: 'table',
                5: 'memory', 6: 'global', 7: 'export', 8: 'start', 9: 'element',
                10: 'code', 11: 'data', 12: 'datacount'}


class Node(object):
    """Base: subclasses list their fields in __slots__; equality is structural."""
    __slots__ = ()
    _noeq = ()  # fields excluded from equality (encoding hints)

    def to_tuple(self):
        out = [type(self).__name__]
        for f in self.__slots__:
            if f in self._noeq:
                continue
            out.append(_tup(getattr(self, f)))
        return tuple(out)

    def __eq__(self, other):
        return isinstance(other, Node) and self.to_tuple() == other.to_tuple()

    def __ne__(self, other):
        return not self.__eq__(other)

    def __hash__(self):
        return hash(self.to_tuple())

    def __repr__(self):
        return '%s(%s)' % (type(self).__name__, ', '.join(
            '%s=%r' % (f, getattr(self, f)) for f in self.__slots__))


def _tup(v):
    if isinstance(v, Node):
        return v.to_tuple()
    if isinstance(v, (list, tuple)):
        return tuple(_tup(x) for x in v)
    if isinstance(v, bytearray):
        return bytes(v)
    return v


class FuncType(Node):
    __slots__ = ('params', 'results')

    def __init__(self, params=(), results=()):
        self.params = tuple(params)
        self.results = tuple(results)


class Limits(Node):
    """flag 0: min only; flag 1: min,max; flag 3: shared (max required)."""
    __slots__ = ('min', 'max', 'shared')

    def __init__(self, min, max=None, shared=False):
        self.min, self.max, self.shared = min, max, bool(shared)


class TableType(Node):
    __slots__ = ('limits', 'elemtype')

    def __init__(self, limits, elemtype=FUNCREF):
        self.limits, self.elemtype = limits, elemtype


class GlobalType(Node):
    __slots__ = ('valtype', 'mutable')

    def __init__(self, valtype, mutable=False):
        self.valtype, self.mutable = valtype, bool(mutable)


class Import(Node):
    """kind 'func' (desc = type index), 'table' (TableType), 'memory' (Limits), 'global' (GlobalType)."""
    __slots__ = ('module', 'field', 'kind', 'desc')

    def __init__(self, module, field, kind, desc):
        self.module, self.field, self.kind, self.desc = bytes(module), bytes(field), kind, desc


KIND_CODE = {'func': 0, 'table': 1, 'memory': 2, 'global': 3}
KIND_BY_CODE = {v: k for k, v in KIND_CODE.items()}


class Export(Node):
    __slots__ = ('name', 'kind', 'index')

    def __init__(self, name, kind, index):
        self.name, self.kind, self.index = bytes(name), kind, index


class Instr(Node):
    """One instruction.  `op` is the mnemonic (key of OPS); `imm` a tuple of immediates:

      block/loop : imm=(blocktype,)      body=[...]                (blocktype None or a valtype)
      if         : imm=(blocktype,)      body=[...], else_body=None | [...]
      br, br_if  : (label,)              br_table: (tuple(labels), default)
      call       : (func,)               call_indirect: (typeidx, tableidx)
      local.* / global.* : (index,)      loads/stores/atomics: (align_log2, offset)
      i32.const/i64.const: (signed int,) f32.const/f64.const: (bit pattern int,)
      memory.init: (dataidx,)            data.drop: (dataidx,)
      everything else: ()
    """
    __slots__ = ('op', 'imm', 'body', 'else_body')

    def __init__(self, op, *imm, **kw):
        if op not in OPS:
            raise ValueError('unknown op %r' % (op,))
        if op == 'i32.const':
            imm = (to_signed(imm[0], 32),)
        elif op == 'i64.const':
            imm = (to_signed(imm[0], 64),)
        elif op == 'br_table':
            imm = (tuple(imm[0]), imm[1])
        self.op = op
        self.imm = tuple(imm)
        self.body = kw.pop('body', None)
        self.else_body = kw.pop('else_body', None)
        if kw:
            raise TypeError('unexpected %r' % (kw,))
        if OPS[op].imm in ('block', 'if') and self.body is None:
            self.body = []


def to_signed(v, bits):
    v &= (1 << bits) - 1
    return v - (1 << bits) if v >> (bits - 1) else v


def to_unsigned(v, bits):
    return v & ((1 << bits) - 1)


class Function(Node):
    __slots__ = ('type', 'locals', 'body')

    def __init__(self, type, locals=(), body=()):
        self.type = type
        self.locals = [tuple(x) for x in locals]   # [(count, valtype)]
        self.body = list(body)

    def local_types(self):
        out = []
        for n, t in self.locals:
            out.extend([t] * n)
        return out


class Global(Node):
    __slots__ = ('type', 'init')

    def __init__(self, type, init):
        self.type, self.init = type, init      # init: a single const Instr


class ElemSegment(Node):
    """Active MVP element segment (flag 0 / table index 0 form)."""
    __slots__ = ('table', 'offset', 'funcs')

    def __init__(self, table, offset, funcs):
        self.table, self.offset, self.funcs = table, offset, list(funcs)


class DataSegment(Node):
    """mode 'active' (memory, offset const Instr) or 'passive' (offset None).
    enc_flag is an encoding hint (0 or 2 for active) ignored by equality."""
    __slots__ = ('mode', 'memory', 'offset', 'data', 'enc_flag')
    _noeq = ('enc_flag',)

    def __init__(self, mode, data, offset=None, memory=0, enc_flag=None):
        assert mode in ('active', 'passive')
        self.mode, self.memory, self.offset, self.data = mode, memory, offset, bytes(data)
        self.enc_flag = enc_flag


class NameSection(Node):
    """Payload of the "name" custom section: subsections 0 (module), 1 (functions), 2 (locals)."""
    __slots__ = ('module_name', 'func_names', 'local_names')

    def __init__(self, module_name=None, func_names=None, local_names=None):
        self.module_name = module_name                      # bytes | None
        self.func_names = None if func_names is None else [(i, bytes(n)) for i, n in func_names]
        self.local_names = None if local_names is None else [
            (f, [(i, bytes(n)) for i, n in ls]) for f, ls in local_names]


class CustomSection(Node):
    """`slot` k (0..12) places the section before the k-th entry of SECTION_ORDER (12 = at the end).
    `payload` is bytes, or a NameSection (then `name` must be b'name')."""
    __slots__ = ('name', 'payload', 'slot')

    def __init__(self, name, payload, slot=12):
        self.name = bytes(name)
        self.payload = payload if isinstance(payload, NameSection) else bytes(payload)
        self.slot = slot


class Module(Node):
    __slots__ = ('types', 'imports', 'funcs', 'tables', 'mems', 'globals', 'exports', 'start',
                 'elems', 'datas', 'datacount', 'customs', 'meta')
    _noeq = ('meta',)

    def __init__(self):
        self.types = []      # [FuncType]
        self.imports = []    # [Import]
        self.funcs = []      # [Function]
        self.tables = []     # [TableType]
        self.mems = []       # [Limits]
        self.globals = []    # [Global]
        self.exports = []    # [Export]
        self.start = None    # func index | None
        self.elems = []      # [ElemSegment]
        self.datas = []      # [DataSegment]
        self.datacount = None  # None: no datacount section; int: declared count
        self.customs = []    # [CustomSection]
        self.meta = {}       # generator side-information (not part of equality)

    # ---- index-space helpers
    def imported(self, kind):
        return [i for i in self.imports if i.kind == kind]

    def func_type_indices(self):
        return [i.desc for i in self.imports if i.kind == 'func'] + [f.type for f in self.funcs]

    def func_sig(self, func_index):
        return self.types[self.func_type_indices()[func_index]]

    def global_types(self):
        return [i.desc for i in self.imports if i.kind == 'global'] + [g.type for g in self.globals]

    def all_mems(self):
        return [i.desc for i in self.imports if i.kind == 'memory'] + list(self.mems)

    def all_tables(self):
        return [i.desc for i in self.imports if i.kind == 'table'] + list(self.tables)

    def section_nonempty(self, sid):
        return bool({1: self.types, 2: self.imports, 3: self.funcs, 4: self.tables, 5: self.mems,
                     6: self.globals, 7: self.exports, 8: self.start is not None, 9: self.elems,
                     12: self.datacount is not None, 10: self.funcs, 11: self.datas}[sid])

    def canonical_slot(self, slot):
        """Custom-section slots are equal when no non-empty section lies between them."""
        k = max(0, min(12, slot))
        while k > 0 and not self.section_nonempty(SECTION_ORDER[k - 1]):
            k -= 1
        return k

    def to_tuple(self, ignore_customs=False, ignore_datacount=False):
        out = ['Module']
        for f in self.__slots__:
            if f == 'meta' or (f == 'customs' and ignore_customs) or (f == 'datacount' and ignore_datacount):
                continue
            if f == 'customs':
                # binary order: by (clamped) slot, then list order (stable sort)
                cs = sorted(self.customs, key=lambda c: max(0, min(12, c.slot)))
                out.append(tuple(('CustomSection', c.name, _tup(c.payload), self.canonical_slot(c.slot))
                                 for c in cs))
            else:
                out.append(_tup(getattr(self, f)))
        return tuple(out)


# ------------------------------------------------------------------ opcode table
class OpInfo(object):
    __slots__ = ('name', 'prefix', 'code', 'params', 'results', 'imm', 'width', 'enc')

    def __init__(self, name, prefix, code, params, results, imm, width=None):
        self.name, self.prefix, self.code = name, prefix, code
        self.params, self.results, self.imm, self.width = params, results, imm, width
        # minimal encoding bytes: prefix byte + unsigned LEB sub-opcode
        if prefix is None:
            self.enc = bytes([code])
        else:
            b, v = [prefix], code
            while True:
                if v < 0x80:
                    b.append(v)
                    break
                b.append((v & 0x7F) | 0x80)
                v >>= 7
            self.enc = bytes(b)

    def __repr__(self):
        return 'OpInfo(%s)' % self.name


OPS = {}            # mnemonic -> OpInfo
OPS_BY_CODE = {}    # (prefix or None, code) -> OpInfo


def _op(name, prefix, code, params, results, imm='none', width=None):
    assert name not in OPS and (prefix, code) not in OPS_BY_CODE, name
    o = OpInfo(name, prefix, code, params, results, imm, width)
    OPS[name] = o
    OPS_BY_CODE[(prefix, code)] = o


def _build_ops():
    P = None   # params/results None == polymorphic / context dependent
    # control
    _op('unreachable', None, 0x00, P, P)
    _op('nop', None, 0x01, (), ())
    _op('block', None, 0x02, P, P, 'block')
    _op('loop', None, 0x03, P, P, 'block')
    _op('if', None, 0x04, P, P, 'if')
    # 0x05 else / 0x0B end are structure markers, not instructions of the AST
    _op('br', None, 0x0C, P, P, 'label')
    _op('br_if', None, 0x0D, P, P, 'label')
    _op('br_table', None, 0x0E, P, P, 'br_table')
    _op('return', None, 0x0F, P, P)
    _op('call', None, 0x10, P, P, 'func')
    _op('call_indirect', None, 0x11, P, P, 'call_indirect')
    _op('drop', None, 0x1A, P, P)
    _op('select', None, 0x1B, P, P)
    _op('local.get', None, 0x20, P, P, 'local')
    _op('local.set', None, 0x21, P, P, 'local')
    _op('local.tee', None, 0x22, P, P, 'local')
    _op('global.get', None, 0x23, P, P, 'global')
    _op('global.set', None, 0x24, P, P, 'global')
    # memory
    loads = [('i32.load', I32, 4), ('i64.load', I64, 8), ('f32.load', F32, 4), ('f64.load', F64, 8),
             ('i32.load8_s', I32, 1), ('i32.load8_u', I32, 1), ('i32.load16_s', I32, 2),
             ('i32.load16_u', I32, 2), ('i64.load8_s', I64, 1), ('i64.load8_u', I64, 1),
             ('i64.load16_s', I64, 2), ('i64.load16_u', I64, 2), ('i64.load32_s', I64, 4),
             ('i64.load32_u', I64, 4)]
    for i, (n, t, w) in enumerate(loads):
        _op(n, None, 0x28 + i, (I32,), (t,), 'memarg', w)
    stores = [('i32.store', I32, 4), ('i64.store', I64, 8), ('f32.store', F32, 4), ('f64.store', F64, 8),
              ('i32.store8', I32, 1), ('i32.store16', I32, 2), ('i64.store8', I64, 1),
              ('i64.store16', I64, 2), ('i64.store32', I64, 4)]
    for i, (n, t, w) in enumerate(stores):
        _op(n, None, 0x36 + i, (I32, t), (), 'memarg', w)
    _op('memory.size', None, 0x3F, (), (I32,), 'mem0')
    _op('memory.grow', None, 0x40, (I32,), (I32,), 'mem0')
    _op('i32.const', None, 0x41, (), (I32,), 'i32')
    _op('i64.const', None, 0x42, (), (I64,), 'i64')
    _op('f32.const', None, 0x43, (), (F32,), 'f32')
    _op('f64.const', None, 0x44, (), (F64,), 'f64')
    # comparisons
    code = 0x45
    for t, tn in ((I32, 'i32'), (I64, 'i64')):
        _op(tn + '.eqz', None, code, (t,), (I32,)); code += 1
        for n in ('eq', 'ne', 'lt_s', 'lt_u', 'gt_s', 'gt_u', 'le_s', 'le_u', 'ge_s', 'ge_u'):
            _op('%s.%s' % (tn, n), None, code, (t, t), (I32,)); code += 1
    for t, tn in ((F32, 'f32'), (F64, 'f64')):
        for n in ('eq', 'ne', 'lt', 'gt', 'le', 'ge'):
            _op('%s.%s' % (tn, n), None, code, (t, t), (I32,)); code += 1
    assert code == 0x67
    for t, tn in ((I32, 'i32'), (I64, 'i64')):
        for n in ('clz', 'ctz', 'popcnt'):
            _op('%s.%s' % (tn, n), None, code, (t,), (t,)); code += 1
        for n in ('add', 'sub', 'mul', 'div_s', 'div_u', 'rem_s', 'rem_u', 'and', 'or', 'xor',
                  'shl', 'shr_s', 'shr_u', 'rotl', 'rotr'):
            _op('%s.%s' % (tn, n), None, code, (t, t), (t,)); code += 1
    assert code == 0x8B
    for t, tn in ((F32, 'f32'), (F64, 'f64')):
        for n in ('abs', 'neg', 'ceil', 'floor', 'trunc', 'nearest', 'sqrt'):
            _op('%s.%s' % (tn, n), None, code, (t,), (t,)); code += 1
        for n in ('add', 'sub', 'mul', 'div', 'min', 'max', 'copysign'):
            _op('%s.%s' % (tn, n), None, code, (t, t), (t,)); code += 1
    assert code == 0xA7
    cv = [('i32.wrap_i64', I64, I32), ('i32.trunc_f32_s', F32, I32), ('i32.trunc_f32_u', F32, I32),
          ('i32.trunc_f64_s', F64, I32), ('i32.trunc_f64_u', F64, I32),
          ('i64.extend_i32_s', I32, I64), ('i64.extend_i32_u', I32, I64),
          ('i64.trunc_f32_s', F32, I64), ('i64.trunc_f32_u', F32, I64),
          ('i64.trunc_f64_s', F64, I64), ('i64.trunc_f64_u', F64, I64),
          ('f32.convert_i32_s', I32, F32), ('f32.convert_i32_u', I32, F32),
          ('f32.convert_i64_s', I64, F32), ('f32.convert_i64_u', I64, F32),
          ('f32.demote_f64', F64, F32),
          ('f64.convert_i32_s', I32, F64), ('f64.convert_i32_u', I32, F64),
          ('f64.convert_i64_s', I64, F64), ('f64.convert_i64_u', I64, F64),
          ('f64.promote_f32', F32, F64),
          ('i32.reinterpret_f32', F32, I32), ('i64.reinterpret_f64', F64, I64),
          ('f32.reinterpret_i32', I32, F32), ('f64.reinterpret_i64', I64, F64),
          ('i32.extend8_s', I32, I32), ('i32.extend16_s', I32, I32),
          ('i64.extend8_s', I64, I64), ('i64.extend16_s', I64, I64), ('i64.extend32_s', I64, I64)]
    for n, a, r in cv:
        _op(n, None, code, (a,), (r,)); code += 1
    assert code == 0xC5
    # 0xFC prefix
    sub = 0
    for tn, t in (('i32', I32), ('i64', I64)):
        for fn, f in (('f32', F32), ('f64', F64)):
            for s in ('s', 'u'):
                _op('%s.trunc_sat_%s_%s' % (tn, fn, s), 0xFC, sub, (f,), (t,)); sub += 1
    _op('memory.init', 0xFC, 8, (I32, I32, I32), (), 'memory.init')
    _op('data.drop', 0xFC, 9, (), (), 'data')
    _op('memory.copy', 0xFC, 10, (I32, I32, I32), (), 'memory.copy')
    _op('memory.fill', 0xFC, 11, (I32, I32, I32), (), 'memory.fill')
    # 0xFE prefix (threads)
    _op('memory.atomic.notify', 0xFE, 0x00, (I32, I32), (I32,), 'memarg', 4)
    _op('memory.atomic.wait32', 0xFE, 0x01, (I32, I32, I64), (I32,), 'memarg', 4)
    _op('memory.atomic.wait64', 0xFE, 0x02, (I32, I64, I64), (I32,), 'memarg', 8)
    _op('atomic.fence', 0xFE, 0x03, (), (), 'fence')
    shapes = [('i32', I32, '', 4), ('i64', I64, '', 8), ('i32', I32, '8', 1), ('i32', I32, '16', 2),
              ('i64', I64, '8', 1), ('i64', I64, '16', 2), ('i64', I64, '32', 4)]
    sub = 0x10
    for tn, t, w, width in shapes:
        _op('%s.atomic.load%s' % (tn, w + '_u' if w else ''), 0xFE, sub, (I32,), (t,), 'memarg', width); sub += 1
    for tn, t, w, width in shapes:
        _op('%s.atomic.store%s' % (tn, w), 0xFE, sub, (I32, t), (), 'memarg', width); sub += 1
    for rmw in ('add', 'sub', 'and', 'or', 'xor', 'xchg'):
        for tn, t, w, width in shapes:
            _op('%s.atomic.rmw%s.%s%s' % (tn, w, rmw, '_u' if w else ''), 0xFE, sub, (I32, t), (t,), 'memarg', width)
            sub += 1
    for tn, t, w, width in shapes:
        _op('%s.atomic.rmw%s.cmpxchg%s' % (tn, w, '_u' if w else ''), 0xFE, sub, (I32, t, t), (t,), 'memarg', width)
        sub += 1
    assert sub == 0x4F


_build_ops()


def natural_align(op):
    """log2 of the access width of a memory instruction."""
    return {1: 0, 2: 1, 4: 2, 8: 3}[OPS[op].width]


def is_atomic(op):
    return OPS[op].prefix == 0xFE


# --------------------------------------------------------- small builders
def i32_const(v):
    return Instr('i32.const', v)


def i64_const(v):
    return Instr('i64.const', v)


def f32_const(bits):
    return Instr('f32.const', bits & 0xFFFFFFFF)


def f64_const(bits):
    return Instr('f64.const', bits & 0xFFFFFFFFFFFFFFFF)


def const(vt, bits):
    return {I32: i32_const, I64: i64_const, F32: f32_const, F64: f64_const}[vt](bits)


def walk(instrs):
    """Yield every instruction of a structured body (pre-order)."""
    for i in instrs:
        yield i
        if i.body is not None:
            for j in walk(i.body):
                yield j
        if i.else_body is not None:
            for j in walk(i.else_body):
                yield j


def uses_data_index(module):
    for f in module.funcs:
        for i in walk(f.body):
            if i.op in ('memory.init', 'data.drop'):
                return True
    return False
