"""wasmgen self test.  Run: `python3 -m wasmgen.selftest` from /verif/tools, or
`python3 /verif/tools/wasmgen/selftest.py [--n 300] [--seed S] [--skip-w2c2] [--skip-corpus]`.

 (a) encode/decode round trip of N modules per profile under minimal / max / random LEB padding,
     with custom sections inserted, empty sections emitted, data flag 0/2;
 (b) every generated module validates in V8 (also its max-padded encoding);
 (c) every generated module of the non-`names` profiles is accepted by the real w2c2 (exit 0);
 (d) every /repo/tests/gen/*.wasm that V8 validates and that is inside the feature set decodes,
     re-encodes (minimal) to something V8 validates, byte-identical when the original was minimal;
 (e) mutators: decoder verdict vs V8 verdict on mutated modules (decoder must never crash);
 (f) every third module is instantiated and its exports called with 3 argument vectors in V8:
     no timeout, no stack overflow, no harness error, no link error (traps are fine).
"""
import os
import sys

if __name__ == '__main__' and __package__ in (None, ''):
    _here = os.path.dirname(os.path.abspath(__file__))
    sys.path[:] = [p for p in sys.path if os.path.abspath(p or '.') != _here]
    sys.path.insert(0, os.path.dirname(_here))
    __package__ = 'wasmgen'

import argparse
import concurrent.futures
import copy
import glob
import random
import shutil
import subprocess
import tempfile
import time
import traceback

from . import gen, v8, mutate
from .wasm_ast import walk
from .encode import encode, Policy, leb_u, leb_s
from .decode import decode, DecodeError, Unsupported, Reader

REPO = os.environ.get('W2C2_REPO', '/repo')


def build_w2c2(tmp):
    srcs = [s for s in sorted(glob.glob(os.path.join(REPO, 'w2c2', '*.c')))
            if not s.endswith('_test.c') and os.path.basename(s) != 'test.c']
    exe = os.path.join(tmp, 'w2c2')
    cmd = ['gcc', '-O1', '-o', exe] + srcs + ['-DHAS_PTHREAD=1', '-DHAS_UNISTD=1', '-DHAS_GETOPT=1',
                                              '-DHAS_LIBGEN=1', '-DHAS_STRDUP=1', '-DHAS_GLOB=1', '-lpthread']
    r = subprocess.run(cmd, stdout=subprocess.PIPE, stderr=subprocess.STDOUT)
    if r.returncode != 0:
        print(r.stdout.decode('utf-8', 'replace')[-2000:])
        return None
    return exe


def run_w2c2(exe, tmp, tag, wasm):
    d = os.path.join(tmp, tag)
    os.makedirs(d, exist_ok=True)
    path = os.path.join(d, 'm.wasm')
    with open(path, 'wb') as f:
        f.write(wasm)
    try:
        r = subprocess.run([exe, path, os.path.join(d, 'out.c')], stdout=subprocess.PIPE, stderr=subprocess.STDOUT,
                           timeout=60, cwd=d)
        rc, out = r.returncode, r.stdout.decode('utf-8', 'replace')
    except subprocess.TimeoutExpired:
        rc, out = 'timeout', ''
    ok = rc == 0 and os.path.exists(os.path.join(d, 'out.c'))
    shutil.rmtree(d, ignore_errors=True)
    return ok, rc, out[-300:]


def leb_unit_tests():
    fails = 0
    rng = random.Random(7)
    for bits in (32, 64):
        for _ in range(2000):
            v = rng.choice((0, 1, 0x7F, 0x80, (1 << bits) - 1, rng.getrandbits(rng.randint(1, bits))))
            for pad in (None,) + tuple(range(1, (bits + 6) // 7 + 1)):
                try:
                    b = leb_u(v, pad, bits)
                except ValueError:
                    continue
                r = Reader(b)
                if r.uleb(bits) != v or not r.eof() or (pad and len(b) != pad):
                    fails += 1
            s = v - (1 << (bits - 1))
            for pad in (None,) + tuple(range(1, (bits + 6) // 7 + 1)):
                try:
                    b = leb_s(s, bits, pad)
                except ValueError:
                    continue
                r = Reader(b)
                if r.sleb(bits) != s or not r.eof() or (pad and len(b) != pad):
                    fails += 1
    # over-long / out-of-range encodings must be rejected
    for bad, bits, signed in ((b'\x80\x80\x80\x80\x80\x00', 32, False), (b'\xff\xff\xff\xff\x1f', 32, False),
                              (b'\xff\xff\xff\xff\x4f', 32, True), (b'\x80\x80\x80\x80\x30', 32, True),
                              (b'\x80\x80\x80\x80\x80\x80\x80\x80\x80\x02', 64, False),
                              (b'\x80\x80\x80\x80\x80\x80\x80\x80\x80\x80\x00', 64, False),
                              (b'\x80', 32, False)):
        try:
            r = Reader(bad)
            r.sleb(bits) if signed else r.uleb(bits)
            fails += 1
        except DecodeError:
            pass
    return fails


def main(argv=None):
    ap = argparse.ArgumentParser()
    ap.add_argument('--n', type=int, default=300)
    ap.add_argument('--seed', default=os.environ.get('VERIF_SEED', 'selftest'))
    ap.add_argument('--skip-w2c2', action='store_true')
    ap.add_argument('--skip-corpus', action='store_true')
    ap.add_argument('--profiles', default=','.join(gen.PROFILES))
    args = ap.parse_args(argv)
    t_start = time.time()
    failures = []

    def fail(kind, what, detail=''):
        failures.append((kind, what))
        if sum(1 for k, _ in failures if k == kind) <= 5:
            print('FAIL %-12s %s %s' % (kind, what, detail))

    tmp = tempfile.mkdtemp(prefix='wasmgen-selftest-')
    try:
        nleb = leb_unit_tests()
        print('leb unit tests: %s' % ('ok' if nleb == 0 else '%d FAILURES' % nleb))
        if nleb:
            failures.append(('leb', 'unit'))
        exe = None
        if not args.skip_w2c2:
            exe = build_w2c2(tmp)
            if exe is None:
                fail('w2c2-build', 'gcc failed')
        pool = concurrent.futures.ThreadPoolExecutor(max_workers=min(16, (os.cpu_count() or 2)))
        print('%-8s %5s %9s %9s %8s %8s %12s %6s' % ('profile', 'n', 'roundtrip', 'v8-valid', 'w2c2-ok', 'mutants',
                                                    'v8-run(trap)', 'secs'))
        for profile in args.profiles.split(','):
            t0 = time.time()
            n_rt = n_valid = n_w2c2 = n_mut = n_run = n_calls = n_traps = 0
            jobs = []
            for i in range(args.n):
                what = '%s:%s:%d' % (args.seed, profile, i)
                try:
                    m = gen.module_for(args.seed, profile, i)
                    again = gen.module_for(args.seed, profile, i)
                except Exception:
                    fail('generator', what, traceback.format_exc(limit=3))
                    continue
                if m != again:
                    fail('replay', what)
                rng = random.Random('enc:' + what)
                base = encode(m)
                # (a) round trips
                mc = copy.deepcopy(m)
                gen.add_random_customs(rng, mc)
                variants = [(m, Policy('minimal')), (m, Policy('max')), (m, Policy('random', rng)),
                            (mc, Policy('random', rng, emit_empty=rng.random() < 0.5, data_flag='random')),
                            (mc, Policy('max', emit_empty=True, data_flag=2)),
                            (m, Policy('minimal', pad_subop=False, data_flag=0))]
                ok = True
                encs = []
                for mod, pol in variants:
                    try:
                        b = encode(mod, pol)
                        encs.append(b)
                        if decode(b) != mod:
                            ok = False
                            fail('roundtrip', what, 'policy %s' % pol.leb)
                    except Exception:
                        ok = False
                        fail('roundtrip', what, traceback.format_exc(limit=3))
                if decode(base).to_tuple(ignore_customs=True) != mc.to_tuple(ignore_customs=True):
                    ok = False
                    fail('roundtrip', what, 'ignore_customs')
                n_rt += ok
                # (b) V8 validity of the minimal, the max padded and the custom-laden random encodings
                vok = True
                for b in (base, encs[1], encs[3], encs[4]):
                    if not v8.validate(b):
                        vok = False
                        fail('v8-validate', what, str(v8.compile_error(b)))
                        break
                n_valid += vok
                # (c) w2c2 acceptance (async)
                if exe and profile != 'names':
                    jobs.append((what, pool.submit(run_w2c2, exe, tmp, '%s-%d' % (profile, i), base)))
                # (e) mutants: decoder must give a verdict without crashing; compare with V8
                if i % 4 == 0:
                    mb, tag = mutate.mutate(rng, base)
                    try:
                        decode(mb)
                        dec = True
                    except DecodeError:
                        dec = False
                    except Unsupported:
                        dec = 'unsupported'      # e.g. a flipped byte turned a local into v128
                    except Exception:
                        dec = None
                        fail('mutant-crash', what, tag + ' ' + traceback.format_exc(limit=2))
                    if dec is False and v8.validate(mb):
                        fail('mutant-verdict', what, '%s: decoder rejects, V8 accepts' % tag)
                    n_mut += 1
                # (f) execution in V8
                if i % 3 == 0:
                    calls = []
                    for nm, f in m.meta['exports']:
                        for a in gen.arg_vectors(rng, m, f, 3):
                            calls.append((nm, a))
                    try:
                        r = v8.run(base, calls, m.meta['imports_spec'], mem_hash=True, timeout=20, module=m)
                        bad = [x for x in r.results if x[0] == 'error' or x == ('trap', 'stack_overflow')]
                        if r.instantiate[0] not in ('ok', 'trap') or bad:
                            fail('v8-run', what, '%r %r' % (r.instantiate, bad[:1]))
                        else:
                            n_run += 1
                        n_calls += len(r.results)
                        n_traps += sum(1 for x in r.results if x[0] == 'trap')
                    except v8.V8Error as e:
                        fail('v8-run', what, repr(e))
            for what, fut in jobs:
                ok, rc, out = fut.result()
                n_w2c2 += ok
                if not ok:
                    fail('w2c2-accept', what, 'rc=%r %s' % (rc, out.strip().replace('\n', ' | ')))
            print('%-8s %5d %9d %9d %8s %8d %12s %6.1f' % (
                profile, args.n, n_rt, n_valid, n_w2c2 if jobs else '-', n_mut,
                '%d(%d%%)' % (n_run, 100 * n_traps // max(1, n_calls)), time.time() - t0))
        # (d) corpus
        if not args.skip_corpus:
            t0 = time.time()
            files = sorted(glob.glob(os.path.join(REPO, 'tests', 'gen', '*.wasm')))
            st = dict(total=len(files), v8_valid=0, unsupported=0, decoded=0, identical=0, revalid=0, nonminimal=0)
            for path in files:
                with open(path, 'rb') as f:
                    data = f.read()
                if not v8.validate(data):
                    # a module V8 rejects may still be well-formed (invalid != malformed); just never crash
                    try:
                        decode(data)
                    except (DecodeError, Unsupported):
                        pass
                    except Exception:
                        fail('corpus-crash', os.path.basename(path), traceback.format_exc(limit=2))
                    continue
                st['v8_valid'] += 1
                try:
                    m = decode(data)
                except Unsupported:
                    st['unsupported'] += 1
                    continue
                except Exception as e:
                    fail('corpus-decode', os.path.basename(path), repr(e))
                    continue
                st['decoded'] += 1
                b = encode(m)
                if b == data:
                    st['identical'] += 1
                else:
                    st['nonminimal'] += 1
                    if len(b) >= len(data):
                        fail('corpus-reencode', os.path.basename(path), 'differs but is not shorter')
                if decode(b) != m:
                    fail('corpus-roundtrip', os.path.basename(path))
                if v8.validate(b) and v8.validate(encode(m, Policy('max'))):
                    st['revalid'] += 1
                else:
                    fail('corpus-revalidate', os.path.basename(path), str(v8.compile_error(b)))
            print('corpus %s: %s  (%.1fs)' % (os.path.join(REPO, 'tests/gen'),
                                             ' '.join('%s=%d' % kv for kv in st.items()), time.time() - t0))
        pool.shutdown()
    finally:
        shutil.rmtree(tmp, ignore_errors=True)
    kinds = {}
    for k, _ in failures:
        kinds[k] = kinds.get(k, 0) + 1
    print('failures: %s   total time %.1fs' % (kinds if kinds else 'none', time.time() - t_start))
    return 1 if failures else 0


if __name__ == '__main__':
    sys.exit(main())
