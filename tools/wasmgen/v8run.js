// V8 oracle runner: JSON-lines protocol on stdin/stdout (see v8.py / README.md).
// One request per line, one reply per line.  All bit patterns travel as decimal strings.
'use strict';
const readline = require('readline');
const crypto = require('crypto');

const M64 = (1n << 64n) - 1n;
const dv = new DataView(new ArrayBuffer(8));
const trampCache = new Map();

function hexToBuf(h) { return Buffer.from(h, 'hex'); }
function hexToStr(h) { return Buffer.from(h, 'hex').toString('utf8'); }

function f32Bits(x) { dv.setFloat32(0, x, true); return BigInt(dv.getUint32(0, true)); }
function f64Bits(x) { dv.setFloat64(0, x, true); return dv.getBigUint64(0, true); }
function bitsToF32(b) { dv.setUint32(0, Number(BigInt(b) & 0xFFFFFFFFn), true); return dv.getFloat32(0, true); }
function bitsToF64(b) { dv.setBigUint64(0, BigInt(b) & M64, true); return dv.getFloat64(0, true); }

// JS value received from wasm -> canonical unsigned bit pattern (BigInt)
function jsToBits(type, v) {
  switch (type) {
    case 'i32': return BigInt(v >>> 0);
    case 'i64': return BigInt.asUintN(64, v);
    case 'f32': return Number.isNaN(v) ? 0x7fc00000n : f32Bits(v);
    case 'f64': return Number.isNaN(v) ? 0x7ff8000000000000n : f64Bits(v);
  }
  throw new Error('bad type ' + type);
}
// bit pattern -> JS value to hand to wasm (NaN payloads of f32/f64 may be canonicalised by JS)
function bitsToJs(type, b) {
  b = BigInt(b);
  switch (type) {
    case 'i32': return Number(BigInt.asIntN(32, b));
    case 'i64': return BigInt.asIntN(64, b);
    case 'f32': return bitsToF32(b);
    case 'f64': return bitsToF64(b);
  }
  throw new Error('bad type ' + type);
}
function intType(t) { return t === 'f32' ? 'i32' : t === 'f64' ? 'i64' : t; }

// deterministic host function result: 64-bit FNV-1a style mix over (func import index, arg bits)
function hostHash(index, argBits) {
  let h = (0xcbf29ce484222325n ^ BigInt(index)) & M64;
  for (const a of argBits) h = ((h ^ a) * 0x100000001b3n) & M64;
  h ^= h >> 32n;
  return h;
}
function hostResult(type, h) {
  switch (type) {
    case 'i32': return Number(BigInt.asIntN(32, h));
    case 'i64': return BigInt.asIntN(64, h);
    case 'f32': return (Number(h & 0xFFFFFFn) - 0x800000) / 8;
    case 'f64': return (Number(h & 0xFFFFFFFFFFFFFn) - 2251799813685248) / 1024;
  }
}

function trapClass(e) {
  const m = String(e && e.message);
  if (e instanceof RangeError && /call stack/.test(m)) return 'stack_overflow';
  if (e instanceof WebAssembly.RuntimeError) {
    if (/unreachable/.test(m)) return 'unreachable';
    if (/divide by zero|remainder by zero/.test(m)) return 'div_by_zero';
    if (/unrepresentable in integer range/.test(m)) return 'invalid_conversion';
    if (/divide result unrepresentable/.test(m)) return 'int_overflow';
    if (/memory access out of bounds|data segment/.test(m)) return 'oob_memory';
    if (/table index is out of bounds|table access out of bounds|element segment|table initializer/.test(m)) return 'oob_table';
    if (/signature mismatch|null function|indirect call/.test(m)) return 'indirect_call';
    if (/unaligned/.test(m)) return 'unaligned';
    return 'other';
  }
  return null;
}

function buildImports(spec, log, share) {
  const imports = {};
  let funcIndex = 0;
  const created = { memory: null, globals: [], tables: [] };
  for (const im of spec || []) {
    const mod = hexToStr(im.module), field = hexToStr(im.field);
    if (!Object.prototype.hasOwnProperty.call(imports, mod)) imports[mod] = {};
    let v;
    if (share && im.kind !== 'func' && im.kind !== 'table') {   // `family`: a further instance given the memories and globals of its parent
      // (tables are per instance: an entry is a closure over the instance that defined it; w2c2's entries are C function pointers called
      //  with the CALLER's instance, so a table shared between instances behaves differently by design)
      v = share.imports[mod][field];
      if (im.kind === 'memory' && created.memory === null) created.memory = v;
    } else if (im.kind !== 'func' && Object.prototype.hasOwnProperty.call(imports[mod], field) && typeof imports[mod][field] !== 'function') {
      // the SAME (module, field) global / memory / table imported once more: the one host object made for its first import entry
      v = imports[mod][field];
      if (im.kind === 'global') created.globals.push(v);
      if (im.kind === 'table') created.tables.push(v);
    } else if (im.kind === 'func' && typeof imports[mod][field] === 'function') {
      // the SAME (module, field) imported once more: one host function, logged under the index of its first import entry
      v = imports[mod][field];
      funcIndex++;
    } else if (im.kind === 'func') {
      const idx = funcIndex++;
      const params = im.params, results = im.results;
      v = function (...args) {
        const bits = args.map((a, i) => jsToBits(params[i], a));
        log.push([idx, bits.map((b, i) => [params[i], b.toString()])]);
        if (results.length === 0) return undefined;
        return hostResult(results[0], hostHash(idx, bits));
      };
    } else if (im.kind === 'global') {
      v = new WebAssembly.Global({ value: im.type, mutable: !!im.mutable }, bitsToJs(im.type, im.bits || '0'));
      created.globals.push(v);
    } else if (im.kind === 'memory') {
      const d = { initial: im.min };
      if (im.max !== null && im.max !== undefined) d.maximum = im.max;
      if (im.shared) d.shared = true;
      v = new WebAssembly.Memory(d);
      for (const [off, hex] of im.fill || []) new Uint8Array(v.buffer).set(Buffer.from(hex, 'hex'), off);   // embedder wrote these bytes before instantiation
      if (created.memory === null) created.memory = v;
    } else if (im.kind === 'table') {
      const d = { element: 'anyfunc', initial: im.min };
      if (im.max !== null && im.max !== undefined) d.maximum = im.max;
      v = new WebAssembly.Table(d);
      created.tables.push(v);
    } else {
      throw new Error('bad import kind ' + im.kind);
    }
    imports[mod][field] = v;
  }
  return { imports, created };
}

function getTramp(hex) {
  let m = trampCache.get(hex);
  if (!m) { m = new WebAssembly.Module(hexToBuf(hex)); trampCache.set(hex, m); }
  return m;
}

function runCall(instance, call, tramps, trampInst) {
  const name = hexToStr(call.name);
  const f = instance.exports[name];
  if (typeof f !== 'function') return ['error', 'no such exported function'];
  const sig = call.sig;
  try {
    if (sig) {
      const needTramp = sig.params.concat(sig.results).some(t => t === 'f32' || t === 'f64');
      let target = f, ptypes = sig.params, rtypes = sig.results;
      if (needTramp) {
        const key = sig.params.join(',') + '>' + sig.results.join(',');
        const ck = name + '\u0000' + key;
        if (!trampInst.has(ck)) {
          if (!tramps || !tramps[key]) return ['error', 'missing trampoline ' + key];
          trampInst.set(ck, new WebAssembly.Instance(getTramp(tramps[key]), { m: { f } }).exports.t);
        }
        target = trampInst.get(ck);
        ptypes = ptypes.map(intType); rtypes = rtypes.map(intType);
      }
      const args = call.args.map((a, i) => bitsToJs(ptypes[i], a[1]));
      const r = target(...args);
      if (rtypes.length === 0) return ['val', []];
      return ['val', [[sig.results[0], jsToBits(rtypes[0], r).toString()]]];
    }
    // no signature known: best effort through JS numbers
    const args = call.args.map(a => bitsToJs(a[0], a[1]));
    const r = f(...args);
    if (r === undefined) return ['val', []];
    if (typeof r === 'bigint') return ['val', [['i64', jsToBits('i64', r).toString()]]];
    return ['val', [['num', f64Bits(r).toString()]]];
  } catch (e) {
    const c = trapClass(e);
    if (c) return ['trap', c, String(e.message)];
    return ['error', String(e && e.stack || e)];
  }
}

// several live instances of ONE module: plan[k] = {kind:'new'} (instantiated before the script, own import objects) or
// {kind:'child', parent:p, at:j} (instantiated right before script entry j with the import objects of instance p: imported memories,
// tables and globals are shared, host functions log per instance); script = [{inst, name, args, sig}].  One result record per instance.
function family(req, wasm) {
  const plan = req.plan || [], outs = plan.map(() => ({ instantiate: null, results: [], host_log: [], mem: null, globals: {} }));
  let module;
  try { module = new WebAssembly.Module(wasm); }
  catch (e) { for (const o of outs) o.instantiate = ['invalid', String(e.message)]; return { instances: outs }; }
  const insts = plan.map(() => null), built = plan.map(() => null), tramp = plan.map(() => new Map());
  // host calls of the whole family in the order they happen.  (A function a child's element segments put into a table it shares with
  // its parent is the CHILD's closure: per-instance logs attribute by closure, not by caller; the family log does not attribute.)
  const famlog = [];
  function create(k) {
    const p = plan[k];
    if (p.kind === 'child' && !insts[p.parent]) { outs[k].instantiate = ['skip']; return; }
    built[k] = buildImports(req.imports, { push: (e) => { outs[k].host_log.push(e); famlog.push(e); } }, p.kind === 'child' ? built[p.parent] : null);
    try {
      // p.wasm: this instance is made from a variant of the module (e.g. without the data segments a child does not apply again)
      insts[k] = new WebAssembly.Instance(p.wasm ? new WebAssembly.Module(hexToBuf(p.wasm)) : module, built[k].imports);
      outs[k].instantiate = ['ok'];
    }
    catch (e) {
      const c = trapClass(e);
      if (c) outs[k].instantiate = ['trap', c, String(e.message)];
      else if (e instanceof WebAssembly.LinkError) outs[k].instantiate = ['link', String(e.message)];
      else outs[k].instantiate = ['error', String(e && e.stack || e)];
    }
  }
  plan.forEach((p, k) => { if (p.kind !== 'child') create(k); });
  const script = req.script || [];
  for (let j = 0; j <= script.length; j++) {
    plan.forEach((p, k) => { if (p.kind === 'child' && p.at === j) create(k); });
    if (j === script.length) break;
    const c = script[j];
    outs[c.inst].results.push(insts[c.inst] ? runCall(insts[c.inst], c, req.tramps, tramp[c.inst]) : ['skip']);
  }
  plan.forEach((p, k) => {
    const instance = insts[k];
    if (!instance) return;
    let memory = built[k].created.memory;
    for (const n of Object.keys(instance.exports)) {
      const v = instance.exports[n];
      if (v instanceof WebAssembly.Memory) { if (memory === built[k].created.memory) memory = v; }
      else if (v instanceof WebAssembly.Global) {
        const x = v.value;
        outs[k].globals[Buffer.from(n, 'utf8').toString('hex')] =
          typeof x === 'bigint' ? ['i64', jsToBits('i64', x).toString()] : ['num', f64Bits(x).toString()];
      }
    }
    if (req.mem_hash && memory) {
      const bytes = Buffer.from(new Uint8Array(memory.buffer));
      const hash = crypto.createHash('sha256');
      for (let o = 0; o < bytes.length; o += (1 << 24)) hash.update(bytes.subarray(o, Math.min(bytes.length, o + (1 << 24))));
      outs[k].mem = { sha256: hash.digest('hex'), pages: bytes.length / 65536 };
    }
  });
  return { instances: outs, family_log: famlog };
}

function handle(req) {
  const wasm = hexToBuf(req.wasm);
  if (req.cmd === 'validate') {
    return { valid: WebAssembly.validate(wasm) };
  }
  if (req.cmd === 'compile') {   // like validate but returns the error message
    try { new WebAssembly.Module(wasm); return { valid: true }; }
    catch (e) { return { valid: false, message: String(e.message) }; }
  }
  if (req.cmd === 'family') return family(req, wasm);
  if (req.cmd !== 'run') throw new Error('unknown cmd ' + req.cmd);
  const out = { instantiate: null, results: [], host_log: [], mem: null, globals: {} };
  let module;
  try { module = new WebAssembly.Module(wasm); }
  catch (e) { out.instantiate = ['invalid', String(e.message)]; return out; }
  const { imports, created } = buildImports(req.imports, out.host_log);
  let instance = null;
  try {
    instance = new WebAssembly.Instance(module, imports);
    out.instantiate = ['ok'];
  } catch (e) {
    const c = trapClass(e);
    if (c) out.instantiate = ['trap', c, String(e.message)];
    else if (e instanceof WebAssembly.LinkError) out.instantiate = ['link', String(e.message)];
    else out.instantiate = ['error', String(e && e.stack || e)];
  }
  let memory = created.memory;
  if (instance) {
    const trampInst = new Map();
    for (const call of req.calls || []) out.results.push(runCall(instance, call, req.tramps, trampInst));
    for (const k of Object.keys(instance.exports)) {
      const v = instance.exports[k];
      if (v instanceof WebAssembly.Memory) { if (memory === created.memory) memory = v; }
      else if (v instanceof WebAssembly.Global) {
        const x = v.value;
        out.globals[Buffer.from(k, 'utf8').toString('hex')] =
          typeof x === 'bigint' ? ['i64', jsToBits('i64', x).toString()] : ['num', f64Bits(x).toString()];
      }
    }
  }
  if (req.mem_hash && memory) {
    const bytes = Buffer.from(new Uint8Array(memory.buffer));   // copies (works for SharedArrayBuffer)
    const hash = crypto.createHash('sha256');
    for (let o = 0; o < bytes.length; o += (1 << 24)) hash.update(bytes.subarray(o, Math.min(bytes.length, o + (1 << 24))));
    out.mem = { sha256: hash.digest('hex'), pages: bytes.length / 65536 };
    if (req.mem_dump) out.mem.hex = bytes.subarray(0, req.mem_dump).toString('hex');
  }
  return out;
}

const rl = readline.createInterface({ input: process.stdin, terminal: false });
rl.on('line', (line) => {
  line = line.trim();
  if (!line) return;
  let id = null, reply;
  try {
    const req = JSON.parse(line);
    id = req.id;
    reply = handle(req);
    reply.ok = true;
  } catch (e) {
    reply = { ok: false, error: String(e && e.stack || e) };
  }
  reply.id = id;
  process.stdout.write(JSON.stringify(reply) + '\n');
});
