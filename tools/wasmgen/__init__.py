"""wasmgen: typed WebAssembly module generator, encoder with LEB padding policies, independent
decoder, malformed-stream mutators and a V8 (node) oracle runner.  See README.md."""
from . import wasm_ast
from .encode import encode, Policy, leb_u, leb_s
from .decode import decode, DecodeError, Unsupported
from .gen import gen_module, module_for, arg_vectors, add_random_customs, PROFILES
from . import mutate, v8          # mutate.mutate(rng, bytes), v8.validate / v8.run
from .mutate import MUTATORS
