"""Malformed-stream mutators.  Each takes (rng, wasm bytes) and returns (bytes, tag).

The result is *usually* malformed; callers must ask an oracle (decode / V8) for the verdict.
    MUTATORS: name -> function;  mutate(rng, data, kind=None) picks one.
"""
from .encode import leb_u

VALTYPE_BYTES = (0x7F, 0x7E, 0x7D, 0x7C)


def _read_u32(data, pos):
    result, shift, n = 0, 0, 0
    while True:
        if pos + n >= len(data) or n >= 5:
            return None, 0
        b = data[pos + n]
        result |= (b & 0x7F) << shift
        shift += 7
        n += 1
        if not (b & 0x80):
            return result, n


def sections(data):
    """[(id, header_pos, size_pos, size_len, payload_pos, payload_len)] of a well-formed binary."""
    out, pos = [], 8
    while pos < len(data):
        sid = data[pos]
        size, n = _read_u32(data, pos + 1)
        if size is None or pos + 1 + n + size > len(data):
            break
        out.append((sid, pos, pos + 1, n, pos + 1 + n, size))
        pos += 1 + n + size
    return out


def truncate(rng, data):
    k = rng.randrange(0, len(data)) if len(data) else 0
    return bytes(data[:k]), 'truncate@%d' % k


def flip_byte(rng, data):
    if not data:
        return bytes(data), 'flip@none'
    k = rng.randrange(len(data))
    x = rng.choice((1, 2, 4, 8, 16, 32, 64, 128, 0xFF))
    b = bytearray(data)
    b[k] ^= x
    return bytes(b), 'flip@%d^%02x' % (k, x)


def oversize_section(rng, data):
    """Replace a section's size field by a larger (or huge) value."""
    secs = sections(data)
    if not secs:
        return flip_byte(rng, data)
    sid, hp, sp, sl, pp, pl = rng.choice(secs)
    new = rng.choice((pl + 1, pl + rng.randint(2, 1000), 0x7FFFFFFF, 0xFFFFFFFF, len(data), pl - 1 if pl else 1))
    new = max(0, new)
    return bytes(data[:sp]) + leb_u(new) + bytes(data[sp + sl:]), 'size:sec%d:%d->%d' % (sid, pl, new)


def oversize_count(rng, data):
    """Replace the leading vector count of a non-custom section by a larger value (size fixed up)."""
    secs = [s for s in sections(data) if s[0] not in (0, 8, 12)]
    if not secs:
        return flip_byte(rng, data)
    sid, hp, sp, sl, pp, pl = rng.choice(secs)
    cnt, n = _read_u32(data, pp)
    if cnt is None:
        return flip_byte(rng, data)
    new = rng.choice((cnt + 1, cnt + rng.randint(2, 100), 0xFFFFFFFF, 0x10000000, 0x7FFFFFFF))
    payload = leb_u(new) + bytes(data[pp + n:pp + pl])
    return (bytes(data[:hp]) + bytes([sid]) + leb_u(len(payload)) + payload + bytes(data[pp + pl:]),
            'count:sec%d:%d->%d' % (sid, cnt, new))


def unknown_section(rng, data):
    sid = rng.choice((13, 14, 15, 16, 0x3F, 0x7F, 0x80, 0xFF))
    secs = sections(data)
    pos = rng.choice(secs)[1] if secs and rng.random() < 0.7 else len(data)
    payload = bytes(rng.getrandbits(8) for _ in range(rng.randint(0, 6)))
    return (bytes(data[:pos]) + bytes([sid]) + leb_u(len(payload)) + payload + bytes(data[pos:]),
            'section-id:%d@%d' % (sid, pos))


def _find_in_section(data, sid_wanted):
    for s in sections(data):
        if s[0] == sid_wanted:
            return s
    return None


def bad_limits_flag(rng, data):
    """Corrupt the limits flag of the first memory (or table) definition."""
    s = _find_in_section(data, 5)
    off = 1
    if s is None or s[5] < 2:
        s = _find_in_section(data, 4)
        off = 2            # count, elemtype, flag
    if s is None or s[5] < off + 1:
        return flip_byte(rng, data)
    cnt, n = _read_u32(data, s[4])
    pos = s[4] + n + (off - 1)
    b = bytearray(data)
    new = rng.choice((2, 4, 5, 8, 0x10, 0x40, 0x7F, 0x80, 0x81, 0xFF))
    old = b[pos]
    b[pos] = new
    return bytes(b), 'limits-flag@%d:%d->%d' % (pos, old, new)


def bad_valtype(rng, data):
    """Replace one value-type byte inside the type section by an invalid one."""
    s = _find_in_section(data, 1)
    if s is None:
        return flip_byte(rng, data)
    cands = [p for p in range(s[4], s[4] + s[5]) if data[p] in VALTYPE_BYTES]
    if not cands:
        return flip_byte(rng, data)
    pos = rng.choice(cands)
    new = rng.choice((0x00, 0x40, 0x60, 0x6E, 0x7A, 0x79, 0x3F, 0xFF, 0x80))
    b = bytearray(data)
    old = b[pos]
    b[pos] = new
    return bytes(b), 'valtype@%d:%02x->%02x' % (pos, old, new)


def overlong_leb(rng, data):
    """Make a section size LEB over-long (6 bytes) or set unused bits in a 5-byte encoding."""
    secs = sections(data)
    if not secs:
        return flip_byte(rng, data)
    sid, hp, sp, sl, pp, pl = rng.choice(secs)
    if rng.random() < 0.5:
        enc = bytearray(leb_u(pl, 5))
        enc[-1] |= 0x80
        enc.append(0)
        tag = 'leb-6bytes:sec%d' % sid
    else:
        enc = bytearray(leb_u(pl, 5))
        enc[-1] |= rng.choice((0x10, 0x20, 0x40, 0x70))
        tag = 'leb-unused-bits:sec%d' % sid
    return bytes(data[:sp]) + bytes(enc) + bytes(data[sp + sl:]), tag


def bad_header(rng, data):
    b = bytearray(data)
    k = rng.randrange(min(8, len(b))) if b else 0
    if b:
        b[k] ^= rng.choice((1, 0x80, 0xFF))
    return bytes(b), 'header@%d' % k


MUTATORS = {
    'truncate': truncate, 'flip': flip_byte, 'oversize_size': oversize_section, 'oversize_count': oversize_count,
    'unknown_section': unknown_section, 'bad_limits_flag': bad_limits_flag, 'bad_valtype': bad_valtype,
    'overlong_leb': overlong_leb, 'bad_header': bad_header,
}


def mutate(rng, data, kind=None):
    if kind is None:
        kind = rng.choice(sorted(MUTATORS))
    out, tag = MUTATORS[kind](rng, bytes(data))
    return out, kind + ':' + tag
