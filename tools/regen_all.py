#!/usr/bin/env python3
"""Regenerate every lean/W2c2Verif/Gen/*.lean from the current /repo (or VERIF_REPO): every extractor tools/extract/gen_*.py that
declares GEN_NAME and generate(repo)."""
import os, sys
HERE = os.path.dirname(os.path.abspath(__file__))
sys.path.insert(0, HERE); sys.path.insert(0, os.path.join(HERE, "extract"))
import vlib
GENS = []
for f in sorted(os.listdir(os.path.join(HERE, "extract"))):
    if f.startswith("gen_") and f.endswith(".py"):
        mod = __import__(f[:-3])
        if hasattr(mod, "generate"):
            GENS.append((getattr(mod, "GEN_NAME", None) or {"gen_macros": "Macros"}.get(f[:-3], f[4:-3].capitalize()), f[:-3]))
r = vlib.regenerate(GENS)
for k, v in r.items():
    print(k, "ok" if v["ok"] else "FAIL " + v["error"], "(changed)" if v["changed"] else "")
sys.exit(0 if all(v["ok"] for v in r.values()) else 3)
