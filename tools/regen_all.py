#!/usr/bin/env python3
import os, sys
HERE = os.path.dirname(os.path.abspath(__file__))
sys.path.insert(0, HERE); sys.path.insert(0, os.path.join(HERE, "extract"))
import vlib
GENS = [("Macros", "gen_macros")]
for extra in ("gen_emit", "gen_loadstore", "gen_literals", "gen_files", "gen_atomics", "gen_reader", "gen_array", "gen_wasi", "gen_wasipath", "gen_memfuncs", "gen_instantiate", "gen_initmem", "gen_atomic_emit", "gen_bufread", "gen_wasi_raw", "gen_mangle", "gen_inittables"):
    if os.path.exists(os.path.join(HERE, "extract", extra + ".py")):
        mod = __import__(extra)
        GENS.append((mod.GEN_NAME, extra))
r = vlib.regenerate(GENS)
for k, v in r.items():
    print(k, "ok" if v["ok"] else "FAIL " + v["error"], "(changed)" if v["changed"] else "")
sys.exit(0 if all(v["ok"] for v in r.values()) else 3)
