#!/usr/bin/env python3
"""Single entry point: check.py <Cxx> --tier quick|thorough [--replay file]"""
import argparse
import importlib
import os
import sys
import traceback

HERE = os.path.dirname(os.path.abspath(__file__))
sys.path.insert(0, HERE)
sys.path.insert(0, os.path.join(HERE, "harness"))
sys.path.insert(0, os.path.join(HERE, "extract"))
sys.path.insert(0, os.path.join(HERE, "checks"))


def main():
    ap = argparse.ArgumentParser()
    ap.add_argument("prop")
    ap.add_argument("--tier", default=os.environ.get("VERIF_TIER", "quick"), choices=["quick", "thorough"])
    ap.add_argument("--replay", default=None)
    a = ap.parse_args()
    mod = importlib.import_module(a.prop.lower())
    try:
        if a.replay:
            rc = mod.replay(a.replay)
        else:
            rc = mod.run(a.tier)
    except Exception:
        # a tool failure is not a violation (exit 2)
        traceback.print_exc()
        print(f"CHECK-ERROR property={a.prop} (tool failure, not a violation)")
        sys.exit(2)
    sys.exit(rc)


if __name__ == "__main__":
    main()
