"""C09 — output options and worker scheduling never change what the program does.

Obligations: theorems of Props/C09.lean when present (render_opts_same_ast, prefix_is_renaming,
output_schedule_independent) + Props/C09Pool.lean through tools/checks/c09pool.py (partition_exact,
split_static_sound, pool_exactly_once, pool_deadlock_free … with their partition/split and sched-trace ties).
This file adds the option-matrix part on the REAL w2c2 for generated modules (wasmgen `calls`/`init`/`control`,
variants with duplicated function bodies, reference modules sharing all / some / none of the bodies):
for {-p} x {-m} x {-f 0,1,2,n-1,n,n+1} x {-t 1,2,3,16} (+ -r ref)
 (a) behaviour: selected combinations are compiled and run (tools/harness/e2e.py): identical to the single-file
     single-thread output and to V8;
 (b) every function is defined exactly once across main / s* / d* files;
 (c) for fixed -p/-m the text of every function equals the single-file single-thread text;
 (d) repeated runs and all thread counts give byte-identical files;
 (e) every emitted file compiles on its own against the generated header (gcc -fsyntax-only);
 (f) with -r: a function is in an s* file only if the reference module contains a byte-identical body;
 (g) emit-tokens: the Lean model renders the same function text in plain / -p / -m / -p -m mode.
 (h) data-segment embedding mode (-d arrays | gnu-ld | sectcreate1 | sectcreate2): Props/C09Data.lean (over Model/InitMem.lean and
     Gen/InitMem.lean, REGENERATED from wasmCWriteInitMemories / wasmCWriteDataSegmentsFromSection / wasmCWriteDataSegments by
     tools/extract/gen_initmem.py) proves that instantiation does the same in every mode (blob offset of a segment = total length of ALL
     earlier segments, passive ones included); tie `initmem-text` (tools/checks/initmem.py): InitMemories text + `datasegments` blob +
     d<k> arrays of the real w2c2 in all four modes vs the model; search: directed + generated data-segment modules compiled and run
     in -d arrays and -d gnu-ld (blob linked with ld -r -b binary) against V8 and against each other.
 (i) -r REF classification at the level of bodies: Props/C09Split.lean (`static_only_if_identical_reference_body`, the hash an explicit
     parameter that separates the bodies at hand; SHA-1 collision resistance is in the trusted base); tie `sha1-spec`
     (tools/harness/sha1_harness.py): the real SHA1Init/Update/Final of w2c2/sha1.c vs hashlib on every length 0..300, every multiple of
     64 ± 1 up to 4096, single and split updates; search: module/reference pairs whose code entries are exactly 64·k (and 64·k ± 1) bytes
     long and differ only in the last block / only at the start of the last block / only in the first block / not at all.
Known finding (open): with -m an export literally named f<N> collides with the internal <mod>_f<N>.
"""
import copy
import json
import multiprocessing
import os
import random
import re
import shutil
import subprocess

import vlib
import e2e
import e2e_common as ec
import emit_tokens as et
import initmem
import sha1_harness
from wasmgen import wasm_ast as A, encode, v8
import importlib
encmod = importlib.import_module("wasmgen.encode")      # the module (the package attribute `encode` is the function)

try:                                  # pool / partition / split part (another component)
    import c09pool
except Exception:                     # pragma: no cover
    c09pool = None

PROP = "C09"
KEY_M = "m-prefix-export-named-fN-collides"
KEY_DS = "data-segment-array-undeclared-in-split-file"
KEY_AI = "memory-init-of-active-segment-undeclared-in-external-data-modes"
TS = (1, 2, 3, 16)


# ------------------------------------------------------------------------------- module families
def body_bytes(module, f):
    """The bytes w2c2 hashes for a function: locals declarations + instructions + end."""
    enc = encmod._Enc(module, encmod.MINIMAL)
    return enc.vec(f.locals, lambda l: enc.u32(l[0]) + enc.valtype(l[1])) + enc.expr(f.body)


def with_duplicates(m, rng):
    """Append copies of 1-3 defined functions (same type, locals, body => same hash), exported as x_dup<k>."""
    m = copy.deepcopy(m)
    nimp = sum(1 for i in m.imports if i.kind == "func")
    cands = [k for k in range(len(m.funcs)) if nimp + k != m.start]
    for j in range(min(len(cands), rng.randint(1, 3))):
        k = rng.choice(cands)
        m.funcs.append(copy.deepcopy(m.funcs[k]))
        nm = b"x_dup%d" % j
        m.exports.append(A.Export(nm, "func", nimp + len(m.funcs) - 1))
        m.meta["exports"] = list(m.meta["exports"]) + [(nm, nimp + len(m.funcs) - 1)]
    return m


def reference_for(m, kind):
    """Reference module sharing all / some / none of m's function bodies (others get a leading nop)."""
    r = copy.deepcopy(m)
    n = len(r.funcs)
    for k, f in enumerate(r.funcs):
        if kind == "none" or (kind == "some" and k % 2 == 0):
            f.body = [A.Instr("nop")] + list(f.body)
    return r


def load_family(spec):
    m, b, imp, exports = ec.load_module(dict(spec, rename_exports=True))
    if spec.get("dup"):
        m = with_duplicates(m, random.Random("%s:dup" % ec.spec_id(spec)))
        b = encode(m)
        exports = list(m.meta["exports"])
    return m, b, imp, exports


# ------------------------------------------------------------------------------- one w2c2 run
def run_w2c2(w2c2, d, name, wasm, opts, ref=None):
    if os.path.isdir(d):
        shutil.rmtree(d)
    os.makedirs(d)
    wp = os.path.join(d, name + ".wasm")
    open(wp, "wb").write(wasm)
    o = list(opts)
    if ref is not None:
        rp = os.path.join(d, "ref.wasm")
        open(rp, "wb").write(ref)
        o += ["-r", rp]
    cmd = [w2c2] + o + [wp, os.path.join(d, name + ".c")]
    p = subprocess.run(cmd, stdout=subprocess.PIPE, stderr=subprocess.PIPE, timeout=300, cwd=d)
    files = {}
    for f in sorted(os.listdir(d)):
        if f.endswith(".c") or f.endswith(".h"):
            files[f] = open(os.path.join(d, f), "rb").read()
    return p.returncode, p.stderr.decode("utf-8", "replace")[-300:], files, cmd


def opts_of(P, M, F, T):
    return (["-p"] if P else []) + (["-m"] if M else []) + ["-f", str(F), "-t", str(T)]


def functions_by_file(files, name, multi):
    out = {}
    for f, data in files.items():
        if f.endswith(".c"):
            out[f] = et.real_functions(data.decode("utf-8", "replace"), name, multi)
    return out


def c09_job(job):
    """All text-level checks + selected e2e runs for one module family member.  Returns plain data."""
    spec = job["spec"]
    repo, w2c2, work = job["env"]
    tier = job["tier"]
    sid = ec.spec_id(spec) + ("+dup" if spec.get("dup") else "")
    out = {"id": sid, "spec": spec, "problems": [], "runs": 0, "combos": 0, "files_compiled": 0, "e2e_runs": 0, "error": None,
           "hist": {"single_file": 0, "multi_file": 0, "static_funcs": 0, "dynamic_funcs": 0, "dup_bodies": 0}}
    try:
        m, wasm, imp, exports = load_family(spec)
        name = "m"
        nimp = sum(1 for i in m.imports if i.kind == "func")
        n = len(m.funcs)
        allf = list(range(nimp, nimp + n))
        bodies = [body_bytes(m, f) for f in m.funcs]
        out["functions"] = n
        out["hist"]["dup_bodies"] = n - len(set(bodies))
        base = os.path.join(work, "c09_%d_%s" % (os.getpid(), re.sub(r"\W", "", sid)[-30:]))
        Fs = sorted(set(x for x in (0, 1, 2, n - 1, n, n + 1) if x >= 0))
        rng = random.Random("%s:c09" % sid)

        def problem(kind, opts, detail, found=True):
            out["problems"].append({"kind": kind, "opts": " ".join(opts), "detail": detail, "found_input": found})

        calls = ec.make_calls(spec, m, exports, 2, 16)
        vr = v8.run(wasm, calls, imp, mem_hash=True, module=m)
        for k, r in enumerate(vr.results):
            if r[0] == "trap" and r[1] in e2e.V8_ONLY_TRAPS:
                calls = calls[:k]
                vr = v8.run(wasm, calls, imp, mem_hash=True, module=m)
                break
        out["ncalls"] = len(calls)
        e2e_base = None

        def run_e2e(opts, ref=None, tag=""):
            nonlocal e2e_base
            tr = e2e.translate(w2c2, base + "_e2e", name, wasm, list(opts) + (["-r", ref] if ref else []))
            try:
                rr = e2e.run_real(repo, base + "_e2e", w2c2, m, calls, imp, translated=tr, keep_mem=True)
            finally:
                shutil.rmtree(tr.dir, ignore_errors=True)
            out["e2e_runs"] += 1
            if rr.instantiate[0] in ("w2c2_error", "build_error"):
                problem("e2e-" + rr.instantiate[0], opts, rr.instantiate[1][:300])
                return
            diffs, info = e2e.compare(rr, vr)
            if diffs and not (len(diffs) == 1 and diffs[0]["kind"] == "memory" and rr.mem_bytes is not None and
                              ec.nan_only_diff(rr.mem_bytes, ec.v8_mem_bytes(m, wasm, calls, imp, len(rr.mem_bytes)))):
                problem("behaviour-differs-from-spec", opts, diffs[0])
            if e2e_base is None:
                e2e_base = rr
            else:
                x = ec.cross_build([(("base", [], False), e2e_base), ((" ".join(opts), [], False), rr)])
                if x:
                    problem("behaviour-differs-between-options", opts, {"field": x[0]["field"], "single_file": x[0]["a"], "with_options": x[0]["b"]})

        for P in (0, 1):
            for M in (0, 1):
                rc, err, f0, cmd = run_w2c2(w2c2, base, name, wasm, opts_of(P, M, 0, 1))
                out["runs"] += 1
                if rc != 0:
                    problem("w2c2-fails", opts_of(P, M, 0, 1), err)
                    continue
                base_fn = functions_by_file(f0, name, bool(M)).get(name + ".c", {})
                if sorted(base_fn) != allf:
                    problem("single-file-function-set", opts_of(P, M, 0, 1), {"defined": sorted(base_fn), "expected": allf})
                for F in Fs:
                    ref_files = None
                    for T in TS:
                        opts = opts_of(P, M, F, T)
                        out["combos"] += 1
                        rc, err, files, cmd = run_w2c2(w2c2, base, name, wasm, opts)
                        out["runs"] += 1
                        if rc != 0:
                            problem("w2c2-fails", opts, err)
                            continue
                        # (b) exactly once, (c) same text
                        fb = functions_by_file(files, name, bool(M))
                        count = {}
                        for fn, fns in fb.items():
                            for k, text in fns.items():
                                count[k] = count.get(k, 0) + 1
                                if base_fn.get(k) != text:
                                    problem("function-text-differs-from-single-file", opts, {"function": k, "file": fn})
                        if sorted(count) != allf or any(c != 1 for c in count.values()):
                            problem("function-not-emitted-exactly-once", opts,
                                    {"missing": [k for k in allf if k not in count], "duplicated": [k for k, c in count.items() if c > 1]})
                        multi_file = any(re.fullmatch(r"[sd]\d{10}\.c", f) for f in files)
                        out["hist"]["multi_file" if multi_file else "single_file"] += 1
                        # (d) all thread counts / repeated runs byte-identical
                        if ref_files is None:
                            ref_files = files
                        elif files != ref_files:
                            problem("files-differ-between-thread-counts", opts, {"differing": [f for f in set(files) | set(ref_files) if files.get(f) != ref_files.get(f)][:5]})
                        if T > 1 and (tier == "thorough" or rng.random() < 0.5):
                            rc2, err2, files2, _ = run_w2c2(w2c2, base, name, wasm, opts)
                            out["runs"] += 1
                            if files2 != files:
                                problem("repeated-run-not-byte-identical", opts, {"differing": [f for f in set(files) | set(files2) if files.get(f) != files2.get(f)][:5]})
                        # (e) every file compiles alone
                        if T == 1 and (tier == "thorough" or F in (1, 2)):
                            for f in files:
                                if f.endswith(".c"):
                                    p = subprocess.run(["gcc", "-fsyntax-only", "-w", "-I", os.path.join(repo, "w2c2"), "-I", base, os.path.join(base, f)],
                                                       stdout=subprocess.PIPE, stderr=subprocess.PIPE, text=True)
                                    out["files_compiled"] += 1
                                    if p.returncode != 0:
                                        problem("file-does-not-compile-alone", opts, {"file": f, "error": " | ".join(l for l in p.stderr.splitlines() if "error" in l)[:300]})
        # (f) reference modules
        for kind in ("all", "some", "none"):
            ref = encode(reference_for(m, kind))
            refset = set(body_bytes(None, f) for f in reference_for(m, kind).funcs)
            for (P, M, F, T) in ((0, 0, 1, 1), (0, 0, 2, 3), (1, 1, max(1, n - 1), 2), (0, 1, 0, 16)):
                opts = opts_of(P, M, F, T)
                out["combos"] += 1
                rc, err, files, cmd = run_w2c2(w2c2, base, name, wasm, opts, ref)
                out["runs"] += 1
                if rc != 0:
                    problem("w2c2-fails", opts + ["-r", kind], err)
                    continue
                fb = functions_by_file(files, name, bool(M))
                count = {}
                for fn, fns in fb.items():
                    for k in fns:
                        count[k] = count.get(k, 0) + 1
                        if fn.startswith("s") and re.fullmatch(r"s\d{10}\.c", fn):
                            out["hist"]["static_funcs"] += 1
                            if bodies[k - nimp] not in refset:
                                problem("static-function-without-identical-reference-body", opts + ["-r", kind], {"function": k, "file": fn})
                        elif re.fullmatch(r"d\d{10}\.c", fn):
                            out["hist"]["dynamic_funcs"] += 1
                if sorted(count) != allf or any(c != 1 for c in count.values()):
                    problem("function-not-emitted-exactly-once", opts + ["-r", kind],
                            {"missing": [k for k in allf if k not in count], "duplicated": [k for k, c in count.items() if c > 1]})
                for f in files:
                    if f.endswith(".c") and (P, M, F, T) == (0, 0, 1, 1):
                        p = subprocess.run(["gcc", "-fsyntax-only", "-w", "-I", os.path.join(repo, "w2c2"), "-I", base, os.path.join(base, f)],
                                           stdout=subprocess.PIPE, stderr=subprocess.PIPE, text=True)
                        out["files_compiled"] += 1
                        if p.returncode != 0:
                            problem("file-does-not-compile-alone", opts + ["-r", kind], {"file": f, "error": p.stderr[-300:]})
        # (a) behaviour
        refsome = os.path.join(base, "refsome.wasm")
        os.makedirs(base, exist_ok=True)
        open(refsome, "wb").write(encode(reference_for(m, "some")))
        combos = [(0, 0, 0, 1), (1, 0, 0, 1), (0, 1, 1, 2), (1, 1, 2, 16), (0, 0, max(1, n - 1), 3)]
        if tier == "thorough":
            combos += [(P, M, F, T) for P in (0, 1) for M in (0, 1) for F in (1, n, n + 1) for T in (1, 3)]
        for (P, M, F, T) in combos:
            run_e2e(opts_of(P, M, F, T))
        run_e2e(opts_of(0, 0, 1, 3), refsome)
        run_e2e(opts_of(1, 1, 2, 2), refsome)
        shutil.rmtree(base, ignore_errors=True)
        shutil.rmtree(base + "_e2e", ignore_errors=True)
    except (e2e.E2EError, v8.V8Error) as ex:
        out["error"] = "%s: %s" % (type(ex).__name__, ex)
    return out



# ------------------------------------------------------------------------------- (h) data segment modes
def data_mode_part(chk, env, tier, pr, broken, gen):
    """text tie in all four modes + e2e in the linkable ones (arrays, gnu-ld) vs V8 and vs each other"""
    corpus = [s for s in ec.corpus_specs(PROP) if "w2c2_opts" not in s]
    n_text = 150 if tier == "quick" else 4000
    n_e2e = 14 if tier == "quick" else 300
    data = initmem.data_specs("%s:c09" % chk.seed, n_text)
    with_data = [s for s in gen if ec.load_module(s)[0].datas]
    tt = initmem.text_tie(env, corpus + data + with_data, driver_ok=pr["driver_ok"])
    chk.coverage["evaluations"] += tt["cases"]
    for k in range(tt["modules"]):
        chk.count_case(("initmem-text", k), True, None)
    cand = []
    if tt["disagreements"]:
        d0 = dict(tt["disagreements"][0])
        d0.pop("spec", None)
        broken.append({"kind": "correspondence", "name": "initmem-text",
                       "msg": "%d case(s): InitMemories text / datasegments blob of the real w2c2 differs from Model.InitMem; first %r" % (len(tt["disagreements"]), d0)})
        seen = set()
        for x in tt["disagreements"]:
            if x.get("spec") is not None and x["module"] not in seen and len(cand) < 6:
                seen.add(x["module"])
                cand.append(x["spec"])
    # e2e: passive-rich modules first
    def passive_rank(s_):
        m_ = ec.load_module(s_)[0]
        ps = [k for k, d_ in enumerate(m_.datas) if d_.mode == "passive"]
        return 0 if ps and ps[0] < len(m_.datas) - 1 else 1
    e2e_specs = corpus + cand + sorted(data[:4 * n_e2e], key=passive_rank)[:n_e2e] + with_data[: (2 if tier == "quick" else 40)]
    res = ec.run_jobs(initmem.mode_jobs(env, e2e_specs))
    by = {}
    reported = 0
    runs = 0
    known_ai = 0
    for r in res:
        if r.get("error"):
            chk.notes.append({"data-mode tool error": "%s: %s" % (r["id"], r["error"])})
            continue
        runs += 1
        wo = list(r["spec"].get("w2c2_opts") or [])
        mode = wo[wo.index("-d") + 1] if "-d" in wo else "arrays"
        base_id = r["id"].replace("+d=" + mode, "")
        by.setdefault(base_id, {})[mode] = r
        b = r["builds"][0]
        diffs = b["diffs"] + b.get("init_diffs", [])
        chk.count_case(("data-mode", base_id, mode), True, None)
        if b["real"]["instantiate"][0] in ("w2c2_error", "build_error"):
            diffs = [{"kind": b["real"]["instantiate"][0], "real": b["real"]["instantiate"][1][:300]}]
            if mode != "arrays" and active_segment_used_by_bulk_op(ec.load_module(r["spec"])[0]) and \
                    re.search(r"[‘'`]d\d+[’'`] undeclared|undeclared identifier 'd\d+'", b["real"]["instantiate"][1]):
                known_ai += 1
                chk.violation(KEY_AI,
                              "a function applies memory.init / data.drop to an ACTIVE data segment (valid WebAssembly: the segment counts as dropped after "
                              "instantiation, memory.init of 0 bytes succeeds): with -d gnu-ld / sectcreate1 / sectcreate2 the pointer variable d<k> is "
                              "declared (wasmCWriteDataSegments, header) and initialised (InitMemories) for PASSIVE segments only, so the function body "
                              "`LOAD_DATA(mem, dst, d<k>+src, n)` refers to an undeclared identifier and the output does not compile (-d arrays compiles); "
                              "first module %s: %s" % (base_id, b["real"]["instantiate"][1][:200]),
                              {"kind": "data-mode", "module": r["id"], "spec": r["spec"], "mode": mode, "disagreement": diffs[0],
                               "replay_cmd": "python3 tools/check.py C09 --replay <this file>"}, True)
                continue
        if diffs and reported < 6:
            reported += 1
            d0 = diffs[0]
            chk.violation("data-mode-%s-%s:%s" % (mode, d0["kind"], base_id),
                          "module %s translated with -d %s: the compiled output disagrees with the specification (%s): real %r, expected %r"
                          % (base_id, mode, d0["kind"], d0.get("real"), d0.get("v8", d0.get("spec"))),
                          {"kind": "data-mode", "module": r["id"], "spec": r["spec"], "mode": mode, "disagreement": d0,
                           "replay_cmd": "python3 tools/check.py C09 --replay <this file>"}, True)
    chk.coverage["data_mode_modules_masked_by_" + KEY_AI] = known_ai
    for base_id, d in by.items():
        if len(d) == 2 and tuple(d["gnu-ld"]["builds"][0]["real"]["instantiate"])[0] not in ("w2c2_error", "build_error"):
            a, g = d["arrays"]["builds"][0]["real"], d["gnu-ld"]["builds"][0]["real"]
            for fld in ("instantiate", "results", "mem", "all_globals"):
                if a.get(fld) != g.get(fld) and reported < 6 and tuple(a["instantiate"]) == ("ok",):
                    reported += 1
                    chk.violation("data-mode-behaviour-differs:%s" % base_id,
                                  "module %s behaves differently under -d arrays and -d gnu-ld (%s)" % (base_id, fld),
                                  {"kind": "data-mode", "module": d["gnu-ld"]["id"], "spec": d["gnu-ld"]["spec"], "mode": "gnu-ld", "field": fld,
                                   "arrays": str(a.get(fld))[:300], "gnu-ld": str(g.get(fld))[:300]}, True)
                    break
    chk.coverage.update({"data_mode_text_cases": tt["cases"], "data_mode_text_modules": tt["modules"], "data_mode_text_disagreements": len(tt["disagreements"]),
                         "data_mode_text_histogram": tt["hist"], "data_mode_text_modes": list(initmem.MODES),
                         "data_mode_e2e_runs": runs, "data_mode_e2e_modules": len(by), "data_mode_e2e_modes": ["arrays", "gnu-ld"]})
    chk.coverage["disagreements_checked"] = chk.coverage.get("disagreements_checked", 0) + tt["cases"] + runs


def active_segment_used_by_bulk_op(m):
    act = set(k for k, d in enumerate(m.datas) if d.mode == "active")

    def walk(body):
        for ins in body:
            if ins.op in ("memory.init", "data.drop") and ins.imm[0] in act:
                return True
            if (ins.body and walk(ins.body)) or (ins.else_body and walk(ins.else_body)):
                return True
        return False
    return any(walk(f.body) for f in m.funcs)


def replay_data_mode(r):
    with vlib.scratch("c09r-") as d:
        env = ec.Env(d)
        res = ec.e2e_job(initmem.mode_jobs(env, [r["spec"]], modes=("arrays",))[0])       # the mode travels in spec['w2c2_opts']
    if res.get("error"):
        raise RuntimeError(res["error"])
    b = res["builds"][0]
    diffs = b["diffs"] + b.get("init_diffs", [])
    if b["real"]["instantiate"][0] in ("w2c2_error", "build_error"):
        diffs = [{"kind": b["real"]["instantiate"][0], "real": b["real"]["instantiate"][1][:300]}]
    for dd in diffs:
        print("replay %s: %s: real %r expected %r" % (res["id"], dd["kind"], dd.get("real"), dd.get("v8", dd.get("spec"))))
    print("replay %s (w2c2 %s): %d disagreement(s) with the specification" % (res["id"], " ".join(r["spec"].get("w2c2_opts", [])), len(diffs)))
    return 1 if diffs else 0


# ------------------------------------------------------------------------------- (i) SHA-1 and -r REF on bodies of 64·k bytes
def sha1_part(chk, env, tier, broken):
    exe = sha1_harness.build(env.repo, env.dir)
    cs = sha1_harness.cases(chk.rng, maxlen=4096 if tier == "quick" else 16384, extra_random=200 if tier == "quick" else 3000)
    bad, n = sha1_harness.run(exe, cs)
    chk.coverage["evaluations"] += n
    chk.coverage["sha1_spec_cases"] = n
    chk.coverage["sha1_spec_lengths"] = "0..300, 64k-1/64k/64k+1 up to %d, random" % (4096 if tier == "quick" else 16384)
    chk.coverage["sha1_spec_mismatches"] = len(bad)
    if bad:
        msg, cuts, got, want = bad[0]
        broken.append({"kind": "correspondence", "name": "sha1-spec",
                       "msg": "%d of %d messages: w2c2/sha1.c does not compute SHA-1; first: length %d, SHA1Update cuts %r: real %s, hashlib %s"
                              % (len(bad), n, len(msg), cuts, got, want), "message_hex": msg.hex()[:400], "cuts": cuts})
    return bad


def sized_function(L, tag, variant):
    """a function [] -> [i32] whose code entry (locals + code) is exactly L bytes: 00 | nop … | i32.const a, drop … | i32.const r | 0b.
    variant: 'base' | 'tail' (differs in the last 3 bytes) | 'lastblock' (differs at the first bytes of the last 64-byte block) |
    'first' (differs in the first bytes).  tag (0..63) makes bodies of different functions different (in the first block)."""
    I = A.Instr
    ret = 100 + tag
    n = L - 1 - 1 - 3            # locals vec, end, `i32.const ret` (3 bytes: 41 + 2-byte LEB for 64 <= ret < 8192)
    ops = ["nop"] * n
    # marker in the first block: i32.const tag; drop  (41 tag 1a)
    ops[0:3] = [("c", tag & 0x3F)]

    def alter(pos):
        ops[pos:pos + 3] = [("c", 0x3F)]
    if variant == "first":
        alter(3)
    if variant == "lastblock":
        alter(L - 64 - 1 + 1 - 2 if L >= 66 else 6)       # entry offset L-64 = start of the last block (entry offset = op position + 1)
    body = []
    for o in ops:
        if o == "nop":
            body.append(I("nop"))
        else:
            body += [I("i32.const", o[1]), I("drop")]
    body.append(I("i32.const", ret + (1000 if variant == "tail" else 0)))
    return A.Function(0, [], body)


def ref_hash_pairs(tier):
    """[(name, module, reference, expect)] expect[k] = True iff function k of the module has a byte-identical body in the reference"""
    out = []
    lens = [64, 127, 128, 129, 192, 256, 320, 1024] if tier == "quick" else [63, 64, 65, 127, 128, 129, 191, 192, 193, 256, 320, 384, 448, 512, 1024, 4096, 65536]
    variants = ("base", "tail", "lastblock", "first")
    m, r, expect = A.Module(), A.Module(), []
    for mod in (m, r):
        mod.types = [A.FuncType([], [A.I32])]
    tag = 0
    for L in lens:
        for v in variants:
            m.funcs.append(sized_function(L, tag, "base"))
            r.funcs.append(sized_function(L, tag, v))
            expect.append(v == "base")
            tag += 1
    for k in range(len(m.funcs)):
        m.exports.append(A.Export(b"x%d" % k, "func", k))
        r.exports.append(A.Export(b"x%d" % k, "func", k))
    for k, f in enumerate(m.funcs):
        assert len(body_bytes(m, f)) == lens[k // 4], (len(body_bytes(m, f)), lens[k // 4])
        assert (body_bytes(m, f) == body_bytes(r, r.funcs[k])) == expect[k]
        if not expect[k] and variants[k % 4] in ("tail", "lastblock") and lens[k // 4] >= 64:
            a, b = body_bytes(m, f), body_bytes(r, r.funcs[k])
            assert a[:len(a) - 64] == b[:len(b) - 64], "the difference must lie in the last 64 bytes"
    out.append(("sized-bodies", m, r, expect))
    return out


def ref_hash_run(w2c2, d, name, m, r, expect, optsets):
    """→ (problems, static/dynamic counts)"""
    wasm, ref = encode(m), encode(r)
    bodies = [body_bytes(m, f) for f in m.funcs]
    refset = set(body_bytes(r, f) for f in r.funcs)
    problems = []
    counts = {"static": 0, "dynamic": 0, "identical_but_dynamic": 0}
    for opts in optsets:
        rc, err, files, cmd = run_w2c2(w2c2, d, "m", wasm, opts, ref)
        if rc != 0:
            problems.append({"kind": "w2c2-fails", "opts": opts, "detail": err})
            continue
        for fn, fns in functions_by_file(files, "m", "-m" in opts).items():
            st = bool(re.fullmatch(r"s\d{10}\.c", fn))
            dy = bool(re.fullmatch(r"d\d{10}\.c", fn))
            for k in fns:
                if st:
                    counts["static"] += 1
                    if bodies[k] not in refset:
                        problems.append({"kind": "static-function-without-identical-reference-body", "opts": opts, "function": k, "file": fn,
                                         "entry_length": len(bodies[k]),
                                         "detail": "function %d (code entry of %d bytes) is in static file %s but no function of the reference module has "
                                                   "the same locals+code bytes" % (k, len(bodies[k]), fn)})
                elif dy:
                    counts["dynamic"] += 1
                    if bodies[k] in refset:
                        counts["identical_but_dynamic"] += 1
    return problems, counts


def ref_hash_part(chk, env, tier, broken):
    tot = {"static": 0, "dynamic": 0, "identical_but_dynamic": 0}
    npairs = 0
    for name, m, r, expect in ref_hash_pairs(tier):
        d = os.path.join(env.work, "refhash")
        optsets = [["-f", "1", "-t", "1"], ["-f", "3", "-t", "4"]] + ([["-p", "-m", "-f", "2", "-t", "2"]] if tier == "thorough" else [])
        problems, counts = ref_hash_run(env.w2c2, d, name, m, r, expect, optsets)
        shutil.rmtree(d, ignore_errors=True)
        npairs += 1
        ec.merge_hist(tot, counts)
        chk.count_case(("ref-hash", name), True, {"pair": name, "functions": len(m.funcs), "expected_static": sum(expect), "counts": counts})
        for p in problems[:3]:
            chk.violation("%s:%s:f%s" % (p["kind"], name, p.get("function")),
                          "w2c2 %s -r REF: %s" % (" ".join(p["opts"]), p["detail"]),
                          {"kind": "ref-hash", "pair": name, "module_hex": encode(m).hex(), "ref_hex": encode(r).hex(), "opts": p["opts"], "problem": p,
                           "replay_cmd": "python3 tools/check.py C09 --replay <this file>"}, True)
        if counts["identical_but_dynamic"]:
            broken.append({"kind": "correspondence", "name": "split-on-bodies",
                           "msg": "%d function(s) with a byte-identical reference body were classified dynamic (the model's merge makes them static)" % counts["identical_but_dynamic"]})
    chk.coverage.update({"ref_hash_pairs": npairs, "ref_hash_classified": tot,
                         "ref_hash_entry_lengths": "64·k and 64·k ± 1 byte code entries; module/reference differ in the last 3 bytes | at the start of the last "
                                                   "64-byte block | in the first block | not at all"})


def replay_ref_hash(r):
    from wasmgen import decode
    m, ref = decode(bytes.fromhex(r["module_hex"])), decode(bytes.fromhex(r["ref_hex"]))
    with vlib.scratch("c09r-") as d:
        env = ec.Env(d)
        problems, counts = ref_hash_run(env.w2c2, os.path.join(env.work, "refhash"), "m", m, ref, None, [r["opts"]])
    for p in problems:
        print("replay: w2c2 %s -r REF: %s" % (" ".join(p["opts"]), p["detail"]))
    print("replay ref-hash: %d problem(s); %r" % (len(problems), counts))
    return 1 if problems else 0


def m_collision_case(chk, env):
    """ONE targeted case of the recorded open finding: -m + an export literally named f<N>."""
    I = A.Instr
    m = A.Module()
    m.types = [A.FuncType([], [A.I32])]
    m.funcs = [A.Function(0, [], [I("i32.const", 7)])]
    m.exports = [A.Export(b"f0", "func", 0)]
    b = encode(m)
    calls = [(b"f0", [])]
    out = {}
    for tag, opts in (("plain", ()), ("-m", ("-m",))):
        rr = e2e.run_real(env.repo, env.work, env.w2c2, m, calls, {}, w2c2_opts=opts, name="coll", wasm_bytes=b)
        out[tag] = (rr.instantiate, rr.results)
    chk.count_case(("m-collision",), True, None)
    if out["plain"][1] == [("val", [("i32", 7)])] and out["-m"][0][0] == "build_error":
        chk.violation(KEY_M, "with -m the internal function f0 is emitted as coll_f0, the same identifier as the wrapper of the export named \"f0\": "
                      "the output does not compile (%s)" % out["-m"][0][1][:200], {"hex": b.hex(), "opts": ["-m"], "result": out}, True)
    elif out["-m"][1] != out["plain"][1]:
        chk.violation(KEY_M + "-behaviour", "-m changes the behaviour of a module exporting f0: %r" % (out,), {"hex": b.hex(), "opts": ["-m"], "result": out}, True)
    return out


def run(tier):
    chk = vlib.Check(PROP, tier)
    chk.coverage["trusted_base"] = list(vlib.GLOBAL_TRUSTED) + ["V8 (node 20) as behavioural reference; tools/harness/e2e.py embedder"]
    chk.coverage["trusted_base"].append("SHA-1 collision resistance on the function bodies at hand (hypothesis `hsep` of "
                                        "static_only_if_identical_reference_body); hashlib.sha1 (OpenSSL) as the SHA-1 specification")
    chk.assumptions = ["-g (#line mapping needs libdwarf, absent) and translator build configurations without pthreads/getopt are not part of "
                       "this run's matrix; -d sectcreate1/sectcreate2 outputs need the macOS linker: their InitMemories text and blob are compared "
                       "with the model, they are not executed (-d gnu-ld is linked with ld -r -b binary and run)"]
    names = ["C09", "C09Data", "C09Split"] + (["C09Pool"] if c09pool is None else [])
    pr = ec.prove_if_present(chk, names, ec.GENS + [("InitMem", "gen_initmem")])
    broken = list(pr["errors"])
    if c09pool is not None:
        if "theorems pending" in chk.notes:
            chk.notes.remove("theorems pending")
            chk.notes.append("Props/C09.lean (render_opts_same_ast, prefix_is_renaming) pending; Props/C09Pool.lean proved (below)")
        c09pool.run_pool(chk, tier, broken)
        if chk.coverage["obligations"] > 0:
            chk.level = "proof"
    n_mod = 16 if tier == "quick" else 120
    stats = {"errors": []}
    with vlib.scratch("c09-") as d:
        env = ec.Env(d)
        m_collision_case(chk, env)
        sha1_part(chk, env, tier, broken)
        ref_hash_part(chk, env, tier, broken)
        corpus = ec.corpus_specs(PROP)
        gen = []
        for prof, share in (("calls", 0.6), ("init", 0.2), ("control", 0.2)):
            k = max(1, int(n_mod * share))
            gen += ec.gen_specs(chk.seed, prof, k)
        specs = corpus + gen + [dict(s, dup=True) for s in gen[: max(2, len(gen) // 2)]]
        jobs = [dict(spec=s, env=env.tuple(), tier=tier) for s in specs]
        with multiprocessing.Pool(min(16, len(jobs)), initializer=ec._init_worker) as pool:
            results = pool.map(c09_job, jobs, chunksize=1)
        tot = {"runs": 0, "combos": 0, "files_compiled": 0, "e2e_runs": 0}
        hist = {}
        nfuncs = {}
        msamples = []
        for res in results:
            if res.get("error"):
                stats["errors"].append("%s: %s" % (res["id"], res["error"]))
                continue
            for k in tot:
                tot[k] += res[k]
            ec.merge_hist(hist, res["hist"])
            nfuncs[res["functions"]] = nfuncs.get(res["functions"], 0) + 1
            chk.count_case(("matrix", res["id"]), res["functions"] > 1, None)
            if len(msamples) < 6:
                msamples.append({"module": res["id"], "functions": res["functions"], "w2c2_runs": res["runs"], "option_combinations": res["combos"],
                                 "e2e_runs": res["e2e_runs"], "calls": res.get("ncalls")})
            for p in res["problems"][:3]:
                key = "%s:%s:%s" % (p["kind"], p["opts"].replace(" ", ""), res["id"])
                if p["kind"] in ("file-does-not-compile-alone", "e2e-build_error") and re.search(r"[‘'`]d\d+[’'`] undeclared|undeclared identifier 'd\d+'", str(p["detail"])):
                    key = KEY_DS       # one defect, many modules/options
                chk.violation(key,
                              "w2c2 %s on module %s: %s: %r" % (p["opts"], res["id"], p["kind"], p["detail"]),
                              {"module": res["id"], "spec": res["spec"], "opts": p["opts"], "problem": p,
                               "replay_cmd": "python3 tools/check.py C09 --replay <this file>"}, True)
        # (h) data segment modes
        data_mode_part(chk, env, tier, pr, broken, gen)
        # (g) the model renders the same text under -p / -m
        nfun, bad = 0, []
        for multi, pretty in ((False, False), (False, True), (True, False), (True, True)):
            tok = ec.emit_tokens_batch(env, [dict(s, rename_exports=True) for s in gen], multi=multi, pretty=pretty, driver_ok=pr["driver_ok"])
            nfun += sum(t["functions"] for t in tok.values())
            bad += [(sid, multi, pretty, t["mismatch"][0]) for sid, t in tok.items() if t["mismatch"]]
        if bad:
            broken.append({"kind": "correspondence", "name": "emit-tokens", "msg": "%d module renderings differ, first %r" % (len(bad), bad[0])})
        cov = chk.coverage
        cov["programs"] = cov.get("programs", 0) + len([r for r in results if not r.get("error")])
        cov["disagreements_checked"] = cov.get("disagreements_checked", 0) + tot["combos"] + tot["e2e_runs"]
        rule = ("option matrix: a case = one module (wasmgen calls/init/control by seed:profile:index, exports renamed x_*, optionally with duplicated "
                "bodies) x {-p} x {-m} x {-f 0,1,2,n-1,n,n+1} x {-t 1,2,3,16} (+ -r with reference sharing all/some/none bodies): (b) each function "
                "defined exactly once, (c) text equal to the single-file single-thread text, (d) byte-identical across -t and repeated runs, (e) each "
                "file passes gcc -fsyntax-only alone, (f) static => identical body in the reference, (a) selected combinations compiled and run "
                "vs single-file output and V8; non-trivial = module has > 1 function")
        cov["rule"] = (cov.get("rule", "") + " | " if cov.get("rule") else "") + rule
        cov.update({"matrix_modules": len(specs), "matrix_w2c2_runs": tot["runs"], "matrix_option_combinations": tot["combos"],
                    "matrix_files_compiled_alone": tot["files_compiled"], "matrix_e2e_runs": tot["e2e_runs"], "matrix_histogram": hist,
                    "matrix_functions_per_module": {str(k): v for k, v in sorted(nfuncs.items())},
                    "emit_tokens_functions": nfun, "emit_tokens_mismatching": len(bad), "corpus_modules": len(corpus), "matrix_samples": msamples})
        cov["samples"] = msamples[:3] + cov["samples"][:9]
    if stats["errors"]:
        chk.notes.append({"tool_errors": stats["errors"][:10]})
        if len(stats["errors"]) > max(2, len(specs) // 10):
            raise RuntimeError("too many tool errors: %r" % stats["errors"][:5])
    if tier == "thorough" and pr.get("modules") and pr["build_ok"]:
        import common
        for mname, msg in common.leanchecker(chk, pr["modules"]):
            broken.append({"kind": "leanchecker", "msg": "%s: %s" % (mname, msg)})
    if broken and not chk.violations:
        chk.violation("tie-or-proof-broken", "a proof obligation or a correspondence (emit-tokens / partition / sched-trace) no longer checks; the option "
                      "matrix and the schedule search found no run on which the real w2c2 violates the property", {"broken": broken[:20]}, False)
    elif broken:
        chk.notes.append({"broken": broken[:10]})
    return chk.finish()


def replay(path):
    r = json.load(open(path))
    if r.get("kind") == "data-mode":
        return replay_data_mode(r)
    if r.get("kind") == "ref-hash":
        return replay_ref_hash(r)
    if "SCHED_SEED" in r or "module_keys" in r:
        return c09pool.replay(path)
    with vlib.scratch("c09r-") as d:
        env = ec.Env(d)
        if "hex" in r and "spec" not in r:
            class _C(object):
                def count_case(self, *a):
                    pass

                def violation(self, key, what, obj, found):
                    print("replay:", key, what)
                    self.bad = True
            c = _C()
            c.bad = False
            m_collision_case(c, env)
            return 1 if c.bad else 0
        res = c09_job(dict(spec=r["spec"], env=env.tuple(), tier=r.get("tier", "quick")))
    if res.get("error"):
        raise RuntimeError(res["error"])
    for p in res["problems"]:
        print("replay %s: w2c2 %s: %s %r" % (res["id"], p["opts"], p["kind"], p["detail"]))
    print("replay %s: %d problem(s) in %d option combinations (%d w2c2 runs, %d e2e runs)" % (res["id"], len(res["problems"]), res["combos"], res["runs"], res["e2e_runs"]))
    return 1 if res["problems"] else 0
