"""C09 — output options and worker scheduling never change what the program does.

Obligations: theorems of Props/C09.lean when present (render_opts_same_ast, prefix_is_renaming,
output_schedule_independent) + Props/C09Pool.lean through tools/checks/c09pool.py (partition_exact,
split_static_sound, pool_exactly_once, pool_deadlock_free … with their partition/split and sched-trace ties).
This file adds the option-matrix part on the REAL w2c2 for generated modules (wasmgen `calls`/`init`/`control`,
variants with duplicated function bodies, reference modules sharing all / some / none of the bodies):
for {-p} x {-m} x {-f 0,1,2,n-1,n,n+1} x {-t 1,2,3,16} (+ -r ref)
 (a) behaviour: selected combinations are compiled and run (tools/harness/e2e.py): identical to the single-file
     single-thread output and to V8;
 (b) every function is defined exactly once across main / s* / d* files;
 (c) for fixed -p/-m the text of every function equals the single-file single-thread text;
 (d) repeated runs and all thread counts give byte-identical files;
 (e) every emitted file compiles on its own against the generated header (gcc -fsyntax-only);
 (f) with -r: a function is in an s* file only if the reference module contains a byte-identical body;
 (g) emit-tokens: the Lean model renders the same function text in plain / -p / -m / -p -m mode.
Known finding (open): with -m an export literally named f<N> collides with the internal <mod>_f<N>.
"""
import copy
import json
import multiprocessing
import os
import random
import re
import shutil
import subprocess

import vlib
import e2e
import e2e_common as ec
import emit_tokens as et
from wasmgen import wasm_ast as A, encode, v8
import importlib
encmod = importlib.import_module("wasmgen.encode")      # the module (the package attribute `encode` is the function)

try:                                  # pool / partition / split part (another component)
    import c09pool
except Exception:                     # pragma: no cover
    c09pool = None

PROP = "C09"
KEY_M = "m-prefix-export-named-fN-collides"
KEY_DS = "data-segment-array-undeclared-in-split-file"
TS = (1, 2, 3, 16)


# ------------------------------------------------------------------------------- module families
def body_bytes(module, f):
    """The bytes w2c2 hashes for a function: locals declarations + instructions + end."""
    enc = encmod._Enc(module, encmod.MINIMAL)
    return enc.vec(f.locals, lambda l: enc.u32(l[0]) + enc.valtype(l[1])) + enc.expr(f.body)


def with_duplicates(m, rng):
    """Append copies of 1-3 defined functions (same type, locals, body => same hash), exported as x_dup<k>."""
    m = copy.deepcopy(m)
    nimp = sum(1 for i in m.imports if i.kind == "func")
    cands = [k for k in range(len(m.funcs)) if nimp + k != m.start]
    for j in range(min(len(cands), rng.randint(1, 3))):
        k = rng.choice(cands)
        m.funcs.append(copy.deepcopy(m.funcs[k]))
        nm = b"x_dup%d" % j
        m.exports.append(A.Export(nm, "func", nimp + len(m.funcs) - 1))
        m.meta["exports"] = list(m.meta["exports"]) + [(nm, nimp + len(m.funcs) - 1)]
    return m


def reference_for(m, kind):
    """Reference module sharing all / some / none of m's function bodies (others get a leading nop)."""
    r = copy.deepcopy(m)
    n = len(r.funcs)
    for k, f in enumerate(r.funcs):
        if kind == "none" or (kind == "some" and k % 2 == 0):
            f.body = [A.Instr("nop")] + list(f.body)
    return r


def load_family(spec):
    m, b, imp, exports = ec.load_module(dict(spec, rename_exports=True))
    if spec.get("dup"):
        m = with_duplicates(m, random.Random("%s:dup" % ec.spec_id(spec)))
        b = encode(m)
        exports = list(m.meta["exports"])
    return m, b, imp, exports


# ------------------------------------------------------------------------------- one w2c2 run
def run_w2c2(w2c2, d, name, wasm, opts, ref=None):
    if os.path.isdir(d):
        shutil.rmtree(d)
    os.makedirs(d)
    wp = os.path.join(d, name + ".wasm")
    open(wp, "wb").write(wasm)
    o = list(opts)
    if ref is not None:
        rp = os.path.join(d, "ref.wasm")
        open(rp, "wb").write(ref)
        o += ["-r", rp]
    cmd = [w2c2] + o + [wp, os.path.join(d, name + ".c")]
    p = subprocess.run(cmd, stdout=subprocess.PIPE, stderr=subprocess.PIPE, timeout=300, cwd=d)
    files = {}
    for f in sorted(os.listdir(d)):
        if f.endswith(".c") or f.endswith(".h"):
            files[f] = open(os.path.join(d, f), "rb").read()
    return p.returncode, p.stderr.decode("utf-8", "replace")[-300:], files, cmd


def opts_of(P, M, F, T):
    return (["-p"] if P else []) + (["-m"] if M else []) + ["-f", str(F), "-t", str(T)]


def functions_by_file(files, name, multi):
    out = {}
    for f, data in files.items():
        if f.endswith(".c"):
            out[f] = et.real_functions(data.decode("utf-8", "replace"), name, multi)
    return out


def c09_job(job):
    """All text-level checks + selected e2e runs for one module family member.  Returns plain data."""
    spec = job["spec"]
    repo, w2c2, work = job["env"]
    tier = job["tier"]
    sid = ec.spec_id(spec) + ("+dup" if spec.get("dup") else "")
    out = {"id": sid, "spec": spec, "problems": [], "runs": 0, "combos": 0, "files_compiled": 0, "e2e_runs": 0, "error": None,
           "hist": {"single_file": 0, "multi_file": 0, "static_funcs": 0, "dynamic_funcs": 0, "dup_bodies": 0}}
    try:
        m, wasm, imp, exports = load_family(spec)
        name = "m"
        nimp = sum(1 for i in m.imports if i.kind == "func")
        n = len(m.funcs)
        allf = list(range(nimp, nimp + n))
        bodies = [body_bytes(m, f) for f in m.funcs]
        out["functions"] = n
        out["hist"]["dup_bodies"] = n - len(set(bodies))
        base = os.path.join(work, "c09_%d_%s" % (os.getpid(), re.sub(r"\W", "", sid)[-30:]))
        Fs = sorted(set(x for x in (0, 1, 2, n - 1, n, n + 1) if x >= 0))
        rng = random.Random("%s:c09" % sid)

        def problem(kind, opts, detail, found=True):
            out["problems"].append({"kind": kind, "opts": " ".join(opts), "detail": detail, "found_input": found})

        calls = ec.make_calls(spec, m, exports, 2, 16)
        vr = v8.run(wasm, calls, imp, mem_hash=True, module=m)
        for k, r in enumerate(vr.results):
            if r[0] == "trap" and r[1] in e2e.V8_ONLY_TRAPS:
                calls = calls[:k]
                vr = v8.run(wasm, calls, imp, mem_hash=True, module=m)
                break
        out["ncalls"] = len(calls)
        e2e_base = None

        def run_e2e(opts, ref=None, tag=""):
            nonlocal e2e_base
            tr = e2e.translate(w2c2, base + "_e2e", name, wasm, list(opts) + (["-r", ref] if ref else []))
            try:
                rr = e2e.run_real(repo, base + "_e2e", w2c2, m, calls, imp, translated=tr, keep_mem=True)
            finally:
                shutil.rmtree(tr.dir, ignore_errors=True)
            out["e2e_runs"] += 1
            if rr.instantiate[0] in ("w2c2_error", "build_error"):
                problem("e2e-" + rr.instantiate[0], opts, rr.instantiate[1][:300])
                return
            diffs, info = e2e.compare(rr, vr)
            if diffs and not (len(diffs) == 1 and diffs[0]["kind"] == "memory" and rr.mem_bytes is not None and
                              ec.nan_only_diff(rr.mem_bytes, ec.v8_mem_bytes(m, wasm, calls, imp, len(rr.mem_bytes)))):
                problem("behaviour-differs-from-spec", opts, diffs[0])
            if e2e_base is None:
                e2e_base = rr
            else:
                x = ec.cross_build([(("base", [], False), e2e_base), ((" ".join(opts), [], False), rr)])
                if x:
                    problem("behaviour-differs-between-options", opts, {"field": x[0]["field"], "single_file": x[0]["a"], "with_options": x[0]["b"]})

        for P in (0, 1):
            for M in (0, 1):
                rc, err, f0, cmd = run_w2c2(w2c2, base, name, wasm, opts_of(P, M, 0, 1))
                out["runs"] += 1
                if rc != 0:
                    problem("w2c2-fails", opts_of(P, M, 0, 1), err)
                    continue
                base_fn = functions_by_file(f0, name, bool(M)).get(name + ".c", {})
                if sorted(base_fn) != allf:
                    problem("single-file-function-set", opts_of(P, M, 0, 1), {"defined": sorted(base_fn), "expected": allf})
                for F in Fs:
                    ref_files = None
                    for T in TS:
                        opts = opts_of(P, M, F, T)
                        out["combos"] += 1
                        rc, err, files, cmd = run_w2c2(w2c2, base, name, wasm, opts)
                        out["runs"] += 1
                        if rc != 0:
                            problem("w2c2-fails", opts, err)
                            continue
                        # (b) exactly once, (c) same text
                        fb = functions_by_file(files, name, bool(M))
                        count = {}
                        for fn, fns in fb.items():
                            for k, text in fns.items():
                                count[k] = count.get(k, 0) + 1
                                if base_fn.get(k) != text:
                                    problem("function-text-differs-from-single-file", opts, {"function": k, "file": fn})
                        if sorted(count) != allf or any(c != 1 for c in count.values()):
                            problem("function-not-emitted-exactly-once", opts,
                                    {"missing": [k for k in allf if k not in count], "duplicated": [k for k, c in count.items() if c > 1]})
                        multi_file = any(re.fullmatch(r"[sd]\d{10}\.c", f) for f in files)
                        out["hist"]["multi_file" if multi_file else "single_file"] += 1
                        # (d) all thread counts / repeated runs byte-identical
                        if ref_files is None:
                            ref_files = files
                        elif files != ref_files:
                            problem("files-differ-between-thread-counts", opts, {"differing": [f for f in set(files) | set(ref_files) if files.get(f) != ref_files.get(f)][:5]})
                        if T > 1 and (tier == "thorough" or rng.random() < 0.5):
                            rc2, err2, files2, _ = run_w2c2(w2c2, base, name, wasm, opts)
                            out["runs"] += 1
                            if files2 != files:
                                problem("repeated-run-not-byte-identical", opts, {"differing": [f for f in set(files) | set(files2) if files.get(f) != files2.get(f)][:5]})
                        # (e) every file compiles alone
                        if T == 1 and (tier == "thorough" or F in (1, 2)):
                            for f in files:
                                if f.endswith(".c"):
                                    p = subprocess.run(["gcc", "-fsyntax-only", "-w", "-I", os.path.join(repo, "w2c2"), "-I", base, os.path.join(base, f)],
                                                       stdout=subprocess.PIPE, stderr=subprocess.PIPE, text=True)
                                    out["files_compiled"] += 1
                                    if p.returncode != 0:
                                        problem("file-does-not-compile-alone", opts, {"file": f, "error": " | ".join(l for l in p.stderr.splitlines() if "error" in l)[:300]})
        # (f) reference modules
        for kind in ("all", "some", "none"):
            ref = encode(reference_for(m, kind))
            refset = set(body_bytes(None, f) for f in reference_for(m, kind).funcs)
            for (P, M, F, T) in ((0, 0, 1, 1), (0, 0, 2, 3), (1, 1, max(1, n - 1), 2), (0, 1, 0, 16)):
                opts = opts_of(P, M, F, T)
                out["combos"] += 1
                rc, err, files, cmd = run_w2c2(w2c2, base, name, wasm, opts, ref)
                out["runs"] += 1
                if rc != 0:
                    problem("w2c2-fails", opts + ["-r", kind], err)
                    continue
                fb = functions_by_file(files, name, bool(M))
                count = {}
                for fn, fns in fb.items():
                    for k in fns:
                        count[k] = count.get(k, 0) + 1
                        if fn.startswith("s") and re.fullmatch(r"s\d{10}\.c", fn):
                            out["hist"]["static_funcs"] += 1
                            if bodies[k - nimp] not in refset:
                                problem("static-function-without-identical-reference-body", opts + ["-r", kind], {"function": k, "file": fn})
                        elif re.fullmatch(r"d\d{10}\.c", fn):
                            out["hist"]["dynamic_funcs"] += 1
                if sorted(count) != allf or any(c != 1 for c in count.values()):
                    problem("function-not-emitted-exactly-once", opts + ["-r", kind],
                            {"missing": [k for k in allf if k not in count], "duplicated": [k for k, c in count.items() if c > 1]})
                for f in files:
                    if f.endswith(".c") and (P, M, F, T) == (0, 0, 1, 1):
                        p = subprocess.run(["gcc", "-fsyntax-only", "-w", "-I", os.path.join(repo, "w2c2"), "-I", base, os.path.join(base, f)],
                                           stdout=subprocess.PIPE, stderr=subprocess.PIPE, text=True)
                        out["files_compiled"] += 1
                        if p.returncode != 0:
                            problem("file-does-not-compile-alone", opts + ["-r", kind], {"file": f, "error": p.stderr[-300:]})
        # (a) behaviour
        refsome = os.path.join(base, "refsome.wasm")
        os.makedirs(base, exist_ok=True)
        open(refsome, "wb").write(encode(reference_for(m, "some")))
        combos = [(0, 0, 0, 1), (1, 0, 0, 1), (0, 1, 1, 2), (1, 1, 2, 16), (0, 0, max(1, n - 1), 3)]
        if tier == "thorough":
            combos += [(P, M, F, T) for P in (0, 1) for M in (0, 1) for F in (1, n, n + 1) for T in (1, 3)]
        for (P, M, F, T) in combos:
            run_e2e(opts_of(P, M, F, T))
        run_e2e(opts_of(0, 0, 1, 3), refsome)
        run_e2e(opts_of(1, 1, 2, 2), refsome)
        shutil.rmtree(base, ignore_errors=True)
        shutil.rmtree(base + "_e2e", ignore_errors=True)
    except (e2e.E2EError, v8.V8Error) as ex:
        out["error"] = "%s: %s" % (type(ex).__name__, ex)
    return out


def m_collision_case(chk, env):
    """ONE targeted case of the recorded open finding: -m + an export literally named f<N>."""
    I = A.Instr
    m = A.Module()
    m.types = [A.FuncType([], [A.I32])]
    m.funcs = [A.Function(0, [], [I("i32.const", 7)])]
    m.exports = [A.Export(b"f0", "func", 0)]
    b = encode(m)
    calls = [(b"f0", [])]
    out = {}
    for tag, opts in (("plain", ()), ("-m", ("-m",))):
        rr = e2e.run_real(env.repo, env.work, env.w2c2, m, calls, {}, w2c2_opts=opts, name="coll", wasm_bytes=b)
        out[tag] = (rr.instantiate, rr.results)
    chk.count_case(("m-collision",), True, None)
    if out["plain"][1] == [("val", [("i32", 7)])] and out["-m"][0][0] == "build_error":
        chk.violation(KEY_M, "with -m the internal function f0 is emitted as coll_f0, the same identifier as the wrapper of the export named \"f0\": "
                      "the output does not compile (%s)" % out["-m"][0][1][:200], {"hex": b.hex(), "opts": ["-m"], "result": out}, True)
    elif out["-m"][1] != out["plain"][1]:
        chk.violation(KEY_M + "-behaviour", "-m changes the behaviour of a module exporting f0: %r" % (out,), {"hex": b.hex(), "opts": ["-m"], "result": out}, True)
    return out


def run(tier):
    chk = vlib.Check(PROP, tier)
    chk.coverage["trusted_base"] = list(vlib.GLOBAL_TRUSTED) + ["V8 (node 20) as behavioural reference; tools/harness/e2e.py embedder"]
    chk.assumptions = ["-g (#line mapping needs libdwarf, absent), -d gnu-ld/sectcreate (need the linker / macOS) and translator build "
                       "configurations without pthreads/getopt are not part of this run's matrix"]
    names = ["C09"] + (["C09Pool"] if c09pool is None else [])
    pr = ec.prove_if_present(chk, names)
    broken = list(pr["errors"])
    if c09pool is not None:
        if "theorems pending" in chk.notes:
            chk.notes.remove("theorems pending")
            chk.notes.append("Props/C09.lean (render_opts_same_ast, prefix_is_renaming) pending; Props/C09Pool.lean proved (below)")
        c09pool.run_pool(chk, tier, broken)
        if chk.coverage["obligations"] > 0:
            chk.level = "proof"
    n_mod = 16 if tier == "quick" else 120
    stats = {"errors": []}
    with vlib.scratch("c09-") as d:
        env = ec.Env(d)
        m_collision_case(chk, env)
        corpus = ec.corpus_specs(PROP)
        gen = []
        for prof, share in (("calls", 0.6), ("init", 0.2), ("control", 0.2)):
            k = max(1, int(n_mod * share))
            gen += ec.gen_specs(chk.seed, prof, k)
        specs = corpus + gen + [dict(s, dup=True) for s in gen[: max(2, len(gen) // 2)]]
        jobs = [dict(spec=s, env=env.tuple(), tier=tier) for s in specs]
        with multiprocessing.Pool(min(16, len(jobs)), initializer=ec._init_worker) as pool:
            results = pool.map(c09_job, jobs, chunksize=1)
        tot = {"runs": 0, "combos": 0, "files_compiled": 0, "e2e_runs": 0}
        hist = {}
        nfuncs = {}
        msamples = []
        for res in results:
            if res.get("error"):
                stats["errors"].append("%s: %s" % (res["id"], res["error"]))
                continue
            for k in tot:
                tot[k] += res[k]
            ec.merge_hist(hist, res["hist"])
            nfuncs[res["functions"]] = nfuncs.get(res["functions"], 0) + 1
            chk.count_case(("matrix", res["id"]), res["functions"] > 1, None)
            if len(msamples) < 6:
                msamples.append({"module": res["id"], "functions": res["functions"], "w2c2_runs": res["runs"], "option_combinations": res["combos"],
                                 "e2e_runs": res["e2e_runs"], "calls": res.get("ncalls")})
            for p in res["problems"][:3]:
                key = "%s:%s:%s" % (p["kind"], p["opts"].replace(" ", ""), res["id"])
                if p["kind"] in ("file-does-not-compile-alone", "e2e-build_error") and re.search(r"[‘'`]d\d+[’'`] undeclared|undeclared identifier 'd\d+'", str(p["detail"])):
                    key = KEY_DS       # one defect, many modules/options
                chk.violation(key,
                              "w2c2 %s on module %s: %s: %r" % (p["opts"], res["id"], p["kind"], p["detail"]),
                              {"module": res["id"], "spec": res["spec"], "opts": p["opts"], "problem": p,
                               "replay_cmd": "python3 tools/check.py C09 --replay <this file>"}, True)
        # (g) the model renders the same text under -p / -m
        nfun, bad = 0, []
        for multi, pretty in ((False, False), (False, True), (True, False), (True, True)):
            tok = ec.emit_tokens_batch(env, [dict(s, rename_exports=True) for s in gen], multi=multi, pretty=pretty, driver_ok=pr["driver_ok"])
            nfun += sum(t["functions"] for t in tok.values())
            bad += [(sid, multi, pretty, t["mismatch"][0]) for sid, t in tok.items() if t["mismatch"]]
        if bad:
            broken.append({"kind": "correspondence", "name": "emit-tokens", "msg": "%d module renderings differ, first %r" % (len(bad), bad[0])})
        cov = chk.coverage
        cov["programs"] = cov.get("programs", 0) + len([r for r in results if not r.get("error")])
        cov["disagreements_checked"] = cov.get("disagreements_checked", 0) + tot["combos"] + tot["e2e_runs"]
        rule = ("option matrix: a case = one module (wasmgen calls/init/control by seed:profile:index, exports renamed x_*, optionally with duplicated "
                "bodies) x {-p} x {-m} x {-f 0,1,2,n-1,n,n+1} x {-t 1,2,3,16} (+ -r with reference sharing all/some/none bodies): (b) each function "
                "defined exactly once, (c) text equal to the single-file single-thread text, (d) byte-identical across -t and repeated runs, (e) each "
                "file passes gcc -fsyntax-only alone, (f) static => identical body in the reference, (a) selected combinations compiled and run "
                "vs single-file output and V8; non-trivial = module has > 1 function")
        cov["rule"] = (cov.get("rule", "") + " | " if cov.get("rule") else "") + rule
        cov.update({"matrix_modules": len(specs), "matrix_w2c2_runs": tot["runs"], "matrix_option_combinations": tot["combos"],
                    "matrix_files_compiled_alone": tot["files_compiled"], "matrix_e2e_runs": tot["e2e_runs"], "matrix_histogram": hist,
                    "matrix_functions_per_module": {str(k): v for k, v in sorted(nfuncs.items())},
                    "emit_tokens_functions": nfun, "emit_tokens_mismatching": len(bad), "corpus_modules": len(corpus), "matrix_samples": msamples})
        cov["samples"] = msamples[:3] + cov["samples"][:9]
    if stats["errors"]:
        chk.notes.append({"tool_errors": stats["errors"][:10]})
        if len(stats["errors"]) > max(2, len(specs) // 10):
            raise RuntimeError("too many tool errors: %r" % stats["errors"][:5])
    if tier == "thorough" and pr.get("modules") and pr["build_ok"]:
        import common
        for mname, msg in common.leanchecker(chk, pr["modules"]):
            broken.append({"kind": "leanchecker", "msg": "%s: %s" % (mname, msg)})
    if broken and not chk.violations:
        chk.violation("tie-or-proof-broken", "a proof obligation or a correspondence (emit-tokens / partition / sched-trace) no longer checks; the option "
                      "matrix and the schedule search found no run on which the real w2c2 violates the property", {"broken": broken[:20]}, False)
    elif broken:
        chk.notes.append({"broken": broken[:10]})
    return chk.finish()


def replay(path):
    r = json.load(open(path))
    if "SCHED_SEED" in r or "module_keys" in r:
        return c09pool.replay(path)
    with vlib.scratch("c09r-") as d:
        env = ec.Env(d)
        if "hex" in r and "spec" not in r:
            class _C(object):
                def count_case(self, *a):
                    pass

                def violation(self, key, what, obj, found):
                    print("replay:", key, what)
                    self.bad = True
            c = _C()
            c.bad = False
            m_collision_case(c, env)
            return 1 if c.bad else 0
        res = c09_job(dict(spec=r["spec"], env=env.tuple(), tier=r.get("tier", "quick")))
    if res.get("error"):
        raise RuntimeError(res["error"])
    for p in res["problems"]:
        print("replay %s: w2c2 %s: %s %r" % (res["id"], p["opts"], p["kind"], p["detail"]))
    print("replay %s: %d problem(s) in %d option combinations (%d w2c2 runs, %d e2e runs)" % (res["id"], len(res["problems"]), res["combos"], res["runs"], res["e2e_runs"]))
    return 1 if res["problems"] else 0
