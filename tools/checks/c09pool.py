"""C09 (pool / partition / split part) — worker scheduling and file partitioning never change what is emitted.

Obligations: theorems of Props/C09Pool.lean (`partition_exact`, `partition_overflow_free`, `split_static_sound`,
`pool_exactly_once`, `pool_no_torn_task`, `pool_deadlock_free`, all for unbounded sizes / thread counts /
interleavings).
Tie (hand models ⇒ correspondence):
  partition/split : the file set and the function lists per file written by the REAL w2c2 for the option matrix
                    {-f 0,1,2,n-1,n,n+1} × {-t 1,2,3,16} × {-r none / sharing 0, some, all bodies} on modules with
                    duplicate bodies, vs `Model.Partition.plan` ∘ `Model.Split.split` (driver `plan`, `split`);
  sched-trace     : the REAL w2c2 binary under tools/sched (LD_PRELOAD, seeded schedules incl. spurious wake-ups):
                    the sequence of pthread operations of every thread vs `Model.Pool.step` replaying the same
                    schedule tokens (driver `psched`).
The property itself is evaluated on the real outputs: every function defined exactly once across files,
byte-identical files across thread counts / repeated runs / schedules, static ⇒ same body hash in the reference,
no deadlock.  `run_pool(chk, tier)` is what the lead's c09.py calls; `run(tier)` runs this part alone.
"""
import json
import os
import re

import vlib
import opmods
import pool_sched as ps
from common import prove, leanchecker

PROP = "C09pool"
MODULES = ["W2c2Verif.Props.C09Pool"]
CONCDRIVER = os.path.join(vlib.LEAN, ".lake", "build", "bin", "concdriver")


def driver_lines(lines):
    return vlib.DriverProc(CONCDRIVER).batch(lines)


# ----------------------------------------------------------------------------- expectations from the model

def model_plan(hashes, ref_hashes, f_opt):
    """→ (main_functions | None, {filename: [function indices]}) as the Lean model says."""
    n = len(hashes)
    if ref_hashes is None:
        sp = driver_lines([f"split {','.join(hashes) or '-'} -"])[0].split()
        static = [int(x) for x in sp[5].split(",")] if sp[5] != "-" else []     # `sorted` list: everything static
        dynamic = []
    else:
        sp = driver_lines([f"split {','.join(hashes) or '-'} {','.join(ref_hashes) or '-'}"])[0].split()
        static = [int(x) for x in sp[1].split(",")] if sp[1] != "-" else []
        dynamic = [int(x) for x in sp[3].split(",")] if sp[3] != "-" else []
    pl = driver_lines([f"plan {f_opt} {n} {len(static)} {len(dynamic)}"])[0].split()
    if pl[0] == "main":
        return static, {}
    files = {}
    for ent in pl[1:]:
        pfx, i, a, b = ent.split(":")
        src = static if pfx == "s" else dynamic
        files["%s%010d.c" % (pfx, int(i))] = src[int(a):int(b)]
    return None, files


def observed_plan(files):
    main = ps.functions_in(files.get("m.c", b""))
    impl = {f: ps.functions_in(t) for f, t in files.items() if re.fullmatch(r"[sd]\d{10}\.c", f)}
    return main, impl


def canon_equal_hash(lst, hashes):
    """functions with equal hashes are interchangeable (qsort is not stable by contract): compare hash sequences"""
    return [hashes[i] for i in lst]


# ----------------------------------------------------------------------------- module families

def module_family(rng, tier):
    fam = []
    shapes = [[(0, 0)], [(0, 0), (1, 0)], [(0, 0), (1, 0), (0, 0)], [(2, 0), (0, 0), (1, 0), (3, 1), (1, 0)],
              [(k % 5, k // 5) for k in range(8)]]
    if tier == "thorough":
        shapes += [[(rng.randrange(6), rng.randrange(2)) for _ in range(rng.randrange(2, 14))] for _ in range(6)]
    for keys in shapes:
        distinct = sorted(set(keys))
        refs = {"none": None,
                "share0": [(k + 50, v) for k, v in distinct[:2]] or [(99, 0)],
                "some": distinct[::2] + [(77, 1)],
                "all": list(keys) + [(88, 0)]}
        fam.append((keys, refs))
    return fam


# ----------------------------------------------------------------------------- the parts

def run_partition_split(chk, d, w2c2, tier, broken):
    hist = {"single_file": 0, "multi_file": 0, "with_dynamic": 0, "all_static": 0, "all_dynamic": 0,
            "dup_bodies": 0, "runs": 0}
    n_case = 0
    for mi, (keys, refs) in enumerate(module_family(chk.rng, tier)):
        n = len(keys)
        wasm = ps.make_module(keys)
        mdir = os.path.join(d, f"pm{mi}")
        os.makedirs(mdir)
        mpath = os.path.join(mdir, "m.wasm")
        open(mpath, "wb").write(wasm)
        hashes = ps.code_hashes(wasm)
        if len(set(hashes)) < len(hashes):
            hist["dup_bodies"] += 1
        for rname, rkeys in refs.items():
            rpath = None
            rh = None
            if rkeys is not None:
                rw = ps.make_module(rkeys)
                rpath = os.path.join(mdir, f"ref_{rname}.wasm")
                open(rpath, "wb").write(rw)
                rh = ps.code_hashes(rw)
            for f_opt in sorted(set([0, 1, 2, max(n - 1, 0), n, n + 1])):
                exp_main, exp_files = model_plan(hashes, rh, f_opt)
                base = None
                for t_opt in ([1, 2, 3, 16] if tier == "thorough" or f_opt in (1, 2) else [1, 3]):
                    opts = ["-t", str(t_opt), "-f", str(f_opt)] + (["-r", rpath] if rpath else [])
                    outs = []
                    for rep in range(2 if t_opt > 1 else 1):
                        od = os.path.join(mdir, f"o_{rname}_{f_opt}_{t_opt}_{rep}")
                        outs.append(ps.run_w2c2(w2c2, mpath, od, opts))
                    hist["runs"] += len(outs)
                    r = outs[0]
                    n_case += 1
                    key = (tuple(keys), rname, f_opt, t_opt)
                    sample = None
                    if n_case % 40 == 1:
                        sample = {"case": f"{n} functions, ref={rname}, -f {f_opt} -t {t_opt}",
                                  "real_files": sorted(r["files"]), "model_files": sorted(exp_files) or "main"}
                    chk.count_case(key, True, sample)
                    if r["rc"] == "timeout":
                        chk.violation("pool-deadlock", f"w2c2 {' '.join(opts)} on a {n}-function module never exits: {r['stderr']}",
                                      {"module_keys": keys, "ref": rname, "ref_keys": rkeys, "opts": opts}, True)
                        return n_case        # every further run would hang as well
                    if r["rc"] != 0:
                        broken.append({"kind": "w2c2-failed", "msg": f"{opts}: rc {r['rc']} {r['stderr'][-200:]}"})
                        continue
                    # property: byte-identical output for every thread count and repeated run
                    for o in outs[1:]:
                        if o["files"] != r["files"]:
                            chk.violation("pool-nondeterministic-output",
                                          f"two runs of w2c2 {' '.join(opts)} wrote different files",
                                          {"module_keys": keys, "ref": rname, "opts": opts}, True)
                    if base is None:
                        base = r["files"]
                    elif base != r["files"]:
                        chk.violation("pool-output-depends-on-thread-count",
                                      f"w2c2 -f {f_opt} writes different files for -t {t_opt} than for -t 1",
                                      {"module_keys": keys, "ref": rname, "opts": opts}, True)
                    main, impl = observed_plan(r["files"])
                    # property: every function defined exactly once
                    allf = sorted(main + [x for v in impl.values() for x in v])
                    if allf != list(range(n)):
                        chk.violation("function-not-emitted-exactly-once",
                                      f"w2c2 {' '.join(opts)} on a {n}-function module defines functions {allf}",
                                      {"module_keys": keys, "ref": rname, "ref_keys": rkeys, "opts": opts,
                                       "files": {k: v for k, v in impl.items()}, "main": main}, True)
                    # property: static only if the reference has the same body
                    if rh is not None:
                        for fn, lst in impl.items():
                            if fn.startswith("s"):
                                for fi in lst:
                                    if hashes[fi] not in rh:
                                        chk.violation("static-without-reference-body",
                                                      f"function {fi} is in static file {fn} but the reference module has no identical body",
                                                      {"module_keys": keys, "ref_keys": rkeys, "opts": opts}, True)
                    # tie: model plan
                    if exp_main is not None:
                        hist["single_file"] += 1
                        ok = canon_equal_hash(main, hashes) == canon_equal_hash(exp_main, hashes) and not impl
                    else:
                        hist["multi_file"] += 1
                        ok = not main and sorted(impl) == sorted(exp_files) and all(
                            canon_equal_hash(impl[f], hashes) == canon_equal_hash(exp_files[f], hashes) for f in impl)
                    if rh is not None:
                        nd = sum(len(v) for f, v in impl.items() if f.startswith("d"))
                        hist["with_dynamic" if 0 < nd < n else ("all_dynamic" if nd == n else "all_static")] += 1
                    if not ok:
                        broken.append({"kind": "correspondence",
                                       "msg": f"partition/split: {n} fns ref={rname} {opts}: real main={main} files={impl}; "
                                              f"model main={exp_main} files={exp_files}"})
    chk.coverage.update({"part_" + k: v for k, v in hist.items()})
    return n_case


def run_pool_sched(chk, d, w2c2, shim, tier, broken):
    hist = {"schedules": 0, "spurious_wakeups": 0, "cond_waits": 0, "tokens": 0, "max_threads": 0,
            "ops_compared": 0, "model_mismatch": 0}
    keys = [(k % 5, k // 5) for k in range(7)]
    wasm = ps.make_module(keys)
    mdir = os.path.join(d, "sched")
    os.makedirs(mdir)
    mpath = os.path.join(mdir, "m.wasm")
    open(mpath, "wb").write(wasm)
    n = len(keys)
    plans = [(t, f) for t in (1, 2, 3) for f in (1, 2, 3)] + [(16, 1), (4, 7)]
    seeds = range(1, 5) if tier == "quick" else range(1, 60)
    for t_opt, f_opt in plans:
        opts = ["-t", str(t_opt), "-f", str(f_opt)]
        ref = ps.run_w2c2(w2c2, mpath, os.path.join(mdir, f"ref_{t_opt}_{f_opt}"), opts)
        if ref["rc"] == "timeout":
            chk.violation("pool-deadlock", f"w2c2 {' '.join(opts)} never exits: {ref['stderr']}",
                          {"module_keys": keys, "opts": opts}, True)
            return
        k_files = len([f for f in ref["files"] if re.fullmatch(r"s\d{10}\.c", f)])
        for seed in seeds:
            sd = chk.rng.randrange(1, 1 << 30)
            spur = chk.rng.choice([0, 10, 40, 150])
            od = os.path.join(mdir, f"s_{t_opt}_{f_opt}_{seed}")
            r = ps.run_w2c2(w2c2, mpath, od, opts, shim=shim, seed=sd, spurious=spur)
            hist["schedules"] += 1
            hist["max_threads"] = max(hist["max_threads"], t_opt)
            key = (t_opt, f_opt, sd, spur)
            toks, ops = ps.normalise_ops(r["trace"])
            hist["tokens"] += len(toks)
            hist["spurious_wakeups"] += sum(1 for o in ops if o == "spurious-wake")
            hist["cond_waits"] += sum(1 for o in ops if o.startswith("cond_wait"))
            sample = None
            if seed == 1:
                sample = {"case": f"w2c2 {' '.join(opts)} seed {sd} spurious-weight {spur}", "verdict": r["verdict"],
                          "tokens": len(toks), "schedule_head": (r["schedule"] or "")[:80]}
            chk.count_case(key, True, sample)
            replay = {"module_keys": keys, "opts": opts, "SCHED_SEED": sd, "SCHED_SPURIOUS_WEIGHT": spur,
                      "schedule": r["schedule"], "replay_cmd": "python3 tools/check.py C09pool --replay <this file>"}
            if r["verdict"] != "ok" or r["rc"] != 0:
                chk.violation("pool-deadlock" if r["verdict"] == "deadlock" else "pool-run-failed",
                              f"w2c2 {' '.join(opts)} under schedule seed {sd}: verdict {r['verdict']}, exit {r['rc']}: {r['stderr'][-200:]}",
                              replay, True)
                continue
            if r["files"] != ref["files"]:
                main, impl = observed_plan(r["files"])
                chk.violation("pool-output-depends-on-schedule",
                              f"w2c2 {' '.join(opts)} under schedule seed {sd} wrote different files than the free run "
                              f"(functions per file: {impl})", replay, True)
                continue
            # tie: the model replays the executed schedule operation by operation
            if f_opt < n:          # multi-file mode: exactly one pool invocation (no reference module)
                m = driver_lines([f"psched {t_opt} {k_files} " + " ".join(toks)])[0]
                if m.startswith("ok ops "):
                    mops = m[len("ok ops "):].split(" ex ")[0].split()
                    pcs = m.split(" pcs ")[1].split()
                    ex = m.split(" ex ")[1].split(" pcs ")[0].split()
                    hist["ops_compared"] += len(ops)
                    if mops != ops or pcs[0] != "pend" or any(p != "wret" for p in pcs[1:]) \
                            or sorted(int(e.split(":")[1]) for e in ex) != list(range(k_files)):
                        hist["model_mismatch"] += 1
                        first = next((i for i, (a, b) in enumerate(zip(mops, ops)) if a != b), None)
                        broken.append({"kind": "correspondence",
                                       "msg": f"sched-trace {opts} seed {sd}: first difference at token {first}: "
                                              f"real {ops[first] if first is not None else '-'} model {mops[first] if first is not None else '-'}; model end {pcs} ex {ex}"})
                else:
                    hist["model_mismatch"] += 1
                    broken.append({"kind": "correspondence", "msg": f"sched-trace {opts} seed {sd}: model says `{m[:200]}`"})
    chk.coverage.update({"sched_" + k: v for k, v in hist.items()})


def compile_alone(chk, d, w2c2, broken):
    """every emitted file compiles on its own against the generated header"""
    keys = [(k % 4, k // 4) for k in range(6)]
    wasm = ps.make_module(keys)
    rw = ps.make_module(keys[::2])
    md = os.path.join(d, "cc")
    os.makedirs(md)
    open(os.path.join(md, "m.wasm"), "wb").write(wasm)
    open(os.path.join(md, "r.wasm"), "wb").write(rw)
    n_ok = 0
    for opts in (["-f", "2", "-t", "3"], ["-f", "1", "-t", "2", "-r", os.path.join(md, "r.wasm")], ["-f", "0"]):
        od = os.path.join(md, "o" + "_".join(o.replace("/", "") for o in opts)[-40:])
        r = ps.run_w2c2(w2c2, os.path.join(md, "m.wasm"), od, opts)
        for f in r["files"]:
            if f.endswith(".c"):
                p = vlib.run(["gcc", "-c", "-w", "-I", os.path.join(os.path.dirname(w2c2), "repo", "w2c2"), f, "-o", os.devnull],
                             cwd=od, timeout=120)
                chk.count_case(("compile-alone", tuple(opts), f), True, None)
                if p.returncode != 0:
                    chk.violation("emitted-file-does-not-compile-alone",
                                  f"{f} written by w2c2 {' '.join(opts)} does not compile on its own: {p.stderr[-300:]}",
                                  {"module_keys": keys, "opts": opts, "file": f}, True)
                else:
                    n_ok += 1
    chk.coverage["files_compiled_alone"] = n_ok


def run_pool(chk, tier, broken=None):
    """Proof obligations + ties of the pool/partition/split part, accounted on `chk`.  Returns the list of broken
    obligations / correspondences (dicts)."""
    broken = [] if broken is None else broken
    pr = prove(chk, MODULES, [])
    if not pr["build_ok"]:
        broken += pr["errors"]
    ok, out = vlib.lake_build(["concdriver"])
    if not ok:
        broken.append({"kind": "driver-build", "msg": out[-2000:]})
        return broken
    chk.coverage["trusted_base"] = list(chk.coverage.get("trusted_base", [])) + [
        "pthread mutex/condvar semantics as POSIX specifies (incl. spurious wake-ups), modelled in Model/ConcBase.lean",
        "Model.Pool / Model.Partition / Model.Split are hand models of c.c / main.c: tied by the sched-trace and "
        "file-set correspondences of this check (what they see is listed in the coverage histogram)",
        "tools/sched (LD_PRELOAD scheduler) serialises the real threads faithfully; SHA-1 of code entries computed by hashlib"]
    with vlib.scratch("c09pool-") as d:
        repo = vlib.copy_repo(os.path.join(d, "repo"))
        try:
            w2c2 = opmods.build_w2c2(repo, d)
            shim = ps.build_shim(d)
        except Exception as e:
            broken.append({"kind": "harness-build", "msg": str(e)[-1500:]})
            return broken
        n1 = run_partition_split(chk, d, w2c2, tier, broken)
        run_pool_sched(chk, d, w2c2, shim, tier, broken)
        compile_alone(chk, d, w2c2, broken)
    rule = ("partition/split: a case = (function bodies incl. duplicates, reference module sharing none/0/some/all bodies, "
            "-f in {0,1,2,n-1,n,n+1}, -t in {1,2,3,16}); compared: set of files and ordered function list per file, real "
            "w2c2 vs Model.Partition/Model.Split; on the real output: every function defined exactly once, byte-identical "
            "files across -t and repeated runs, static => same body hash in the reference.  sched-trace: a case = (-t, -f, "
            "scheduler seed, spurious-wake-up weight) on the real w2c2 under tools/sched; compared: verdict (no deadlock), "
            "files byte-identical to the free run, and the per-token pthread operation sequence vs Model.Pool replaying "
            "the executed schedule (model must end with every task executed once, all workers returned).")
    chk.coverage["rule"] = (chk.coverage.get("rule", "") + " | " if chk.coverage.get("rule") else "") + rule
    if tier == "thorough" and pr["build_ok"]:
        for m, msg in leanchecker(chk, MODULES):
            broken.append({"kind": "leanchecker", "msg": f"{m}: {msg}"})
    return broken


def run(tier):
    chk = vlib.Check(PROP, tier)
    chk.coverage["trusted_base"] = list(vlib.GLOBAL_TRUSTED)
    broken = run_pool(chk, tier)
    if broken and not chk.violations and not chk.known_hit:
        chk.violation("tie-or-proof-broken",
                      "a proof obligation or a correspondence of the pool/partition/split part no longer checks; the option "
                      "matrix and the schedule search found no run on which the real w2c2 violates the property",
                      {"broken": broken[:20]}, False)
    elif broken:
        chk.notes.append({"broken": broken[:10]})
    return chk.finish()


def replay(path):
    r = json.load(open(path))
    with vlib.scratch("c09pr-") as d:
        repo = vlib.copy_repo(os.path.join(d, "repo"))
        w2c2 = opmods.build_w2c2(repo, d)
        keys = [tuple(k) for k in r["module_keys"]]
        mpath = os.path.join(d, "m.wasm")
        open(mpath, "wb").write(ps.make_module(keys))
        opts = list(r["opts"])
        if "ref_keys" in r and r["ref_keys"] is not None and "-r" in opts:
            rpath = os.path.join(d, "ref.wasm")
            open(rpath, "wb").write(ps.make_module([tuple(k) for k in r["ref_keys"]]))
            opts[opts.index("-r") + 1] = rpath
        bad = False
        for rep in range(5):                      # free runs are timing dependent: repeat
            free = ps.run_w2c2(w2c2, mpath, os.path.join(d, f"free{rep}"), opts)
            if free["rc"] == "timeout":
                print(f"replay w2c2 {' '.join(opts)}: {free['stderr']}")
                return 1
            main, impl = observed_plan(free["files"])
            allf = sorted(main + [x for v in impl.values() for x in v])
            bad = bad or allf != list(range(len(keys)))
        print(f"replay w2c2 {' '.join(opts)}: functions defined {allf} (expected 0..{len(keys) - 1})")
        if "SCHED_SEED" in r:
            shim = ps.build_shim(d)
            s = ps.run_w2c2(w2c2, mpath, os.path.join(d, "sched"), opts, shim=shim, seed=r["SCHED_SEED"],
                            spurious=r.get("SCHED_SPURIOUS_WEIGHT", 20))
            print(f"under schedule seed {r['SCHED_SEED']}: verdict {s['verdict']}, files identical: {s['files'] == free['files']}")
            bad = bad or s["verdict"] != "ok" or s["files"] != free["files"]
    return 1 if bad else 0
