"""C12 — WASI file I/O equals POSIX.

Obligations: theorems of Props/C12.lean over Model.Wasi instantiated with Spec.Posix
(iovec marshalling, positional I/O by seek juggling, both whence tables, path_open flag
mapping, filestat layouts, errno table — tables and C parameter types regenerated into
Gen/Wasi.lean from the source on every run).
Tie: regeneration + `wasi-ops` three-way: the REAL wasi.c (ASan/UBSan build of the scratch copy),
a POSIX twin (raw open/read/write/pread/pwrite/lseek/fstat on its own directory, results laid
out as the WASI spec says) and the Lean model execute the same generated histories.
  real ≠ model            -> the tie is broken (model or extractor out of date)
  model ≠ twin, real=twin -> the POSIX model is wrong (SPEC-MISMATCH, tool failure, exit 2)
  real = model ≠ twin     -> the code deviates from POSIX: violation, shrunk history = replay
"""
import json
import os

import vlib
import wasi_ops as wo
from common import prove, leanchecker
from vlib import log

PROP = "C12"
MODULES = ["W2c2Verif.Props.C12"]
GENS = [("Wasi", "gen_wasi")]
WASIDRIVER = os.path.join(vlib.LEAN, ".lake", "build", "bin", "wasidriver")
ABIS = ["p1", "un"]
MAXBYTES = None          # s_maxbytes of the scratch file system, probed at run time
RIGHTS = [wo.RIGHTS_RW, wo.R_READ, wo.R_WRITE, 0, 1 << 14, (1 << 0)]
NAMES = ["f0", "a", "b", "d0", "d0/g", "d0/new", "nope/x", "f0/x"] + wo.ABS_SAFE


# WASI errno numbers (witx `errno`), keyed by the POSIX name — independent of wasi.h and of the twin's C table
WITX = {"E2BIG": 1, "EACCES": 2, "EADDRINUSE": 3, "EADDRNOTAVAIL": 4, "EAFNOSUPPORT": 5, "EAGAIN": 6, "EALREADY": 7,
        "EBADF": 8, "EBADMSG": 9, "EBUSY": 10, "ECANCELED": 11, "ECHILD": 12, "ECONNABORTED": 13, "ECONNREFUSED": 14,
        "ECONNRESET": 15, "EDEADLK": 16, "EDESTADDRREQ": 17, "EDOM": 18, "EDQUOT": 19, "EEXIST": 20, "EFAULT": 21,
        "EFBIG": 22, "EHOSTUNREACH": 23, "EIDRM": 24, "EILSEQ": 25, "EINPROGRESS": 26, "EINTR": 27, "EINVAL": 28,
        "EIO": 29, "EISCONN": 30, "EISDIR": 31, "ELOOP": 32, "EMFILE": 33, "EMLINK": 34, "EMSGSIZE": 35,
        "EMULTIHOP": 36, "ENAMETOOLONG": 37, "ENETDOWN": 38, "ENETRESET": 39, "ENETUNREACH": 40, "ENFILE": 41,
        "ENOBUFS": 42, "ENODEV": 43, "ENOENT": 44, "ENOEXEC": 45, "ENOLCK": 46, "ENOLINK": 47, "ENOMEM": 48,
        "ENOMSG": 49, "ENOPROTOOPT": 50, "ENOSPC": 51, "ENOSYS": 52, "ENOTCONN": 53, "ENOTDIR": 54, "ENOTEMPTY": 55,
        "ENOTRECOVERABLE": 56, "ENOTSOCK": 57, "ENOTSUP": 58, "ENOTTY": 59, "ENXIO": 60, "EOVERFLOW": 61,
        "EOWNERDEAD": 62, "EPERM": 63, "EPIPE": 64, "EPROTO": 65, "EPROTONOSUPPORT": 66, "EPROTOTYPE": 67,
        "ERANGE": 68, "EROFS": 69, "ESPIPE": 70, "ESRCH": 71, "ESTALE": 72, "ETIMEDOUT": 73, "ETXTBSY": 74, "EXDEV": 75}


def posix_errno_of(twin_line):
    """(POSIX errno name, witx number) behind a twin error line (` !errno:<host errno>` token), or None"""
    import errno as _errno
    for t in wo.table_tokens(twin_line):
        if t.startswith("errno:"):
            name = _errno.errorcode.get(int(t.split(":")[1]))
            if name == "EWOULDBLOCK":
                name = "EAGAIN"
            return name, WITX.get(name)
    return None


def new_hist():
    h = wo.Hist()
    wo.std_setup(h)
    return h


FD_NONBLOCK = 4


def nonseekable(rng):
    """histories on descriptors lseek/pread/pwrite refuse: stdio bound to pipes, a FIFO opened through path_open"""
    out = []
    offs = [0, 3, (1 << 32) + 5, (1 << 62)]
    for abi in ABIS:
        for target in ("stdin", "stdout", "stderr", "fifo-r", "fifo-w", "fifo-rw"):
            def start():
                h = new_hist(); h.raw("pipestdio"); h.raw("mkfifo sb/p0")
                if target.startswith("fifo"):
                    rights = {"fifo-r": wo.R_READ, "fifo-w": wo.R_WRITE, "fifo-rw": wo.RIGHTS_RW}[target]
                    h.open(abi, 3, "p0", 0, rights, FD_NONBLOCK)
                    return h, 4
                return h, {"stdin": 0, "stdout": 1, "stderr": 2}[target]
            h, n = start()
            for wh in range(4):
                for off in (0, 5, (1 << 64) - 1):
                    h.call(abi, "fd_seek", n, off, wh, h.res())
            h.call(abi, "fd_tell", n, h.res())
            out.append(("nonseekable", h))
            h, n = start()
            for off in offs:
                p, c = h.iov([4]); h.call(abi, "fd_pread", n, p, c, off, h.res())
                p, c = h.iov([b"xy"]); h.call(abi, "fd_pwrite", n, p, c, off, h.res())
                p, c = h.iov([0]); h.call(abi, "fd_pread", n, p, c, off, h.res())
            h.call(abi, "fd_tell", n, h.res())
            out.append(("nonseekable", h))
            h, n = start()
            p, c = h.iov([b"abc", b"", b"de"]); h.call(abi, "fd_write", n, p, c, h.res())
            p, c = h.iov([2, 0, 9]); h.call(abi, "fd_read", n, p, c, h.res())
            p, c = h.iov([3]); h.call(abi, "fd_read", n, p, c, h.res())
            p, c = h.iov([3]); h.call(abi, "fd_read", n, p, c, h.res())
            h.call(abi, "fd_filestat_get", n, stat_buf(h))
            h.call(abi, "fd_fdstat_get", n, h.res(24))
            h.call(abi, "fd_seek", n, 0, 1, h.res())
            h.call(abi, "fd_close", n)
            h.call(abi, "fd_seek", n, 0, 0, h.res())
            out.append(("nonseekable", h))
    return out


def offsets(rng, maxbytes):
    base = [0, 1, 2, 5, 25, 26, 27, 100, 4095, 4096, (1 << 31) - 1, 1 << 31, (1 << 32) - 1, 1 << 32, (1 << 32) + 5,
            (1 << 33) + 7, 1 << 40]
    big = [maxbytes - 1, maxbytes, maxbytes + 1, 1 << 62, (1 << 63) - 1, 1 << 63, (1 << 64) - 1, (1 << 64) - 5]
    return base, big


def rand_segments_data(rng):
    n = rng.choice([0, 1, 1, 2, 3, 4, 5])
    segs = []
    for _ in range(n):
        l = rng.choice([0, 0, 1, 2, 3, 5, 8, 17])
        segs.append(bytes(rng.randrange(1, 256) for _ in range(l)))
    return segs


def rand_segments_len(rng):
    n = rng.choice([0, 1, 1, 2, 3, 4, 5])
    return [rng.choice([0, 0, 1, 2, 3, 5, 8, 40]) for _ in range(n)]


def stat_buf(h):
    """a 72-byte buffer pre-filled with 0xAA so that every byte the call writes shows in the diff"""
    p = h.alloc(80)
    h.poke(p, b"\xaa" * 80)
    return p


def add_op(h, rng, abi, fds, maxbytes, heavy_offsets=True):
    base, big = offsets(rng, maxbytes)
    off_pool = base * 3 + (big if heavy_offsets else [])
    r = rng.random()
    fd = rng.choice(fds)
    if r < 0.18:
        ofl = rng.randrange(16)
        if rng.random() < 0.5:
            ofl &= ~wo.O_DIRECTORY
        h.open(abi, 3 if rng.random() < 0.9 else fd, rng.choice(NAMES), ofl, rng.choice(RIGHTS), wo.FD_APPEND if rng.random() < 0.3 else 0)
        return "path_open"
    if r < 0.34:
        p, c = h.iov(rand_segments_data(rng)); h.call(abi, "fd_write", fd, p, c, h.res()); return "fd_write"
    if r < 0.46:
        p, c = h.iov(rand_segments_data(rng)); h.call(abi, "fd_pwrite", fd, p, c, rng.choice(off_pool), h.res()); return "fd_pwrite"
    if r < 0.58:
        p, c = h.iov(rand_segments_len(rng)); h.call(abi, "fd_read", fd, p, c, h.res()); return "fd_read"
    if r < 0.68:
        p, c = h.iov(rand_segments_len(rng)); h.call(abi, "fd_pread", fd, p, c, rng.choice(off_pool), h.res()); return "fd_pread"
    if r < 0.80:
        off = rng.choice(base + [(1 << 64) - 1, (1 << 64) - 3, (1 << 64) - 26, (1 << 64) - 27, (1 << 64) - 100] + (big if heavy_offsets else []))
        h.call(abi, "fd_seek", fd, off, rng.randrange(0, 4), h.res()); return "fd_seek"
    if r < 0.86:
        h.call(abi, "fd_tell", fd, h.res()); return "fd_tell"
    if r < 0.92:
        h.call(abi, "fd_filestat_get", fd, stat_buf(h)); return "fd_filestat_get"
    if r < 0.95:
        a, l = h.path(rng.choice(["f0", "a", "b", "d0/g"]))
        if rng.random() < 0.5:
            h.call(abi, "path_unlink_file", 3, a, l); return "path_unlink_file"
        q, m = h.path(rng.choice(["f0", "a", "b", "moved"]))
        h.call(abi, "path_rename", 3, a, l, 3, q, m); return "path_rename"
    h.call(abi, "fd_close", fd); return "fd_close"


def random_history(rng, maxbytes):
    h = new_hist()
    abi = rng.choice(ABIS)
    fds = [0, 1, 2, 4, 4, 5, 5, 6]
    pipes = rng.random() < 0.25
    if pipes:      # non-seekable descriptors in the mix: stdio on pipes, a FIFO (always opened non-blocking)
        h.raw("pipestdio"); h.raw("mkfifo sb/p0")
        h.open(abi, 3, "p0", 0, rng.choice([wo.RIGHTS_RW, wo.R_READ, wo.R_WRITE]), FD_NONBLOCK)
    # start with one or two opens so that most operations hit a file
    for _ in range(rng.choice([1, 2, 2])):
        h.open(abi, 3, rng.choice(["f0", "a", "b", "d0/g"]), rng.choice([0, wo.O_CREAT, wo.O_CREAT | wo.O_TRUNC, wo.O_TRUNC]),
               rng.choice([wo.RIGHTS_RW, wo.RIGHTS_RW, wo.R_READ, wo.R_WRITE]), wo.FD_APPEND if rng.random() < 0.25 else 0)
    for _ in range(rng.randint(3, 26)):
        add_op(h, rng, abi if rng.random() < 0.9 else rng.choice(ABIS), fds, maxbytes, heavy_offsets=not pipes)
    for n in ("f0", "a", "b", "d0/g", "d0/new", "moved"):
        h.raw("cat sb/" + n)
    h.raw("ls sb")
    h.raw("ls sb/d0")
    return h


def systematic(rng, maxbytes):
    out = []
    for abi in ABIS:
        # all 16 oflag combinations × append × access modes × existing file / missing / directory
        for ofl in range(16):
            for app in (0, wo.FD_APPEND):
                for name in ("f0", "new", "d0"):
                    for rights in (wo.RIGHTS_RW, wo.R_READ, wo.R_WRITE):
                        h = new_hist()
                        h.open(abi, 3, name, ofl, rights, app)
                        p, c = h.iov([b"XYZ"]); h.call(abi, "fd_write", 4, p, c, h.res())
                        h.call(abi, "fd_tell", 4, h.res())
                        h.call(abi, "fd_filestat_get", 4, stat_buf(h))
                        h.raw("cat sb/" + name); h.raw("ls sb")
                        out.append(("open-flags", h))
        # every whence value 0–3 with offsets around the boundaries, on a 26-byte file at position 5
        base, big = offsets(rng, maxbytes)
        for wh in range(4):
            for off in [0, 1, 21, 22, 100, (1 << 64) - 1, (1 << 64) - 5, (1 << 64) - 6, (1 << 64) - 26, (1 << 64) - 27, (1 << 64) - 31,
                        (1 << 64) - 32, 1 << 32, (1 << 32) + 5, 1 << 40, maxbytes - 5, maxbytes - 4, maxbytes, 1 << 62, (1 << 63) - 1, 1 << 63]:
                h = new_hist(); h.open(abi, 3, "f0")
                p, c = h.iov([5]); h.call(abi, "fd_read", 4, p, c, h.res())
                h.call(abi, "fd_seek", 4, off, wh, h.res()); h.call(abi, "fd_tell", 4, h.res())
                p, c = h.iov([3]); h.call(abi, "fd_read", 4, p, c, h.res())
                out.append(("seek", h))
        # positional I/O: every offset class; the file position must not move
        for off in base + big:
            for app in (0, wo.FD_APPEND):
                h = new_hist(); h.open(abi, 3, "f0", 0, wo.RIGHTS_RW, app)
                p, c = h.iov([2]); h.call(abi, "fd_read", 4, p, c, h.res())
                p, c = h.iov([b"hel", b"", b"lo"]); h.call(abi, "fd_pwrite", 4, p, c, off, h.res())
                h.call(abi, "fd_tell", 4, h.res())
                p, c = h.iov([3, 0, 4]); h.call(abi, "fd_pread", 4, p, c, off, h.res())
                h.call(abi, "fd_tell", 4, h.res())
                h.call(abi, "fd_filestat_get", 4, stat_buf(h))
                h.raw("cat sb/f0")
                out.append(("positional", h))
        # iovec shapes 0–5 segments incl. zero-length ones, gather and scatter
        shapes = [[], [0], [3], [0, 0], [2, 0, 3], [0, 5, 0], [1, 2, 3, 4], [1, 0, 2, 0, 3], [26], [30], [10, 10, 10]]
        for sh in shapes:
            h = new_hist(); h.open(abi, 3, "a", wo.O_CREAT)
            data = [bytes((65 + i + k) % 256 for k in range(l)) for i, l in enumerate(sh)]
            p, c = h.iov(data); h.call(abi, "fd_write", 4, p, c, h.res())
            h.raw("cat sb/a")
            h.open(abi, 3, "f0")
            p, c = h.iov(sh); h.call(abi, "fd_read", 5, p, c, h.res())
            h.call(abi, "fd_tell", 5, h.res())
            out.append(("iovec", h))
        # filestat of a file, of a directory, of the pre-open, of stdio
        for n in (0, 1, 3, 4, 5):
            h = new_hist(); h.open(abi, 3, "f0"); h.open(abi, 3, "d0", wo.O_DIRECTORY, wo.R_READ)
            h.call(abi, "fd_filestat_get", n, stat_buf(h))
            out.append(("filestat", h))
        # errno table: a 256-character name, wrong access mode, directory I/O
        h = new_hist(); h.open(abi, 3, "x" * 256, wo.O_CREAT)
        out.append(("errno", h))
        h = new_hist(); h.open(abi, 3, "f0", 0, wo.R_READ)
        p, c = h.iov([b"zz"]); h.call(abi, "fd_write", 4, p, c, h.res())
        h.open(abi, 3, "f0", 0, wo.R_WRITE)
        p, c = h.iov([4]); h.call(abi, "fd_read", 5, p, c, h.res())
        h.open(abi, 3, "d0", wo.O_DIRECTORY, wo.R_READ)
        p, c = h.iov([4]); h.call(abi, "fd_read", 6, p, c, h.res())
        p, c = h.iov([0]); h.call(abi, "fd_read", 6, p, c, h.res())
        out.append(("errno", h))
        # more than IOV_MAX segments
        h = new_hist(); h.open(abi, 3, "a", wo.O_CREAT)
        p, c = h.iov([b"q"] * 1025); h.call(abi, "fd_write", 4, p, c, h.res())
        p, c = h.iov([b"q"] * 1024); h.call(abi, "fd_write", 4, p, c, h.res())
        h.raw("cat sb/a")
        out.append(("iov-max", h))
    return out


def open_file_identity(rng):
    """an OPEN descriptor keeps denoting its file when the name is unlinked, renamed away, or bound to another file:
    fd_filestat_get (both ABIs), fd_read / fd_write / fd_seek on it afterwards"""
    out = []
    for abi in ABIS:
        for what in ("unlink", "rename-away", "rename-over", "rename-over-then-open", "unlink-then-create"):
            for rights in (wo.RIGHTS_RW, wo.R_READ):
                h = new_hist()
                h.raw("mkfile sb/other " + b"OTHER-FILE-CONTENT".hex())
                h.open(abi, 3, "f0", 0, rights)                               # descriptor 4 = f0 (26 bytes)
                p, c = h.iov([5]); h.call(abi, "fd_read", 4, p, c, h.res())
                a, l = h.path("f0")
                if what == "unlink":
                    h.call(abi, "path_unlink_file", 3, a, l)
                elif what == "rename-away":
                    q, m = h.path("moved"); h.call(abi, "path_rename", 3, a, l, 3, q, m)
                elif what in ("rename-over", "rename-over-then-open"):
                    q, m = h.path("other"); h.call(abi, "path_rename", 3, q, m, 3, a, l)   # `other` now carries the name f0
                else:
                    h.call(abi, "path_unlink_file", 3, a, l)
                    h.open(abi, 3, "f0", wo.O_CREAT)                           # a NEW file under the old name (descriptor 5)
                    p, c = h.iov([b"new"]); h.call(abi, "fd_write", 5, p, c, h.res())
                if what == "rename-over-then-open":
                    h.open(abi, 3, "f0")                                       # descriptor 5 = the other file
                    h.call(abi, "fd_filestat_get", 5, stat_buf(h))
                for ab2 in ABIS:
                    h.call(ab2, "fd_filestat_get", 4, stat_buf(h))
                p, c = h.iov([4]); h.call(abi, "fd_read", 4, p, c, h.res())
                h.call(abi, "fd_tell", 4, h.res())
                h.call(abi, "fd_seek", 4, 0, 2 if abi == "p1" else 1, h.res())   # to the end: the size of the open file
                if rights == wo.RIGHTS_RW:
                    p, c = h.iov([b"tail"]); h.call(abi, "fd_write", 4, p, c, h.res())
                    h.call(abi, "fd_filestat_get", 4, stat_buf(h))
                h.call(abi, "fd_close", 4)
                for n in ("f0", "moved", "other"):
                    h.raw("cat sb/" + n)
                h.raw("ls sb")
                out.append(("open-file-identity", h))
    return out


def corpus():
    d = os.path.join(vlib.TOOLS, "corpus", PROP)
    out = []
    if os.path.isdir(d):
        for fn in sorted(os.listdir(d)):
            if fn.endswith(".json"):
                r = json.load(open(os.path.join(d, fn)))
                h = wo.Hist(); h.lines = list(r["history"]); h.meta = [meta_of(l) for l in h.lines]
                out.append(("corpus:" + r.get("name", fn), h))
    return out


def meta_of(line):
    p = line.split()
    if p and p[0] in ("p1", "un"):
        args = [int(x) for x in p[2:]]
        return {"call": p[1], "abi": p[0], "fds": [args[i] for i in wo.FD_ARGS.get(p[1], [])], "args": args}
    return None


# ----------------------------------------------------------------------------- comparison

def first_diff(h, a, b, skip_unmodelled=True):
    """index and description of the first differing answer line, or None"""
    al, aend = a
    bl, bend = b
    for i in range(min(len(al), len(bl))):
        x, y = wo.canon_line(al[i]), wo.canon_line(bl[i])
        if skip_unmodelled and (y in ("r unmodelled", "r skip") or x in ("r unmodelled", "r skip")):
            if wo.diverges(h.meta[i] if i < len(h.meta) else None, x if y in ("r unmodelled", "r skip") else y):
                return None      # one side skipped a call that changed the other's state: stop comparing this history
            continue
        if x != y:
            return i, x, bl[i]        # (the twin line keeps its ` !errno:<n>` token for the classification)
    if len(al) != len(bl) or aend.split()[:2] != bend.split()[:2]:
        return min(len(al), len(bl)), f"<{len(al)} lines, {aend}>", f"<{len(bl)} lines, {bend}>"
    return None


def classify(h, i, real_line, twin_line):
    """stable key for a real-vs-POSIX deviation at line i"""
    m = h.meta[i] if i < len(h.meta) else None
    call = m["call"] if m else (h.lines[i].split()[0] if i < len(h.lines) else "end")
    abi = m["abi"] if m else "-"
    rp, tp = real_line.split(), [t for t in twin_line.split() if not t.startswith("!")]
    def _hex(parts):
        return "".join(x.split(":")[1] for x in parts[2:] if ":" in x)
    if call == "fd_filestat_get" and abi == "un" and len(rp) > 1 and len(tp) > 1 and rp[1] == tp[1] == "0" \
            and _hex(rp).startswith(_hex(tp)) and set(_hex(rp)[len(_hex(tp)):]) == {"0"}:
        return "unstable-filestat-overwrites-8-bytes", "wasi_unstable fd_filestat_get zeroes 64 bytes although the unstable filestat has 56: 8 guest bytes past the struct are overwritten"
    if call in ("fd_pread", "fd_pwrite") and m and MAXBYTES is not None and MAXBYTES < m["args"][3] < (1 << 63):
        return ("positional-offset-beyond-s_maxbytes",
                f"{call} at an offset beyond the file system's largest file offset: the lseek of the emulation fails with EINVAL (wasi.c `{real_line[:20]}`), "
                f"pread/pwrite give `{twin_line[:20]}` (0 bytes / EFBIG / EBADF)")
    if call == "fd_seek" and m and m["args"][2] > 2 and rp[:2] == ["r", "28"] and tp[:2] == ["r", "8"]:
        return "ebadf-precedence-fd_seek-bad-whence", "fd_seek with an invalid whence on an invalid descriptor returns EINVAL; lseek(2) reports EBADF"
    pe = posix_errno_of(twin_line)
    if pe and len(rp) > 1 and rp[0] == "r" and rp[1].isdigit() and pe[1] is not None and int(rp[1]) != pe[1] \
            and len(tp) > 1 and tp[1] == str(pe[1]) and rp[1] != "0":
        return (f"errno-translation:{pe[0]}-reported-as-{rp[1]}",
                f"{call}: the POSIX operation fails with {pe[0]} (WASI errno {pe[1]}), wasi.c returns {rp[1]}")
    if len(rp) > 1 and len(tp) > 1 and rp[0] == tp[0] == "r" and rp[1] != tp[1]:
        if rp[1] == "28" and tp[1] in ("37", "55", "32", "61"):
            return "errno-table-missing-rows", f"{call}: POSIX errno maps to WASI {tp[1]}, wasiErrno() has no row for it and returns INVAL (28)"
        if call in ("fd_pread", "fd_pwrite"):
            return f"positional-errno:{call}:{rp[1]}-vs-{tp[1]}", f"{call} returns {rp[1]}, the POSIX call gives {tp[1]}"
        return f"errno:{call}:{rp[1]}-vs-{tp[1]}", f"{call} returns {rp[1]}, the POSIX call gives {tp[1]}"
    if call in ("fd_pread", "fd_pwrite"):
        return f"positional-data:{call}", f"{call}: data / count stored in guest memory differ from the POSIX call"
    if call == "cat":
        prev = [mm["call"] for mm in h.meta[:i] if mm]
        if "fd_pwrite" in prev:
            return "positional-offset-file-contents", "file contents after fd_pwrite differ from pwrite(2) at the full 64-bit offset"
        return "file-contents", "resulting file contents differ from the POSIX twin's"
    return f"result:{call}", f"{call}: result differs from the POSIX call"


def ops_only(h):
    return [l for l, m in zip(h.lines, h.meta) if m is not None]


def shrink(exe, d, h, key, maxbytes, budget=80):
    """delta debugging: drop lines while real and twin still differ with the same key"""
    cur = h
    for _ in range(budget):
        cands = []
        for i in range(len(cur.lines)):
            c = wo.Hist(); c.lines = cur.lines[:i] + cur.lines[i + 1:]; c.meta = cur.meta[:i] + cur.meta[i + 1:]
            cands.append(c)
        if not cands:
            break
        rr = wo.run_histories(exe, "real", [c.lines for c in cands], d)
        tt = wo.run_histories(exe, "twin", [c.lines for c in cands], d)
        nxt = None
        for c, r, t in zip(cands, rr, tt):
            df = first_diff(c, r, t)
            if df and classify(c, df[0], df[1], df[2])[0] == key and len(c.lines) < len(cur.lines):
                nxt = c
                break
        if nxt is None:
            break
        cur = nxt
    return cur


def run(tier):
    chk = vlib.Check(PROP, tier)
    chk.coverage["trusted_base"] = list(vlib.GLOBAL_TRUSTED) + [
        "Spec.Posix (files, open file descriptions, Linux choices marked (LINUX)) — validated on every run against the kernel by the POSIX twin",
        "the POSIX twin's reading of the WASI specification (witx layouts, errno numbers, whence orders, rights→access-mode convention of wasi-libc)",
        "tools/extract/gen_wasi.py (regex extractor); mis-extraction shows as model/real disagreement",
        "host parameters: PATH_MAX 4096, IOV_MAX 1024, NAME_MAX 255, s_maxbytes of the scratch file system (probed)"]
    chk.assumptions = ["the kernel implements POSIX file semantics (exercised by the twin)",
                       "rights are not enforced by w2c2 (not part of the property); the pre-opened directory has no native descriptor (fd = -1): I/O calls on it return EBADF by design",
                       "guest pointers lie inside guest memory"]
    pr = prove(chk, MODULES, GENS)
    broken = [e for e in pr["errors"] if e["kind"] != "driver-build"]
    ok, out = vlib.lake_build(["wasidriver"])
    if not ok:
        broken.append({"kind": "wasidriver-build", "msg": out[-2000:]})
    spec_mismatch = []
    with vlib.scratch("c12-") as d:
        repo = vlib.copy_repo(os.path.join(d, "repo"))
        exe = wo.build(repo, d)
        maxbytes = wo.probe_maxbytes(d)
        global MAXBYTES
        MAXBYTES = maxbytes
        tagged = corpus() + systematic(chk.rng, maxbytes) + nonseekable(chk.rng) + open_file_identity(chk.rng)
        n_rand = 600 if tier == "quick" else 12000
        for _ in range(n_rand):
            tagged.append(("random", random_history(chk.rng, maxbytes)))
        chk.coverage["regression_corpus"] = len([t for t, _ in tagged if t.startswith("corpus:")])
        hs = [h for _, h in tagged]
        lines = [h.lines for h in hs]
        real = wo.run_histories(exe, "real", lines, d, tablecheck=True)
        twin = wo.run_histories(exe, "twin", lines, d)
        model = wo.run_model(WASIDRIVER, lines, maxbytes) if ok else None
        chk.coverage["rule"] = ("a case is one history (setup, ≤ 30 calls of path_open/fd_write/fd_pwrite/fd_read/fd_pread/fd_seek/fd_tell/fd_filestat_get/fd_close, "
                                "final file contents and directory listings) run three ways: real wasi.c (ASan), POSIX twin, Lean model; non-trivial = distinct "
                                "(call sequence, real answers); systematic part: 16 oflag combinations × append × access modes × {file, missing, directory}; whence 0–3 × "
                                "boundary offsets × both ABIs; positional offsets incl. ≥ 2^32, s_maxbytes±1, 2^63, 2^64−1; iovec shapes 0–5 segments incl. zero length, 1024/1025 segments")
        op_hist, errno_hist, tag_hist, shape_hist = {}, {}, {}, {}
        seen = {}
        n_tie = n_dev = 0
        for idx, ((tag, h), r, t) in enumerate(zip(tagged, real, twin)):
            tag_hist[tag.split(":")[0]] = tag_hist.get(tag.split(":")[0], 0) + 1
            for i, m in enumerate(h.meta):
                if m and i < len(r[0]):
                    op_hist[m["call"]] = op_hist.get(m["call"], 0) + 1
                    p = r[0][i].split()
                    if len(p) > 1:
                        errno_hist[p[1]] = errno_hist.get(p[1], 0) + 1
                    if m["call"] in ("fd_write", "fd_pwrite", "fd_read", "fd_pread"):
                        shape_hist[str(m["args"][2])] = shape_hist.get(str(m["args"][2]), 0) + 1
            sig = (tuple(m["call"] for m in h.meta if m), tuple(r[0]))
            sample = None
            if idx % max(1, len(hs) // 10) == 0:
                sample = {"history": ops_only(h)[:8], "real": r[0][-4:], "twin": t[0][-4:], "model": model[idx][0][-4:] if model else None}
            chk.count_case(sig, True, sample)
            for li, l in enumerate(r[0]):
                for tok in wo.table_tokens(l):
                    seen.setdefault("table-invariant:" + tok.split(":")[0],
                                    (h, f"descriptor-table invariant broken on the real code after `{h.lines[li]}` ({tok}): see Props/C13 native_fds_open_distinct"))
            if r[1].startswith("E died"):
                key = "sanitizer:" + r[1].split()[2]
                seen.setdefault(key, (h, f"the real code aborts in the sanitizer: {r[1]}"))
            if model:
                dm = first_diff(h, r, model[idx])
                if dm:
                    n_tie += 1
                    if n_tie <= 5:
                        broken.append({"kind": "correspondence", "msg": f"wasi-ops history {idx} ({tag}) line {dm[0]} `{h.lines[dm[0]] if dm[0] < len(h.lines) else 'end'}`: real `{dm[1]}` model `{dm[2]}`",
                                       "history": h.lines})
            for tl in t[0]:
                pe = posix_errno_of(tl)
                if pe and pe[1] is not None and tl.split()[1] != str(pe[1]):
                    raise RuntimeError(f"POSIX twin translates {pe[0]} to {tl.split()[1]}, the witx number is {pe[1]}")
            dt = first_diff(h, r, t)
            if dt:
                # is it the code or our POSIX model?  (model agrees with the twin => the code deviates)
                key, what = classify(h, dt[0], dt[1], dt[2])
                n_dev += 1
                seen.setdefault(key, (h, what))
            elif model:
                dmt = first_diff(h, t, model[idx])
                if dmt and not first_diff(h, r, model[idx]):
                    pass
                elif dmt:
                    spec_mismatch.append(f"history {idx} line {dmt[0]}: twin `{dmt[1]}` model `{dmt[2]}`")
        for key, (h, what) in sorted(seen.items()):
            small = shrink(exe, d, h, key, maxbytes) if not key.startswith(("sanitizer", "table-invariant")) else h
            chk.violation(key, what, {"history": small.lines, "calls": ops_only(small), "mode": "real-vs-twin",
                                      "replay_cmd": "python3 tools/check.py C12 --replay <this file>"}, True)
        chk.coverage["op_histogram"] = op_hist
        chk.coverage["errno_histogram"] = errno_hist
        chk.coverage["iovec_count_histogram"] = shape_hist
        chk.coverage["generator_histogram"] = tag_hist
        chk.coverage["s_maxbytes"] = maxbytes
        chk.coverage["traces_validated_against_impl"] = len(hs) if model else 0
        chk.coverage["model_real_disagreements"] = n_tie
        chk.coverage["real_twin_deviating_histories"] = n_dev
    if tier == "thorough" and pr["build_ok"]:
        for m, msg in leanchecker(chk, MODULES):
            broken.append({"kind": "leanchecker", "msg": f"{m}: {msg}"})
    if broken and not chk.violations:
        chk.violation("tie-or-proof-broken",
                      "a proof obligation of Props/C12.lean or the wasi-ops correspondence (model vs real wasi.c) no longer checks",
                      {"broken": broken[:20]}, False)
    elif broken:
        chk.notes.append({"broken": broken[:10]})
    return chk.finish()


def replay(path):
    r = json.load(open(path))
    if "history" not in r:
        print("replay file names a broken obligation/correspondence:", json.dumps(r.get("broken"), indent=1)[:3000])
        return 1
    h = wo.Hist(); h.lines = list(r["history"]); h.meta = [meta_of(l) for l in h.lines]
    with vlib.scratch("c12r-") as d:
        repo = vlib.copy_repo(os.path.join(d, "repo"))
        exe = wo.build(repo, d)
        global MAXBYTES
        MAXBYTES = wo.probe_maxbytes(d)
        real = wo.run_histories(exe, "real", [h.lines], d)[0]
        twin = wo.run_histories(exe, "twin", [h.lines], d)[0]
    for i, l in enumerate(h.lines):
        a = real[0][i] if i < len(real[0]) else "<died>"
        b = twin[0][i] if i < len(twin[0]) else "<died>"
        mark = "" if wo.canon_line(a) == wo.canon_line(b) or b == "r skip" else "   <-- differs"
        print(f"  {l[:100]}\n      wasi.c: {a[:160]}\n      POSIX : {b[:160]}{mark}")
    print(real[1], "/", twin[1])
    df = first_diff(h, real, twin)
    if df:
        print("VIOLATES:", classify(h, df[0], df[1], df[2]))
    return 1 if df or real[1].startswith("E died") else 0
