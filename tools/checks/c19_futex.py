"""C19, futex runtime: futex/futex.c must read the guest cell of memory.atomic.wait32/64 through the endian-aware accessors.

  * proof side: tools/extract/gen_futex_loads.py -> Gen/FutexLoads.lean (every access of guest memory of the CURRENT futex.c, the load
    accessors of the current w2c2_base.h with their widths), Props/C19Futex.lean (finite tables, `decide`) — registered in
    memcheck.CFG["C19"]["modules"] / gens, built and audited by common.prove with the rest of C19;
  * real side (this file): tools/harness/futex_endian.{c,py} — the real futex.c/list.c/map.c + header built little-endian and with
    -DWASM_ENDIAN=WASM_BIG_ENDIAN forced; cells written through the build's own store accessors; single-threaded wait32/wait64 with
    timeout 0 on equal / unequal / byte-reversed expected values (non-palindromic bytes), and one waiter + notify in real time.  Both
    builds must return the codes of the specification (equal -> 2 timed-out, unequal -> 1; notify 1, waiter 0).  A difference is a
    failing input: the operation, the cell value and the expected value.
"""
import os
import sys
import time

import vlib

sys.path.insert(0, os.path.join(vlib.TOOLS, "harness"))

RULE = ("futex-endian: memory.atomic.wait32/wait64 (timeout 0) on cells written through the build's own store accessors, expected value "
        "equal / low bit flipped / byte-reversed / top bit flipped, plus waiter+notify pairs; real futex runtime little-endian vs forced "
        "big-endian; case = (op, cell, expected); compared: return codes of both builds and the specification's")


def _describe(c):
    op = ("memory.atomic.wait%d" % (64 if c["w64"] else 32)) if c["kind"] == "w" else ("wait%d + notify" % (64 if c["w64"] else 32))
    return "%s at %d, cell 0x%x, expected 0x%x" % (op, c["addr"], c["cell"], c["expect"])


def run(chk, repo, d, tier, broken):
    import futex_endian as fe
    t0 = time.time()
    try:
        exes = {"le": fe.build(repo, d, False), "be": fe.build(repo, d, True)}
    except Exception as e:
        broken.append({"kind": "harness-build", "msg": "futex-endian: " + str(e)[-1200:]})
        return
    cs = fe.cases(chk.rng, 20 if tier == "quick" else 1500, 4 if tier == "quick" else 16)
    try:
        res = {b: fe.run(exes[b], cs) for b in exes}
    except Exception as e:
        broken.append({"kind": "harness-run", "msg": "futex-endian: " + str(e)[-800:]})
        return
    n_bad, n_dist = 0, 0
    for i, c in enumerate(cs):
        le = res["le"][i] if i < len(res["le"]) else None
        be = res["be"][i] if i < len(res["be"]) else None
        width = 8 if c["w64"] else 4
        dist = fe.bswap(c["cell"], width) != c["cell"]          # a byte reversal of the cell's width changes the value
        n_dist += 1 if dist else 0
        chk.count_case(("futex-endian", c["kind"], c["w64"], c["cell"], c["expect"]), dist,
                       {"case": _describe(c), "le": le, "be": be, "spec": c["spec"]} if i % 60 == 0 else None)
        if le != c["spec"] or be != c["spec"]:
            n_bad += 1
            which = "forced big-endian" if le == c["spec"] else "little-endian" if be == c["spec"] else "both"
            chk.violation("futex-wait-endian:%s:%s" % ("wait64" if c["w64"] else "wait32", c["kind"]),
                          "%s: the %s build returns %s (little-endian %s, forced big-endian %s), the specification requires %s — the "
                          "futex runtime does not read the cell as the little-endian value the store accessors wrote"
                          % (_describe(c), which, be if which != "little-endian" else le, le, be, c["spec"]),
                          {"futex_endian": {"case": c}, "observed": {"le": le, "be": be}, "required": c["spec"],
                           "replay_cmd": "python3 tools/check.py C19 --replay <this file>"}, True)
    chk.coverage["futex_endian"] = {"rule": RULE, "cases": len(cs), "value_changes_under_byte_reversal": n_dist, "wrong": n_bad,
                                    "seconds": round(time.time() - t0, 1)}
    if n_dist == 0:
        broken.append({"kind": "correspondence", "msg": "futex-endian: no case with a non-palindromic cell was generated"})


def replay(obj):
    import futex_endian as fe
    c = obj["futex_endian"]["case"]
    with vlib.scratch("c19f-") as d:
        repo = vlib.copy_repo(os.path.join(d, "repo"))
        le = fe.run(fe.build(repo, d, False), [c])[0]
        be = fe.run(fe.build(repo, d, True), [c])[0]
    print("replay futex-endian %s: little-endian %s, forced big-endian %s, required %s" % (_describe(c), le, be, c["spec"]))
    return 0 if le == c["spec"] and be == c["spec"] else 1
