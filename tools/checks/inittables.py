"""inittables — correspondence `inittables-text` of C04: for each module and each output option set (plain, -p, -m, -p -m) the body of
`<module>InitTables` written by the REAL w2c2 is compared, chunk by chunk (white space removed), with `Model.InitTables.render`
(Lean driver `I inittables`), i.e. with the interpretation of the regenerated emitter loops (`Gen.InitTables`, both branches of every
`if (pretty)`) that Props/C04Tables.lean proves to denote `table[offset + position] = listed function`.  The C names (table fields,
imported globals, functions incl. the -m prefix) are taken from the generated header by position.
"""
import multiprocessing
import os
import re
import shutil
import subprocess
import sys

sys.path[:0] = [os.path.join(os.path.dirname(os.path.abspath(__file__)), ".."), os.path.join(os.path.dirname(os.path.abspath(__file__)), "..", "harness")]
import vlib
import e2e
import e2e_common as ec

OPTION_SETS = ((), ("-p",), ("-m",), ("-p", "-m"))


def _ce(e):
    return "g:%d" % e.imm[0] if e.op == "global.get" else "c:%x" % (e.imm[0] & 0xFFFFFFFF)


def request(m, pretty):
    def lst(xs, sep=","):
        return sep.join(xs) or "-"
    return " ".join(["I", "inittables", "pretty=%d" % int(pretty), "ti=%d" % sum(1 for i in m.imports if i.kind == "table"),
                     "tables=" + lst("%d:%d" % (t.limits.min, t.limits.max if t.limits.max is not None else 4294967295) for t in m.tables),
                     "elems=" + lst(("0:%s:%s" % (_ce(sg.offset), ",".join(str(f) for f in sg.funcs) or "-") for sg in m.elems), ";")])


def nows(s):
    return re.sub(r"\s+", "", s)


def real_text(w2c2, d, name, wasm, opts):
    if os.path.isdir(d):
        shutil.rmtree(d)
    os.makedirs(d)
    wp = os.path.join(d, name + ".wasm")
    with open(wp, "wb") as f:
        f.write(wasm)
    p = subprocess.run([w2c2] + list(opts) + [wp, os.path.join(d, name + ".c")], stdout=subprocess.PIPE, stderr=subprocess.PIPE, cwd=d, timeout=120)
    if p.returncode != 0:
        return "w2c2 rc=%r %s" % (p.returncode, p.stderr.decode("utf-8", "replace")[-200:])
    text = open(os.path.join(d, name + ".c")).read()
    fm = re.search(r"static void %sInitTables\(%sInstance\* i\) \{\n(.*?)\}\n\n" % (name, name), text, re.S)
    return {"body": fm.group(1) if fm else None, "header": open(os.path.join(d, name + ".h")).read()}


def _worker(job):
    spec, w2c2, work = job
    m, wasm, imp, exports = ec.load_module(spec)
    d = os.path.join(work, "it_%d" % os.getpid())
    out = [(opts, real_text(w2c2, d, "m", wasm, opts)) for opts in OPTION_SETS]
    shutil.rmtree(d, ignore_errors=True)
    return out


def expected_regex(tokens, m, hdr):
    n_ti = len(hdr.table_imports)
    n_fi = len(hdr.func_imports)
    tnames = [f[1] for f in hdr.table_imports] + [f[1] for f in hdr.tables]
    gnames = [f[1] for f in hdr.global_imports]
    fnames = list(hdr.func_imports) + list(hdr.funcs)
    out, consts = [], []
    for t in tokens:
        if re.fullmatch(r"R\d+", t):
            out.append(re.escape("&i->" + tnames[int(t[1:])]))
        elif re.fullmatch(r"T\d+", t):
            k = int(t[1:])
            out.append(re.escape("(*i->%s)" % tnames[k] if k < n_ti else "i->" + tnames[k]))
        elif re.fullmatch(r"F\d+", t):
            out.append(re.escape("&" + fnames[int(t[1:])]))
        elif t.startswith("Ec:"):
            out.append(r"(-?\d+)U")
            consts.append(int(t[3:], 16))
        elif t.startswith("Eg:"):
            out.append(re.escape("(*i->" + gnames[int(t[3:])] + ")"))
        else:
            out.append(re.escape(t))
    return "".join(out), consts


def text_tie(env, specs, driver_ok=True, procs=None):
    """→ {'cases', 'modules', 'stores', 'disagreements': [{module, spec, opts, what, model, real}]}; a case = (module, option set)"""
    out = {"cases": 0, "modules": 0, "stores": 0, "segments": 0, "no_inittables": 0, "header_not_parsed": 0, "disagreements": []}
    specs = [s for s in specs if not (("hex" in s) and ec.option_variant(s, ("-m",)) is None)]
    if not specs:
        return out
    specs = [s if "hex" in s else dict(s, rename_exports=True) for s in specs]          # -m: neutral export names (recorded C09 finding)
    jobs = [(s, env.w2c2, env.work) for s in specs]
    procs = procs or min(16, os.cpu_count() or 4, len(jobs))
    if procs > 1:
        with multiprocessing.Pool(procs) as pool:
            reals = pool.map(_worker, jobs, chunksize=4)
    else:
        reals = [_worker(j) for j in jobs]
    lines, plan = [], []
    for spec, real in zip(specs, reals):
        m, wasm, imp, exports = ec.load_module(spec)
        out["modules"] += 1
        out["segments"] += len(m.elems)
        for opts, r in real:
            plan.append((spec, m, opts, r, len(lines)))
            lines.append(request(m, "-p" in opts))
    if not (driver_ok and env.driver):
        out["disagreements"].append({"what": "Lean driver unavailable"})
        return out
    ans = vlib.DriverProc(env.driver).batch(lines, timeout=3600)
    for spec, m, opts, r, li in plan:
        sid = ec.spec_id(spec)
        out["cases"] += 1

        def bad(what, model, real):
            out["disagreements"].append({"module": sid, "spec": spec, "opts": list(opts), "what": what, "model": model, "real": real, "request": lines[li][:300]})
        if not isinstance(r, dict):
            bad("the real w2c2 failed", None, r)
            continue
        a = ans[li]
        if not a.startswith("text"):
            bad("driver answer", a[:200], None)
            continue
        toks = a[4:].split()
        if "?" in toks:
            bad("Model.InitTables.render printed an item that does not exist in its loop", a[:300], None)
            continue
        if r["body"] is None:
            out["no_inittables"] += 1
            if toks or m.tables or m.elems:
                bad("the real output has no InitTables function", " ".join(toks)[:300], None)
            continue
        try:
            hdr = e2e.parse_header(r["header"], m, "m")
        except e2e.E2EError:
            out["header_not_parsed"] += 1           # e.g. two imports mangled to one C name (recorded finding)
            continue
        rx, consts = expected_regex(toks, m, hdr)
        fm = re.fullmatch(rx, nows(r["body"]))
        if not fm:
            bad("InitTables text", " ".join(toks)[:600], nows(r["body"])[:600])
            continue
        got = [int(g) & 0xFFFFFFFF for g in fm.groups()]
        if got != consts:
            bad("offset constants in InitTables", consts, got)
            continue
        out["stores"] += sum(len(sg.funcs) for sg in m.elems)
    return out
