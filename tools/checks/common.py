"""Pieces shared by several property checks."""
import os
import json
import vlib
from vlib import log


def prove(chk, prop_modules, gens):
    """Regenerate Gen files, build theorem modules + driver, audit.  Returns dict:
       gen_ok, build_ok, driver_ok, errors[], audit{}"""
    res = {"gen_ok": True, "build_ok": True, "driver_ok": True, "errors": [], "audit": None, "gen": {}}
    g = vlib.regenerate(gens)
    res["gen"] = g
    for name, r in g.items():
        if not r["ok"]:
            res["gen_ok"] = False
            res["errors"].append({"kind": "extract-fail", "gen": name, "msg": r["error"]})
    if res["gen_ok"]:
        ok, out = vlib.lake_build(["driver"])
        res["driver_ok"] = ok
        if not ok:
            res["errors"].append({"kind": "driver-build", "msg": out[-3000:], "decls": vlib.failed_decls(out)})
        ok, out = vlib.lake_build(prop_modules)
        res["build_ok"] = ok
        if not ok:
            res["errors"].append({"kind": "proof-build", "msg": out[-4000:], "decls": vlib.failed_decls(out)})
        else:
            aud = vlib.audit(prop_modules)
            res["audit"] = aud
            chk.add_proof_result(aud, "cd lean && lake build " + " ".join(prop_modules) + " && lake env lean <Audit: #print axioms of every theorem>")
            if aud["problems"]:
                res["build_ok"] = False
                res["errors"].append({"kind": "audit", "msg": "; ".join(aud["problems"])[:3000]})
    else:
        res["build_ok"] = False
        res["driver_ok"] = False
    if not res["build_ok"] and res["audit"] is None:
        # obligations exist but were not discharged
        n = 0
        for m in prop_modules:
            try:
                n += len(vlib.theorem_names(m))
            except Exception:
                pass
        chk.coverage["obligations"] += n
        chk.coverage["checker_cmd"] = "cd lean && lake build " + " ".join(prop_modules)
    return res


def leanchecker(chk, prop_modules):
    """Thorough tier: independent re-check of the compiled property modules."""
    bad = []
    for m in prop_modules:
        p = vlib.run(["lake", "env", "leanchecker", m], cwd=vlib.LEAN, timeout=3600)
        if p.returncode != 0:
            bad.append((m, (p.stdout + p.stderr)[-500:]))
    chk.notes.append(f"leanchecker re-checked {len(prop_modules) - len(bad)}/{len(prop_modules)} modules")
    return bad
