"""C03 — structured control flow, operand stack and locals (shared implementation with C04, see CFG).

Obligations: theorems of Props/C03.lean when present (compile_sim (control, locals), decls_cover_uses …).
Tie: `emit-tokens` — for every function of generated control-flow-heavy modules (wasmgen profile `control`: nesting
<= 12, value-carrying br/br_if/br_table, dead code with nested blocks/else, locals of all four types; + `int`) the
text written by the REAL w2c2 equals token for token the text rendered by the Lean model of the translator
(Model.Emit / Model.Render), in plain, -p, -m and -p -m mode.
Search (DESIGN §4.7): `e2e` — real w2c2 -> gcc -> run vs V8 on boundary-heavy argument vectors (results, trap
classes, host-call trace, memory hash, globals).  Every module whose tokens differ is executed e2e first: a
behavioural difference is a violation with the input; a token difference without one is ONE violation
`no-failing-input-found` naming the emit-tokens correspondence.
"""
import json

import vlib
import e2e_common as ec

CFG = {
    "C03": {"props": ["C03", "C03Num"], "profiles": [("control", 0.8), ("int", 0.2)],
            "quick": (2000, 480), "thorough": (20000, 3000), "per_func": 3, "sim": {"quick": 240, "thorough": 1600},
            "opt": {"quick": 8, "thorough": 120}, "what": "control flow / operand stack / locals"},
    "C04": {"props": ["C04", "C04Mangle", "C04Ident", "C04Members", "C04Tables", "C04Child", "C03Num"],
            "gens": [("InitTables", "gen_inittables"), ("Instantiate", "gen_instantiate"), ("Members", "gen_members")],
            "tables_text": {"quick": 150, "thorough": 3000}, "family": {"quick": 40, "thorough": 800}, "profiles": [("calls", 0.85), ("init", 0.15)],
            "quick": (1500, 400), "thorough": (12000, 3000), "per_func": 4, "sim": {"quick": 300, "thorough": 1600},
            "opt": {"quick": 28, "thorough": 400}, "what": "direct / indirect / recursive / imported calls"},
}
TOKEN_MODES = ((False, False), (False, True), (True, False), (True, True))       # (-m, -p)


def make_jobs(env, specs, per_func):
    return [dict(spec=s, env=env.tuple(), builds=[("gcc", ("-O1",), False)], per_func=per_func, keep_mem=True, memdiag=True)
            for s in specs]


def defines_table_with_elems(spec):
    try:
        m = ec.load_module(spec)[0]
        return bool(m.tables and m.elems)
    except Exception:
        return False


def has_elems(spec):
    try:
        return bool(ec.load_module(spec)[0].elems)
    except Exception:
        return False


KEY_UNDERSCORE = "import-mangling-underscore-at-module-field-boundary"       # recorded in known_findings.txt (open)
MAX_REPORTED = 8          # modules reported per run (each with its replay); further differing modules are only counted


def ref_escape(name):
    """the documented identifier mangling of c.c (reference implementation: alphanumerics except the escape character 'X' stay, a
    second consecutive '_' is written "__", every other byte X%02X) — what Props/C04Mangle.lean proves injective on single names"""
    out = []
    prev = None
    for c in bytes(name):
        if c == 0x5F:
            out.append("__" if prev == 0x5F else "_")
        elif c != 0x58 and (0x30 <= c <= 0x39 or 0x41 <= c <= 0x5A or 0x61 <= c <= 0x7A):
            out.append(chr(c))
        else:
            out.append("X%02X" % c)
        prev = c
    return "".join(out)


def ref_escape_module(name):
    """the module part of an import's identifier (since /repo ed458af): a leading digit is written as X%02X, the rest is escaped as a
    name of its own"""
    b = bytes(name)
    if b and 0x30 <= b[0] <= 0x39:
        return "X%02X" % b[0] + ref_escape(b[1:])
    return ref_escape(b)


def underscore_boundary_collision(spec):
    """DISTINCT (module, field) import names of one C name space (functions; struct fields = memories, tables, globals) that the
    documented scheme `escModule(module) ++ "__" ++ esc(field)` maps to the same identifier: possible only when underscores touch the
    module/field boundary (Props/C04Mangle.mangle_injective covers every other pair).  This is the recorded finding KEY_UNDERSCORE;
    a collision that the reference scheme does not produce (e.g. a change of the escaping rule) is never attributed to it."""
    try:
        m = ec.load_module(spec)[0]
    except Exception:
        return None
    seen = {}
    for im in m.imports:
        space = "func" if im.kind == "func" else "field"
        pair = (bytes(im.module), bytes(im.field))
        key = (space, ref_escape_module(im.module) + "__" + ref_escape(im.field))
        if key in seen and seen[key] != pair:
            return [list(map(repr, seen[key])), list(map(repr, pair)), key[1]]
        seen.setdefault(key, pair)
    return None


def judge(chk, prop, res, stats):
    sid = res["id"]
    if res.get("error"):
        stats["errors"].append("%s: %s" % (sid, res["error"]))
        return False
    found = False
    coll = None
    if any(b["diffs"] or b.get("init_diffs") or b["real"]["instantiate"][0] == "build_error" for b in res["builds"]):
        coll = underscore_boundary_collision(res["spec"])
    if coll:
        chk.violation(KEY_UNDERSCORE, "two distinct imports %s and %s are mangled to the same C identifier %s (underscores at the module/field "
                      "boundary): the generated C cannot tell them apart (wrong callee / duplicate struct member)" % tuple(coll),
                      ec.replay_obj(res, {"collision": coll, "first_build": [res["builds"][0]["real"]["instantiate"], res["builds"][0]["diffs"][:2]]}), True)
        stats["underscore_boundary_modules"] = stats.get("underscore_boundary_modules", 0) + 1
        return True
    if any(ec.nan_leak_filter(res["spec"], res.get("calls_made") or [], list(b["diffs"]))[0] or b.get("init_diffs") for b in res["builds"]) or \
            (res.get("family") or {}).get("diffs"):
        if stats.setdefault("reported_modules", 0) >= MAX_REPORTED:
            stats["not_reported_same_run"] = stats.get("not_reported_same_run", 0) + 1      # one cause usually hits many modules
            return True
        stats["reported_modules"] += 1
    for b in res["builds"]:
        ri = b["real"]["instantiate"]
        stats["calls_compared"] += b["info"]["compared_calls"]
        stats["host_calls"] += len(b["real"]["host_log"])
        if ri[0] == "w2c2_error":
            chk.violation("w2c2-rejects-valid-module:" + sid, "the real w2c2 fails on a valid module: %s" % (ri[1],), ec.replay_obj(res), True)
            return True
        if ri[0] == "build_error":
            cls = b.get("build_error_class")
            key = cls if cls == "stack-slot-used-but-never-declared" else "%s:%s" % (cls, sid)
            chk.violation(key, "the C emitted by the real w2c2 for a valid module does not compile (%s): %s" % (cls, ri[1][:300]),
                          ec.replay_obj(res, {"build": b["real"]["build"][-1:], "error": ri[1]}), True)
            return True
        fam = res.get("family") if b is res["builds"][0] else None
        if fam and not fam.get("skipped"):
            stats["family_runs"] = stats.get("family_runs", 0) + 1
            stats["family_calls"] = stats.get("family_calls", 0) + fam["compared_calls"]
            stats["calls_compared"] += fam["compared_calls"]
            for d in fam["diffs"][:2]:
                found = True
                chk.violation("%s:%s" % (d["kind"], sid),
                              "instances derived through <module>NewChild (history %s: A = Instantiate, B = A.newChild after A's first calls, C = Instantiate, "
                              "D = C.newChild): instance %s disagrees with the specification in %s: real %r, expected %r"
                              % (fam["order"][:40], d.get("role"), d["kind"], d.get("real"), d.get("v8", d.get("spec"))),
                              ec.replay_obj(res, {"disagreement": d, "family": {k: fam[k] for k in ("order", "reference", "child_created_at")}}), True)
        diffs, nan_dropped = ec.nan_leak_filter(res["spec"], res.get("calls_made") or [], list(b["diffs"]))
        if nan_dropped:
            stats["nan_sign_leaks_tolerated"] = stats.get("nan_sign_leaks_tolerated", 0) + nan_dropped
        diffs = diffs + list(b.get("init_diffs", []))
        for d in diffs[:2]:
            found = True
            call = None
            if d.get("call") is not None and res.get("calls_made"):
                call = res["calls_made"][d["call"]]
            chk.violation("e2e-%s:%s" % (d["kind"], sid),
                          "compiled output of the real w2c2 disagrees with the specification (V8) in %s%s: real %r, specified %r"
                          % (d["kind"], "" if d.get("call") is None else " of call #%d" % d["call"], d.get("real"), d.get("v8", d.get("spec"))),
                          ec.replay_obj(res, {"disagreement": d, "call": call, "build": b["real"]["build"][-1:], "memdiag": b.get("memdiag")}), True)
    return found


def run(tier, PROP="C03"):
    cfg = CFG[PROP]
    chk = vlib.Check(PROP, tier)
    chk.coverage["trusted_base"] = list(vlib.GLOBAL_TRUSTED) + [
        "V8 (node 20) as the reference semantics on the e2e side; tools/harness/e2e.py embedder; wasmgen generator (valid by construction, V8-validated)",
        "Model.Emit/Model.Render are hand models of c.c: tied on every run by emit-tokens (coverage below)"]
    chk.assumptions = ["gcc gives goto/labels/switch and calls through cast function pointers of the same signature the structured meaning MiniC assigns (exercised by every e2e run)",
                       "out-of-bounds memory/table accesses and call_indirect signature mismatches are outside the property (w2c2 emits no checks): scripts stop before the first such call"]
    pr = ec.prove_if_present(chk, cfg["props"], ec.GENS + [("LoadStore", "gen_loadstore")] + cfg.get("gens", []))
    broken = list(pr["errors"])
    n_tok, n_e2e = cfg[tier]
    stats = {"errors": [], "calls_compared": 0, "host_calls": 0}
    with vlib.scratch(PROP.lower() + "-") as d:
        env = ec.Env(d)
        corpus = ec.corpus_specs(PROP)
        gen = []
        for prof, share in cfg["profiles"]:
            gen.append(ec.gen_specs(chk.seed, prof, max(1, int(n_tok * share))))
        tok_specs = corpus + [s for g in gen for s in g]
        # ---- emit-tokens, four renderings
        tok_bad = {}          # id -> first mismatch
        nfun = 0
        nskip = 0
        by_id = {ec.spec_id(s): s for s in tok_specs}
        for multi, pretty in TOKEN_MODES:
            sub = tok_specs if not (multi or pretty) else tok_specs[: max(40, len(tok_specs) // 4)]
            if multi:
                sub = [dict(s, rename_exports=True) if "hex" not in s else s for s in sub]
            tok = ec.emit_tokens_batch(env, sub, multi=multi, pretty=pretty, driver_ok=pr["driver_ok"])
            for sid, t in tok.items():
                nfun += t["functions"]
                if t["skipped"]:
                    nskip += 1
                chk.count_case(("tok", sid, multi, pretty), t["functions"] > 0, None)
                if t["mismatch"] and sid not in tok_bad:
                    tok_bad[sid] = dict(t["mismatch"][0], multi=multi, pretty=pretty, n=len(t["mismatch"]))
        # ---- e2e: corpus, modules with token differences first, then the generated ones
        share_e2e = [max(1, int(n_e2e * share)) for _, share in cfg["profiles"]]
        e2e_specs = corpus + [by_id[s] for s in tok_bad if s in by_id and by_id[s] not in corpus]
        for g, n in zip(gen, share_e2e):
            e2e_specs += [s for s in g[:n] if ec.spec_id(s) not in tok_bad]
        # ---- the same pipeline with the output options -p / -m / -p -m (module-level text: InitTables, prototypes, exports array):
        #      corpus + generated modules (those with element segments first); table dump, results, host trace vs V8 as above
        pool = corpus + sorted((s for g, n in zip(gen, share_e2e) for s in g[:min(n, 4 * cfg["opt"][tier])]), key=lambda s: not has_elems(s))
        opt_specs = ec.option_variants(pool, cfg["opt"][tier])
        jobs = make_jobs(env, e2e_specs + opt_specs, cfg["per_func"])
        # ---- NewChild families (calls on parent A, child B = A.newChild, independent C, child D = C.newChild, interleaved; call_indirect
        #      through the table each instance defines; vs V8): corpus + generated modules, those defining a table with element segments first
        if cfg.get("family"):
            n_f = cfg["family"][tier]
            cand = [s for g, n in zip(gen, share_e2e) for s in g[:min(n, 3 * n_f)] if ec.spec_id(s) not in tok_bad]
            fam_ids = set(ec.spec_id(s) for s in corpus + sorted(cand, key=lambda s: not defines_table_with_elems(s))[:n_f])
            for j in jobs[:len(e2e_specs)]:
                if ec.spec_id(j["spec"]) in fam_ids:
                    j["family"] = True
        results = ec.run_jobs(jobs)
        ops, traps, trunc = {}, {}, 0
        behav = set()
        for res in results:
            if judge(chk, PROP, res, stats):
                behav.add(res["id"])
            if res.get("error"):
                continue
            ec.merge_hist(ops, res.get("ops", {}))
            for r in (res.get("v8") or {}).get("results", []):
                k = r[0] if r[0] != "trap" else "trap:" + r[1]
                traps[k] = traps.get(k, 0) + 1
            trunc += res.get("truncated_at") is not None
            chk.count_case(("e2e", res["id"]), res.get("ncalls", 0) > 0,
                           ec.sample_of(res) if len(chk.coverage["samples"]) < 8 and res.get("ncalls", 0) > 2 else None)
        # ---- inittables-text: the body of <module>InitTables of the real w2c2 (plain, -p, -m, -p -m) = Model.InitTables.render over the
        #      regenerated emitter loops; modules whose text differs are run e2e under the same options (failing-input search)
        tt = None
        if cfg.get("tables_text"):
            import inittables
            tt = inittables.text_tie(env, corpus + [s for g in gen for s in g[:cfg["tables_text"][tier]]], driver_ok=pr["driver_ok"])
            chk.coverage["evaluations"] += tt["cases"]
            if tt["disagreements"]:
                d0 = dict(tt["disagreements"][0])
                d0.pop("spec", None)
                cand, seen = [], set()
                for x in tt["disagreements"]:
                    if x.get("spec") is not None and (x["module"], tuple(x["opts"])) not in seen and len(cand) < 8:
                        seen.add((x["module"], tuple(x["opts"])))
                        base = {k: v for k, v in x["spec"].items() if k != "rename_exports"}
                        v = ec.option_variant(base, tuple(x["opts"])) if x["opts"] else base
                        if v is not None:
                            cand.append(v)
                explained = False
                for res in ec.run_jobs(make_jobs(env, cand, cfg["per_func"])):
                    if judge(chk, PROP, res, stats):
                        behav.add(res["id"])
                        explained = True
                if not explained:
                    broken.append({"kind": "correspondence", "name": "inittables-text",
                                   "msg": "%d case(s): the InitTables text of the real w2c2 differs from Model.InitTables.render; first %r" % (len(tt["disagreements"]), d0)})
                else:
                    chk.notes.append({"inittables-text": "%d case(s) differ; explained by the e2e runs under the same options; first %r" % (len(tt["disagreements"]), d0)})
        # ---- sim-semantics: Model/Sim.lean's SOURCE semantics over the instance state (control flow, locals, globals, loads/stores,
        #      memory.size/grow, stateful calls) — what compile_sim/module_sim relate the emitted C to — vs V8 vs the real compiled
        #      output, call by call on ONE threaded instance state, and tgt = src; final globals/pages/memory vs the real instance
        n_sim = cfg["sim"][tier]
        sim_specs = []
        for (prof, share), g in zip(cfg["profiles"], gen):
            sim_specs += g[: max(1, int(n_sim * share))]
            if prof == "calls":      # most exported functions of this profile reach an import: also their import-free core variants
                sim_specs += [dict(s, core_variant=True) for s in g[: max(1, int(n_sim * share) // 2)]]
        sim, sim_results = ec.sim_step(chk, PROP, env, sim_specs, cfg["per_func"], pr["driver_ok"], broken,
                                       judge=lambda c, p_, r, st: judge(c, p_, r, st), stats=stats, behav=behav)
        # ---- verdict on the token tie
        if tok_bad:
            unexplained = [s for s in tok_bad if s not in behav]
            if unexplained:
                s0 = unexplained[0]
                broken.append({"kind": "correspondence", "name": "emit-tokens",
                               "msg": "%d module(s) differ between real w2c2 and Model.Emit/Render; first %s: %r" % (len(tok_bad), s0, tok_bad[s0]),
                               "modules": unexplained[:10]})
        chk.coverage.update({
            "programs": len(tok_specs), "disagreements_checked": stats["calls_compared"] + nfun,
            "rule": "emit-tokens case = (module seed:profile:index, -m, -p): every function's C token stream, real w2c2 vs Lean model; "
                    "e2e case = module + call script (round-robin over exported functions, %d boundary-heavy argument vectors each) on one "
                    "instance, real w2c2 -> gcc -O1 vs V8 (sim-semantics case = one call of such a script whose static call graph reaches no import and no "
                    "bulk-memory/atomic instruction, run by `E mrun` on ONE instance state threaded through the script (ginit/meminit/data from the "
                    "module): src result = V8 = real, tgt = src incl. globals/pages/memory, final globals/pages/memory windows vs the real "
                    "instance; scripts end at the first call that leaves the model or traps after writing state; `E elem` vs the real table): results/trap classes, ordered host-call trace with argument bits and instance "
                    "identity, final memory hash, exported globals; non-trivial = module has >= 1 function (tokens) / >= 1 executed call (e2e)"
                    % cfg["per_func"],
            "emit_tokens_functions": nfun, "emit_tokens_modules": len(tok_specs), "emit_tokens_modes": ["plain", "-p", "-m", "-p -m"],
            "emit_tokens_mismatching_modules": len(tok_bad), "emit_tokens_skipped_modules": nskip,
            "e2e_modules": len([r for r in results if not r.get("error")]), "e2e_calls_compared": stats["calls_compared"],
            "e2e_host_calls_compared": stats["host_calls"], "e2e_scripts_truncated_at_v8_only_trap": trunc,
            "e2e_outcomes": traps,
            "differing_modules_not_reported_individually": stats.get("not_reported_same_run", 0),
            "e2e_differences_allowed_by_nan_sign_nondeterminism": stats.get("nan_sign_leaks_tolerated", 0),
            "modules_hit_by_known_finding_" + KEY_UNDERSCORE: stats.get("underscore_boundary_modules", 0),
            "newchild_family_runs": stats.get("family_runs", 0), "newchild_family_calls_compared": stats.get("family_calls", 0),
            "newchild_families_with_defined_table_and_call_indirect": sum(1 for r in results if r.get("family") and not r["family"].get("skipped")
                                                                         and (r.get("shape") or {}).get("table") == "defined" and (r.get("ops") or {}).get("call_indirect")),
            "e2e_option_variants": {t: sum(1 for r in results if not r.get("error") and (r["spec"].get("opt_tag") or "") == t) for t in ("-p", "-m", "-p-m")},
            "e2e_option_variants_with_tables_compared": sum(1 for r in results if not r.get("error") and r["spec"].get("opt_tag") and
                                                            any((b["real"].get("table") or []) != [] for b in r.get("builds", []))),
            "inittables_text": ({k: tt[k] for k in ("cases", "modules", "segments", "stores", "no_inittables", "header_not_parsed")} if tt else None),
            "inittables_text_disagreements": len(tt["disagreements"]) if tt else None,
            "sim_semantics_module_specs": len(sim_specs), "op_histogram": ec.top(ops, 60), "corpus_modules": len(corpus),
            "traces_validated_against_impl": stats["calls_compared"],
        })
        chk.notes.append("module-level text other than InitTables (header prototypes, exports array) is not rendered by the Lean driver: "
                         "that part is tied behaviourally (e2e incl. -p/-m: table slots vs element segments, call_indirect results, host trace)")
    if stats["errors"]:
        chk.notes.append({"tool_errors": stats["errors"][:10]})
        if len(stats["errors"]) > max(3, len(results) // 20):
            raise RuntimeError("too many e2e tool errors: %r" % stats["errors"][:5])
    if tier == "thorough" and pr.get("modules") and pr["build_ok"]:
        import common
        for mname, msg in common.leanchecker(chk, pr["modules"]):
            broken.append({"kind": "leanchecker", "msg": "%s: %s" % (mname, msg)})
    if broken and not chk.violations:          # (a hit of the recorded finding KEY_UNDERSCORE never explains a broken obligation / tie)
        chk.violation("tie-or-proof-broken",
                      "a proof obligation or a correspondence (emit-tokens / sim-semantics) no longer checks; e2e (incl. every module whose tokens differ) "
                      "found no input on which the compiled output of the real w2c2 disagrees with the specification",
                      {"broken": broken[:20], "correspondence": sorted(set(b.get("name", b.get("kind")) for b in broken))}, False)
    elif broken:
        chk.notes.append({"broken": broken[:10]})
    return chk.finish()


def replay(path, PROP="C03"):
    r = json.load(open(path))
    if "spec" not in r:
        print("replay: no module in this file (proof/tie breakage): %r" % (r.get("broken"),))
        return 1
    with vlib.scratch(PROP.lower() + "r-") as d:
        env = ec.Env(d)
        res = ec.e2e_job(dict(make_jobs(env, [r["spec"]], CFG[PROP]["per_func"])[0], family=bool(CFG[PROP].get("family"))))
        tok = ec.emit_tokens_batch(env, [r["spec"]])
    if res.get("error"):
        raise RuntimeError(res["error"])
    bad = 0
    for dd in (res.get("family") or {}).get("diffs", []):
        bad += 1
        print("replay %s: %s (NewChild family, instance %s): real %r specified %r" % (res["id"], dd["kind"], dd.get("role"), dd.get("real"), dd.get("v8", dd.get("spec"))))
    for b in res["builds"]:
        if b["real"]["instantiate"][0] in ("build_error", "w2c2_error"):
            bad += 1
            print("replay %s: %r" % (res["id"], b["real"]["instantiate"]))
        for dd in ec.nan_leak_filter(res["spec"], res.get("calls_made") or [], list(b["diffs"]))[0] + b.get("init_diffs", []):
            bad += 1
            call = res["calls_made"][dd["call"]] if dd.get("call") is not None else None
            print("replay %s: %s call=%r: real %r specified %r" % (res["id"], dd["kind"], call, dd.get("real"), dd.get("v8", dd.get("spec"))))
        print("build:", (b["real"]["build"] or [""])[-1][:400])
    for sid, t in tok.items():
        print("emit-tokens %s: %d functions, %d differ %r" % (sid, t["functions"], len(t["mismatch"]), t["mismatch"][:1]))
    print("replay %s: %d disagreement(s)" % (res["id"], bad))
    return 1 if bad else 0
