"""initmem — shared by C06 and C09: everything about the emitted `<module>InitMemories` and the data it refers to.

* `data_specs(seed, n)`: data-segment-centred modules (hex specs, replayable as they are): memory defined / imported / shared
  (min < max), 0-7 segments mixing passive, active, EMPTY, ALL-ZERO, later-over-earlier overlapping segments, offsets given by
  `i32.const` or by `global.get` of an import, an imported memory the embedder PRE-FILLED with non-zero bytes; exported
  functions read bytes back, run memory.init on every passive segment, memory.size / memory.grow.
* `text_tie(env, specs, …)` — correspondence `initmem-text`: for each module and each of the four data segment modes
  (`-d arrays | gnu-ld | sectcreate1 | sectcreate2`, with and without -p) the REAL w2c2's `<module>InitMemories` text,
  the `datasegments` blob it writes and the `d<k>` arrays it prints are compared with `Model.InitMem.render / blobOf /
  arraysOf` (Lean driver `I initmem`), i.e. with the interpretation of the regenerated emitter loops that Props/C06Init.lean
  proves correct.  sectcreate1/2 cannot be linked on Linux: for them this text tie is the whole tie.
* directed modules (`directed_specs`) and `mode_jobs`: e2e runs of the real output in `-d arrays` and `-d gnu-ld` (the blob
  is linked with `ld -r -b binary`, see e2e.link_datasegments) against V8.
"""
import os
import random
import re
import shutil
import subprocess
import sys
import multiprocessing

sys.path[:0] = [os.path.join(os.path.dirname(os.path.abspath(__file__)), ".."), os.path.join(os.path.dirname(os.path.abspath(__file__)), "..", "harness")]
import vlib
import e2e
import e2e_common as ec
from wasmgen import wasm_ast as A, encode

MODES = ("arrays", "gnu-ld", "sectcreate1", "sectcreate2")
KW_RE = None


# ------------------------------------------------------------------------------- modules
def build_data_module(rng, kind=None, force=None):
    """kind: defined | imported | shared | shared-imported.  Returns (module, imports_spec, calls)."""
    I = A.Instr
    kind = kind or rng.choice(("defined", "defined", "imported", "imported", "shared", "shared-imported"))
    m = A.Module()
    m.types = [A.FuncType([A.I32], [A.I32]), A.FuncType([], [A.I32])]
    imports_spec = {"globals": {}}
    m.imports.append(A.Import(b"env", b"goff", "global", A.GlobalType(A.I32, False)))
    goff = rng.choice((0, 5, 40, 1000))
    imports_spec["globals"][0] = goff
    mn = rng.choice((1, 1, 2))
    mx = mn + rng.choice((1, 2, 3))
    shared = kind.startswith("shared")
    if kind in ("imported", "shared-imported"):
        m.imports.append(A.Import(b"env", b"mem", "memory", A.Limits(mn, mx, shared=shared)))
        if rng.random() < 0.7:
            fill = [[rng.choice((0, 3, 32, 64)), bytes(rng.randrange(1, 256) for _ in range(rng.choice((8, 40, 100)))).hex()]]
            imports_spec["mem_fill"] = {1: fill}
    else:
        m.mems.append(A.Limits(mn, mx, shared=shared))
    nd = rng.choice((0, 1, 2, 3, 3, 4, 5, 7)) if force is None else len(force)
    last = rng.choice((0, 16, 64))
    npass = 0
    for k in range(nd):
        what = force[k] if force else rng.choice(("active", "active", "zero", "empty", "passive", "passive" if not shared else "active", "overlap-zero", "overlap"))
        ln = rng.choice((1, 2, 3, 8, 17, 19, 36, 64, 200))
        if what == "passive" and not shared:
            data = bytes(rng.randrange(256) for _ in range(rng.choice((0, ln))))
            m.datas.append(A.DataSegment("passive", data))
            npass += 1
            continue
        if what == "empty":
            data = b""
        elif what in ("zero", "overlap-zero"):
            data = bytes(ln)
        else:
            data = bytes(rng.randrange(1, 256) for _ in range(ln))
        if what.startswith("overlap"):
            off = max(0, last - rng.randint(1, 12))
        elif rng.random() < 0.25:
            off = None            # global.get 0
        else:
            off = rng.choice((0, 1, 16, 33, 64, 100, 65536 - len(data), rng.randint(0, 300)))
        if off is None:
            expr = I("global.get", 0)
            last = goff + len(data)
        else:
            off = min(off, 65536 - len(data))
            expr = I("i32.const", off)
            last = off + len(data)
        m.datas.append(A.DataSegment("active", data, expr, 0, enc_flag=rng.choice((0, 0, 2))))
    if npass or (m.datas and rng.random() < 0.5):
        m.datacount = len(m.datas)
    # functions
    funcs = [(b"ld", 0, [I("local.get", 0), I("i32.load8_u", 0, 0)]),
             (b"size", 1, [I("memory.size")]),
             (b"grow", 0, [I("local.get", 0), I("memory.grow")])]
    for k, d in enumerate(m.datas):
        if d.mode == "passive":
            # copy the whole passive segment to 4096 + 16 k, return its first byte (or 0)
            funcs.append((b"mi%d" % k, 1, [I("i32.const", 4096 + 300 * k), I("i32.const", 0), I("i32.const", len(d.data)), I("memory.init", k),
                                           I("i32.const", 4096 + 300 * k), I("i32.load8_u", 0, 0)]))
    for nm, ty, body in funcs:
        m.funcs.append(A.Function(ty, [], body))
        m.exports.append(A.Export(nm, "func", len(m.funcs) - 1))
    m.exports.append(A.Export(b"mem", "memory", 0))
    calls = [(b"size", [])]
    probe = set((0, 1, 2, 3, 16, 33, 64, 65, 100, goff, goff + 1, 65535))
    for d in m.datas:
        if d.mode == "active":
            o = (goff if d.offset.op == "global.get" else d.offset.imm[0]) & 0xFFFFFFFF
            probe.update((o, o + len(d.data) - 1 if d.data else o, o + len(d.data)))
    calls += [(b"ld", [("i32", a)]) for a in sorted(probe) if 0 <= a < 65536][:24]
    for k, d in enumerate(m.datas):
        if d.mode == "passive":
            calls += [(b"mi%d" % k, []), (b"ld", [("i32", 4096 + 300 * k + max(0, len(d.data) - 1))])]
    calls += [(b"grow", [("i32", 1)]), (b"size", []), (b"grow", [("i32", 7)]), (b"size", [])]
    return m, imports_spec, calls


def spec_of(m, imports_spec, calls, sid, **extra):
    imp = {"globals": {str(k): v for k, v in (imports_spec.get("globals") or {}).items()}}
    if imports_spec.get("mem_fill"):
        imp["mem_fill"] = {str(k): v for k, v in imports_spec["mem_fill"].items()}
    s = {"hex": encode(m).hex(), "imports_spec": imp, "calls": [[n.hex(), [[t, b] for t, b in a]] for n, a in calls], "id": sid}
    s.update(extra)
    return s


def data_specs(seed, n, start=0):
    out = []
    for k in range(start, start + n):
        rng = random.Random("%s:initmem:%d" % (seed, k))
        m, imp, calls = build_data_module(rng)
        out.append(spec_of(m, imp, calls, "%s:initmem:%d" % (seed, k)))
    return out


def directed_modules():
    """[(file name, note, module, imports_spec, calls)] — the modules kept in tools/corpus/C06 and tools/corpus/C09"""
    I = A.Instr
    out = []

    def base(kind, segs, fill=None, goff=24):
        rng = random.Random("directed")
        m, imp, calls = build_data_module(rng, kind, force=[])
        imp["globals"][0] = goff
        if fill:
            imp["mem_fill"] = {1: fill}
        elif "mem_fill" in imp:
            del imp["mem_fill"]
        m.datas = segs
        if any(s.mode == "passive" for s in segs):
            m.datacount = len(segs)
        # memory.init readers for the passive segments
        for k, d in enumerate(segs):
            if d.mode == "passive":
                m.funcs.append(A.Function(1, [], [I("i32.const", 4096 + 300 * k), I("i32.const", 0), I("i32.const", len(d.data)), I("memory.init", k),
                                                I("i32.const", 4096 + 300 * k), I("i32.load8_u", 0, 0)]))
                m.exports.insert(len(m.exports) - 1, A.Export(b"mi%d" % k, "func", len(m.funcs) - 1))
        return m, imp
    # 1. later all-zero segment over an earlier non-zero one (defined memory)
    m, imp = base("defined", [A.DataSegment("active", b"ABCDEFGHIJKLMNOP", I("i32.const", 16), 0),
                              A.DataSegment("active", bytes(6), I("i32.const", 20), 0),
                              A.DataSegment("active", b"xy", I("i32.const", 23), 0)])
    calls = [(b"ld", [("i32", a)]) for a in range(14, 34)] + [(b"size", [])]
    out.append(("zero-segment-over-earlier-segment.json", "an all-zero active segment overlapping an EARLIER non-zero segment must still be copied "
                "(segments are applied in order; later wins)", m, imp, calls))
    # 2. all-zero segment into an imported memory the embedder pre-filled
    m, imp = base("imported", [A.DataSegment("active", bytes(8), I("i32.const", 36), 0), A.DataSegment("active", bytes(3), I("global.get", 0), 0)],
                  fill=[[32, bytes(range(1, 33)).hex()], [20, "aabbccddeeff1122"]])
    calls = [(b"ld", [("i32", a)]) for a in list(range(18, 30)) + list(range(30, 66, 1))] + [(b"size", [])]
    out.append(("zero-segment-into-prefilled-imported-memory.json", "an all-zero active segment written into an IMPORTED memory whose bytes the embedder "
                "set to non-zero values before instantiation must overwrite them", m, imp, calls))
    # 3. passive segments between active ones (blob offsets in -d gnu-ld / sectcreate count ALL earlier segments)
    segs = [A.DataSegment("active", b"first-", I("i32.const", 8), 0), A.DataSegment("passive", b"PASSIVE-ONE"),
            A.DataSegment("active", b"second", I("i32.const", 40), 0), A.DataSegment("passive", b""),
            A.DataSegment("passive", b"p2"), A.DataSegment("active", b"third!", I("global.get", 0), 0),
            A.DataSegment("active", b"", I("i32.const", 65536), 0), A.DataSegment("active", b"4th", I("i32.const", 65533), 0)]
    m, imp = base("defined", segs, goff=70)
    calls = [(b"ld", [("i32", a)]) for a in list(range(6, 16)) + list(range(38, 48)) + list(range(68, 78)) + [65532, 65533, 65534, 65535]]
    calls += [(b"mi1", []), (b"ld", [("i32", 4096 + 300 + 10)]), (b"mi3", []), (b"mi4", []), (b"ld", [("i32", 4096 + 1200 + 1)])]
    out.append(("passive-segments-between-active-ones.json", "passive (incl. an empty) data segments between active ones: in the -d gnu-ld / sectcreate "
                "modes every segment is read at blob offset = total length of ALL earlier segments; memory.init of the passive ones", m, imp, calls))
    # 4. shared memory with min < max: memory.size right after instantiation is the declared minimum
    m, imp = base("shared", [A.DataSegment("active", b"shared-data", I("i32.const", 100), 0)])
    m.mems = [A.Limits(2, 5, shared=True)]
    calls = [(b"size", []), (b"ld", [("i32", 100)]), (b"ld", [("i32", 131071)]), (b"grow", [("i32", 0)]), (b"grow", [("i32", 1)]), (b"size", []),
             (b"ld", [("i32", 3 * 65536 - 1)]), (b"grow", [("i32", 3)]), (b"size", []), (b"grow", [("i32", 2)]), (b"size", []), (b"grow", [("i32", 1)]), (b"size", [])]
    out.append(("shared-memory-initial-pages.json", "a SHARED memory declared (min 2, max 5): memory.size right after instantiation is 2, grow works up "
                "to 5 and then fails (the memory is allocated at its maximum but starts with the declared minimum of pages)", m, imp, calls))
    # 5. the same for an imported shared memory + data
    m, imp = base("shared-imported", [A.DataSegment("active", bytes(4), I("i32.const", 4), 0)], fill=[[0, "0102030405060708090a"]])
    calls = [(b"size", [])] + [(b"ld", [("i32", a)]) for a in range(0, 12)] + [(b"grow", [("i32", 1)]), (b"size", [])]
    out.append(("zero-segment-into-prefilled-shared-imported-memory.json", "imported SHARED memory, pre-filled by the embedder, with an all-zero active segment",
                m, imp, calls))
    return out


def write_corpus():
    """(re)writes the directed modules into tools/corpus/C06 and tools/corpus/C09 (committed output)."""
    import json
    for prop, names in (("C06", None), ("C09", ("passive-segments-between-active-ones.json", "zero-segment-over-earlier-segment.json"))):
        d = os.path.join(ec.CORPUS, prop)
        os.makedirs(d, exist_ok=True)
        for fn, note, m, imp, calls in directed_modules():
            if names is not None and fn not in names:
                continue
            s = spec_of(m, imp, calls, "corpus/%s/%s" % (prop, fn))
            del s["id"]
            s = dict(note=note, **s)
            with open(os.path.join(d, fn), "w") as f:
                json.dump(s, f, indent=1)
                f.write("\n")


# ------------------------------------------------------------------------------- the text tie
def _ce(e):
    return "g:%d" % e.imm[0] if e.op == "global.get" else "c:%x" % (e.imm[0] & 0xFFFFFFFF)


def initmem_line(m, mode):
    mi = sum(1 for i in m.imports if i.kind == "memory")

    def lst(xs, sep=","):
        return sep.join(xs) or "-"
    return " ".join(["I", "initmem", "mode=" + mode, "mi=%d" % mi,
                     "mems=" + lst("%d:%d" % (l.min, min(l.max, 65535) if l.max is not None else 65535) for l in m.mems),   # reader.c clamps the maximum
                     "shared=" + lst("1" if l.shared else "0" for l in m.mems),
                     "datas=" + lst(("%s:%d:%s:%s" % ("p" if d.mode == "passive" else "a", d.memory or 0, _ce(d.offset) if d.mode != "passive" else "c:0",
                                                     bytes(d.data).hex() or "-") for d in m.datas), ";")])


def nows(s):
    return re.sub(r"\s+", "", s)


def real_initmem(w2c2, d, name, wasm, mode, pretty):
    """run the real w2c2 -d mode; returns dict(body=<InitMemories body or None>, blob=<bytes|None>, arrays={k: bytes}, header=text) or error string"""
    if os.path.isdir(d):
        shutil.rmtree(d)
    os.makedirs(d)
    wp = os.path.join(d, name + ".wasm")
    with open(wp, "wb") as f:
        f.write(wasm)
    cmd = [w2c2, "-d", mode] + (["-p"] if pretty else []) + [wp, os.path.join(d, name + ".c")]
    p = subprocess.run(cmd, stdout=subprocess.PIPE, stderr=subprocess.PIPE, cwd=d, timeout=120)
    if p.returncode != 0:
        return "w2c2 rc=%r %s" % (p.returncode, p.stderr.decode("utf-8", "replace")[-200:])
    text = open(os.path.join(d, name + ".c")).read()
    hdr = open(os.path.join(d, name + ".h")).read()
    fm = re.search(r"static void %sInitMemories\(%sInstance\* i, %sInstance\* parent\) \{\n(.*?)\}\n\n" % (name, name, name), text, re.S)
    arrays = {}
    for am in re.finditer(r"const U8 d(\d+)\[\]\s*=\s*\{(.*?)\};", text, re.S):
        arrays[int(am.group(1))] = bytes(int(x, 0) for x in re.findall(r"0x[0-9a-fA-F]+|\d+", am.group(2)))
    blob = None
    bp = os.path.join(d, "datasegments")
    if os.path.exists(bp):
        blob = open(bp, "rb").read()
    return {"body": fm.group(1) if fm else None, "blob": blob, "arrays": arrays, "header": hdr, "cmd": " ".join(cmd[1:-2])}


def expected_regex(tokens, m, hdr):
    """regex (over the white-space-free body) for the model's token list, with the C names of this module"""
    names = [f[1] for f in hdr.mem_imports] + [f[1] for f in hdr.mems]
    gnames = [f[1] for f in hdr.global_imports]
    out = []
    consts = []
    for t in tokens:
        if re.fullmatch(r"M\d+", t):
            out.append(re.escape("i->" + names[int(t[1:])]))
        elif re.fullmatch(r"P\d+", t):
            out.append(re.escape("parent->" + names[int(t[1:])]))
        elif re.fullmatch(r"U\d+", t):
            out.append(re.escape("(*i->" + names[int(t[1:])] + ")"))
        elif t.startswith("Ec:"):
            out.append(r"(-?\d+)U")
            consts.append(int(t[3:], 16))
        elif t.startswith("Eg:"):
            out.append(re.escape("(*i->" + gnames[int(t[3:])] + ")"))
        else:
            out.append(re.escape(t))
    return "".join(out), consts


def _tt_worker(job):
    spec, w2c2, work, combos = job
    sid = ec.spec_id(spec)
    m, wasm, imp, exports = ec.load_module(spec)
    out = {"id": sid, "runs": []}
    d = os.path.join(work, "tt_%d" % os.getpid())
    for mode, pretty in combos:
        r = real_initmem(w2c2, d, "m", wasm, mode, pretty)
        if isinstance(r, dict):
            r["blob"] = None if r["blob"] is None else r["blob"].hex()
            r["arrays"] = {str(k): v.hex() for k, v in r["arrays"].items()}
        out["runs"].append((mode, pretty, r))
    shutil.rmtree(d, ignore_errors=True)
    return out


def text_tie(env, specs, driver_ok=True, modes=MODES, pretty_too=True, procs=None):
    """→ {'cases', 'modules', 'disagreements': [...], 'hist': {...}}; a case = (module, mode, pretty)"""
    out = {"cases": 0, "modules": 0, "disagreements": [], "hist": {"segments": 0, "passive": 0, "active": 0, "all_zero_active": 0, "empty": 0,
                                                                   "imported_memory": 0, "shared_memory": 0, "no_initmemories": 0, "load_data": 0,
                                                                   "ptr_init": 0, "blob_bytes": 0}}
    if not specs:
        return out
    jobs = []
    for n, spec in enumerate(specs):
        combos = [(mode, bool(pretty_too and (n + k) % 2)) for k, mode in enumerate(modes)]
        jobs.append((spec, env.w2c2, env.work, combos))
    procs = procs or min(16, os.cpu_count() or 4, len(jobs))
    if procs > 1:
        with multiprocessing.Pool(procs) as pool:
            reals = pool.map(_tt_worker, jobs, chunksize=4)
    else:
        reals = [_tt_worker(j) for j in jobs]
    lines, plan = [], []
    for spec, real in zip(specs, reals):
        m, wasm, imp, exports = ec.load_module(spec)
        out["modules"] += 1
        h = out["hist"]
        h["segments"] += len(m.datas)
        h["passive"] += sum(1 for s in m.datas if s.mode == "passive")
        h["active"] += sum(1 for s in m.datas if s.mode == "active")
        h["all_zero_active"] += sum(1 for s in m.datas if s.mode == "active" and len(s.data) and not any(s.data))
        h["empty"] += sum(1 for s in m.datas if not len(s.data))
        h["imported_memory"] += any(i.kind == "memory" for i in m.imports)
        h["shared_memory"] += bool(e2e.has_shared_memory(m))
        for mode, pretty, r in real["runs"]:
            plan.append((spec, m, mode, pretty, r, len(lines)))
            lines.append(initmem_line(m, mode))
    if not (driver_ok and env.driver):
        out["disagreements"].append({"what": "Lean driver unavailable"})
        return out
    ans = vlib.DriverProc(env.driver).batch(lines, timeout=3600)
    for spec, m, mode, pretty, r, li in plan:
        sid = ec.spec_id(spec)
        out["cases"] += 1

        def bad(what, model, real):
            out["disagreements"].append({"module": sid, "spec": spec, "mode": mode, "pretty": pretty, "what": what, "model": model, "real": real,
                                         "request": lines[li][:300]})
        if not isinstance(r, dict):
            bad("the real w2c2 failed", None, r)
            continue
        a = ans[li]
        mm = re.fullmatch(r"text ?(.*?) \| blob (\S+) \| arrays (\S+) \| emitted (.*)", a)
        if not mm:
            bad("driver answer", a[:200], None)
            continue
        toks = mm.group(1).split()
        if mm.group(4) == "none":
            bad("Model.InitMem.parse does not recognise the model's own rendering", a[:300], None)
            continue
        out["hist"]["load_data"] += len(re.findall(r"\bload(?:Arr|Blob):", mm.group(4)))
        out["hist"]["ptr_init"] += len(re.findall(r"\bptr:", mm.group(4)))
        try:
            hdr = e2e.parse_header(r["header"], m, "m")
        except e2e.E2EError:
            out["hist"]["header_not_parsed"] = out["hist"].get("header_not_parsed", 0) + 1      # e.g. two imports mangled to one C name (C11's subject)
            continue
        body = r["body"]
        if body is None:
            out["hist"]["no_initmemories"] += 1
            if toks or m.mems or m.datas:
                bad("the real output has no InitMemories function", " ".join(toks)[:300], None)
            continue
        rx, consts = expected_regex(toks, m, hdr)
        fm = re.fullmatch(rx, nows(body))
        if not fm:
            bad("InitMemories text", " ".join(toks)[:600], nows(body)[:600])
            continue
        got = [int(g) & 0xFFFFFFFF for g in fm.groups()]
        if got != consts:
            bad("offset constants in InitMemories", consts, got)
            continue
        if mode == "arrays":
            want = {} if not m.datas else {k: (None if x == "n" else bytes.fromhex("" if x == "-" else x)) for k, x in enumerate(mm.group(3).split(";"))}
            rarr = {int(k): bytes.fromhex(v) for k, v in r["arrays"].items()}
            if {k: v for k, v in want.items() if v is not None} != rarr:
                bad("d<k> arrays", {k: (v.hex() if v is not None else None) for k, v in want.items()}, {k: v.hex() for k, v in rarr.items()})
        else:
            wantb = "" if mm.group(2) == "-" else mm.group(2)
            out["hist"]["blob_bytes"] += len(wantb) // 2
            if r["blob"] is None or r["blob"] != wantb:
                bad("`datasegments` blob", wantb[:300], (r["blob"] or "<no file>")[:300])
    return out


# ------------------------------------------------------------------------------- e2e in the linkable modes
def mode_jobs(env, specs, modes=("arrays", "gnu-ld"), **kw):
    """e2e jobs (ec.e2e_job) for every spec in every given mode; the mode travels in the spec (`w2c2_opts`) so that a replay
    file reproduces it"""
    jobs = []
    for s in specs:
        for mode in modes:
            sp = dict(s, w2c2_opts=["-d", mode], id=ec.spec_id(s) + "+d=" + mode) if mode != "arrays" else s
            jobs.append(dict(spec=sp, env=env.tuple(), builds=[("gcc", ("-O1",), False)], init_dump=True, keep_mem=True, memdiag=True, **kw))
    return jobs


if __name__ == "__main__":
    import sys
    sys.path[:0] = [vlib.TOOLS, os.path.join(vlib.TOOLS, "harness")]
    write_corpus()
